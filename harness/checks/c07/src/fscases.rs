//! The FromScratch cases: RIPEMD-160, variable-length SHA-256 / Poseidon, Poseidon sponge.

use std::sync::Arc;

use ff::Field;
use midnight_circuits::{
    hash::{
        poseidon::{PoseidonChip, VarLenPoseidonGadget},
        ripemd160::RipeMD160Chip,
        sha256::VarLenSha256Gadget,
    },
    instructions::{hash::VarHashInstructions, AssignmentInstructions, HashInstructions, SpongeInstructions, VectorInstructions},
    types::{AssignedByte, AssignedNative, AssignedVector, InnerValue},
    vec::vector_gadget::VectorGadget,
};
use midnight_proofs::{
    circuit::{Layouter, Value},
    plonk::Error,
};
use num_bigint::BigUint;
use vgad::{val::*, Judgement, F};

use crate::{
    fs::{FsCase, FsExposer, NG},
    refs::{self, ByteHash, PoseidonParams, Sponge},
    zk::judge_bytes,
};

// ---------------------------------------------------------------------------------------------
// RIPEMD-160
// ---------------------------------------------------------------------------------------------

#[derive(Clone)]
pub struct RipemdCase {
    pub msg: Vec<u8>,
    pub content: String,
}

impl FsCase for RipemdCase {
    type Chip = RipeMD160Chip<F>;
    fn key(&self) -> String {
        format!("ripemd160/len{}/{}", self.msg.len(), self.content)
    }
    fn op(&self) -> String {
        "ripemd160".into()
    }
    fn k_hint(&self) -> u32 {
        12
    }
    fn synth<L: Layouter<F>>(&self, chip: &Self::Chip, ng: &NG, l: &mut L, ex: &FsExposer) -> Result<(), Error> {
        let vals: Vec<Value<u8>> = self.msg.iter().map(|b| Value::known(*b)).collect();
        let bytes: Vec<AssignedByte<F>> = ng.assign_many(l, &vals)?;
        for b in &bytes {
            ex.input(ng, l, b)?;
        }
        let out = chip.hash(l, &bytes)?;
        for b in out.iter() {
            ex.output(ng, l, b)?;
        }
        Ok(())
    }
    fn judge(&self, ins: &[Vec<F>], outs: &[Vec<F>]) -> Judgement {
        judge_bytes(ByteHash::Ripemd160, ins, outs)
    }
}

// ---------------------------------------------------------------------------------------------
// variable-length inputs: how the unused part of the buffer is filled
// ---------------------------------------------------------------------------------------------

#[derive(Clone, Copy, Debug, PartialEq, Eq)]
pub enum Filler {
    /// every unused position is 0 (the library's default FILLER)
    Zero,
    /// every unused position is the largest value of the type (0xFF / p-1)
    Max,
    /// whole unused chunks in front of the data hold a cyclic copy of the data (they are data of a
    /// longer vector whose first chunks are then cut off with `trim_beginning`); the unused tail of
    /// the last chunk holds a copy of the last data element
    CopyOfData,
    /// front chunks: seeded per-position values; tail: one seeded value
    Seeded,
}

impl Filler {
    pub const ALL: [Filler; 4] = [Filler::Zero, Filler::Max, Filler::CopyOfData, Filler::Seeded];
    pub fn name(self) -> &'static str {
        match self {
            Filler::Zero => "zero",
            Filler::Max => "max",
            Filler::CopyOfData => "copy",
            Filler::Seeded => "seeded",
        }
    }
}

/// Number of junk elements placed in front of the data: all whole chunks the data does not use.
fn junk_len(max: usize, a: usize, len: usize) -> usize {
    ((max - len) / a) * a
}

/// Builds the vector with the requested filler. Returns the vector to hash.
fn build_vector<T, const M: usize, const A: usize, L: Layouter<F>>(
    ng: &NG,
    l: &mut L,
    data: &[T::Element],
    filler: Filler,
    max_elem: T::Element,
    empty_copy: T::Element,
    seeded: &dyn Fn(usize) -> T::Element,
) -> Result<AssignedVector<F, T, M, A>, Error>
where
    T: midnight_circuits::types::Vectorizable,
    T::Element: Copy,
    VectorGadget<F>: VectorInstructions<F, T, M, A>,
{
    let vg = VectorGadget::new(ng);
    match filler {
        Filler::Zero => vg.assign_with_filler(l, Value::known(data.to_vec()), None),
        Filler::Max => vg.assign_with_filler(l, Value::known(data.to_vec()), Some(max_elem)),
        Filler::CopyOfData | Filler::Seeded => {
            let j = junk_len(M, A, data.len());
            let junk: Vec<T::Element> = (0..j)
                .map(|i| match filler {
                    Filler::CopyOfData if !data.is_empty() => data[i % data.len()],
                    Filler::CopyOfData => empty_copy,
                    _ => seeded(i),
                })
                .collect();
            let tail = match filler {
                Filler::CopyOfData => data.last().copied().unwrap_or(empty_copy),
                _ => seeded(M),
            };
            let long: Vec<T::Element> = junk.iter().chain(data.iter()).copied().collect();
            let v: AssignedVector<F, T, M, A> = vg.assign_with_filler(l, Value::known(long), Some(tail))?;
            if j == 0 {
                Ok(v)
            } else {
                vg.trim_beginning(l, &v, j)
            }
        }
    }
}

// ---------------------------------------------------------------------------------------------
// variable-length SHA-256
// ---------------------------------------------------------------------------------------------

#[derive(Clone)]
pub struct ShaVarCase {
    pub max: usize,
    pub data: Vec<u8>,
    pub content: String,
    pub filler: Filler,
    pub seed: u64,
}

impl ShaVarCase {
    fn go<const M: usize, L: Layouter<F>>(&self, chip: &VarLenSha256Gadget<F>, ng: &NG, l: &mut L, ex: &FsExposer) -> Result<(), Error> {
        let seed = self.seed;
        let seeded = move |i: usize| (vcore::fnv(&format!("c07-shavar-{seed}-{i}")) >> 17) as u8;
        let v: AssignedVector<F, AssignedByte<F>, M, 64> = build_vector::<AssignedByte<F>, M, 64, L>(ng, l, &self.data, self.filler, 0xFF, 0x80, &seeded)?;
        // the data the circuit's cells really carry (follows propagated faults)
        let mut data: Option<Vec<u8>> = None;
        let r = vcore::catch(|| {
            let mut d = None;
            v.value().map(|x| d = Some(x));
            d
        });
        match r {
            Ok(Some(d)) => data = Some(d),
            Ok(None) => {}
            Err(p) => ex.invalid(format!("the vector's length/buffer cannot be decoded: {p}")),
        }
        if let Some(d) = data {
            ex.record_input(d.into_iter().map(|b| F::from(b as u64)).collect());
        }
        let out = <VarLenSha256Gadget<F> as VarHashInstructions<F, M, AssignedByte<F>, [AssignedByte<F>; 32], 64>>::varhash(chip, l, &v)?;
        for b in out.iter() {
            ex.output(ng, l, b)?;
        }
        Ok(())
    }
}

impl FsCase for ShaVarCase {
    type Chip = VarLenSha256Gadget<F>;
    fn key(&self) -> String {
        format!("sha256_varlen/max{}/len{}/{}/filler-{}", self.max, self.data.len(), self.content, self.filler.name())
    }
    fn op(&self) -> String {
        "sha256_varlen".into()
    }
    fn k_hint(&self) -> u32 {
        13
    }
    fn synth<L: Layouter<F>>(&self, chip: &Self::Chip, ng: &NG, l: &mut L, ex: &FsExposer) -> Result<(), Error> {
        match self.max {
            64 => self.go::<64, L>(chip, ng, l, ex),
            128 => self.go::<128, L>(chip, ng, l, ex),
            192 => self.go::<192, L>(chip, ng, l, ex),
            m => panic!("unsupported MAX {m}"),
        }
    }
    fn judge(&self, ins: &[Vec<F>], outs: &[Vec<F>]) -> Judgement {
        if ins.len() != 1 {
            return Judgement::Wrong("the vector's data could not be read back".into());
        }
        // one recorded vector of single bytes -> one Vec per byte
        let per_byte: Vec<Vec<F>> = ins[0].iter().map(|b| vec![*b]).collect();
        judge_bytes(ByteHash::Sha256, &per_byte, outs)
    }
}

// ---------------------------------------------------------------------------------------------
// variable-length Poseidon
// ---------------------------------------------------------------------------------------------

#[derive(Clone)]
pub struct PoseidonVarCase {
    pub max: usize,
    pub data: Vec<F>,
    pub content: String,
    pub filler: Filler,
    pub seed: u64,
    pub params: Arc<PoseidonParams>,
}

impl PoseidonVarCase {
    fn go<const M: usize, L: Layouter<F>>(&self, chip: &VarLenPoseidonGadget<F>, ng: &NG, l: &mut L, ex: &FsExposer) -> Result<(), Error> {
        let seed = self.seed;
        let seeded = move |i: usize| F::random(vcore::rng_for(seed, &format!("c07-posvar-{i}")));
        let v: AssignedVector<F, AssignedNative<F>, M, 2> = build_vector::<AssignedNative<F>, M, 2, L>(ng, l, &self.data, self.filler, -F::ONE, F::ONE, &seeded)?;
        let r = vcore::catch(|| {
            let mut d = None;
            v.value().map(|x| d = Some(x));
            d
        });
        match r {
            Ok(Some(d)) => ex.record_input(d),
            Ok(None) => {}
            Err(p) => ex.invalid(format!("the vector's length/buffer cannot be decoded: {p}")),
        }
        let out = <VarLenPoseidonGadget<F> as VarHashInstructions<F, M, AssignedNative<F>, AssignedNative<F>, 2>>::varhash(chip, l, &v)?;
        ex.output(ng, l, &out)
    }
}

impl FsCase for PoseidonVarCase {
    type Chip = VarLenPoseidonGadget<F>;
    fn key(&self) -> String {
        format!("poseidon_varlen/max{}/len{}/{}/filler-{}", self.max, self.data.len(), self.content, self.filler.name())
    }
    fn op(&self) -> String {
        "poseidon_varlen".into()
    }
    fn k_hint(&self) -> u32 {
        9
    }
    fn synth<L: Layouter<F>>(&self, chip: &Self::Chip, ng: &NG, l: &mut L, ex: &FsExposer) -> Result<(), Error> {
        match self.max {
            8 => self.go::<8, L>(chip, ng, l, ex),
            12 => self.go::<12, L>(chip, ng, l, ex),
            m => panic!("unsupported MAX {m}"),
        }
    }
    fn judge(&self, ins: &[Vec<F>], outs: &[Vec<F>]) -> Judgement {
        if ins.len() != 1 {
            return Judgement::Wrong("the vector's data could not be read back".into());
        }
        if outs.len() != 1 || outs[0].len() != 1 {
            return Judgement::Wrong(format!("{} outputs exposed, expected 1", outs.len()));
        }
        let expect = refs::poseidon_hash(&self.params, &refs::bigs(&ins[0]));
        let got = to_big(&outs[0][0]);
        if got != expect {
            return Judgement::Wrong(format!(
                "plain Poseidon of the {} data elements {:?} is 0x{} but the circuit exposes 0x{}",
                ins[0].len(),
                ins[0].iter().map(hex).collect::<Vec<_>>(),
                expect.to_str_radix(16),
                got.to_str_radix(16)
            ));
        }
        Judgement::Holds
    }
}

// ---------------------------------------------------------------------------------------------
// Poseidon sponge interface
// ---------------------------------------------------------------------------------------------

#[derive(Clone, Debug, PartialEq)]
pub enum SOp {
    Absorb(Vec<F>),
    Squeeze,
}

#[derive(Clone)]
pub struct SpongeCase {
    pub input_len: Option<usize>,
    pub ops: Vec<SOp>,
    pub content: String,
    pub params: Arc<PoseidonParams>,
}

impl SpongeCase {
    pub fn shape(&self) -> String {
        let s: Vec<String> = self
            .ops
            .iter()
            .map(|o| match o {
                SOp::Absorb(v) => format!("A{}", v.len()),
                SOp::Squeeze => "S".into(),
            })
            .collect();
        format!("{}:{}", self.input_len.map(|l| format!("fixed{l}")).unwrap_or("var".into()), s.join(""))
    }
}

/// Replays a sponge operation sequence on the model. `None` if a squeeze is outside the domain.
pub fn model_sponge(params: &PoseidonParams, input_len: Option<usize>, ops: &[SOp]) -> Option<Vec<BigUint>> {
    let mut s = Sponge::init(params, input_len);
    let mut outs = vec![];
    for o in ops {
        match o {
            SOp::Absorb(v) => s.absorb(&refs::bigs(v)),
            SOp::Squeeze => outs.push(s.squeeze()?),
        }
    }
    Some(outs)
}

impl FsCase for SpongeCase {
    type Chip = PoseidonChip<F>;
    fn key(&self) -> String {
        format!("poseidon_sponge/{}/{}", self.shape(), self.content)
    }
    fn op(&self) -> String {
        "poseidon_sponge".into()
    }
    fn k_hint(&self) -> u32 {
        6
    }
    fn synth<L: Layouter<F>>(&self, chip: &Self::Chip, ng: &NG, l: &mut L, ex: &FsExposer) -> Result<(), Error> {
        let mut st = chip.init(l, self.input_len)?;
        for o in &self.ops {
            match o {
                SOp::Absorb(v) => {
                    let vals: Vec<Value<F>> = v.iter().map(|x| Value::known(*x)).collect();
                    let xs: Vec<AssignedNative<F>> = ng.assign_many(l, &vals)?;
                    for x in &xs {
                        ex.input(ng, l, x)?;
                    }
                    chip.absorb(l, &mut st, &xs)?;
                }
                SOp::Squeeze => {
                    let out = chip.squeeze(l, &mut st)?;
                    ex.output(ng, l, &out)?;
                }
            }
        }
        Ok(())
    }
    fn judge(&self, ins: &[Vec<F>], outs: &[Vec<F>]) -> Judgement {
        // regroup the exposed inputs by the (static) shape of the sequence
        let mut it = ins.iter();
        let mut ops = vec![];
        for o in &self.ops {
            match o {
                SOp::Absorb(v) => {
                    let mut xs = vec![];
                    for _ in 0..v.len() {
                        match it.next() {
                            Some(raw) if raw.len() == 1 => xs.push(raw[0]),
                            _ => return Judgement::Wrong("missing exposed input".into()),
                        }
                    }
                    ops.push(SOp::Absorb(xs));
                }
                SOp::Squeeze => ops.push(SOp::Squeeze),
            }
        }
        let Some(expect) = model_sponge(&self.params, self.input_len, &ops) else {
            return Judgement::Wrong("the operation sequence is outside the sponge's domain".into());
        };
        if outs.len() != expect.len() {
            return Judgement::Wrong(format!("{} outputs exposed, the model squeezes {}", outs.len(), expect.len()));
        }
        for (i, (o, e)) in outs.iter().zip(&expect).enumerate() {
            if o.len() != 1 || to_big(&o[0]) != *e {
                return Judgement::Wrong(format!(
                    "squeeze #{i} of {} is 0x{} in the model but the circuit exposes {:?}",
                    self.shape(),
                    e.to_str_radix(16),
                    o.iter().map(hex).collect::<Vec<_>>()
                ));
            }
        }
        Judgement::Holds
    }
}
