//! Reference models of C07: digests of the byte hashes (RustCrypto sha2 / sha3 / ripemd and
//! blake2b_simd), a plain Poseidon permutation + sponge over big integers, and the Grain-LFSR
//! parameter generator of the Poseidon reference scripts.

use num_bigint::BigUint;
use num_traits::{One, Zero};
use vgad::{val::*, F};

// ---------------------------------------------------------------------------------------------
// byte hashes
// ---------------------------------------------------------------------------------------------

#[derive(Clone, Copy, Debug, PartialEq, Eq, Hash)]
pub enum ByteHash {
    Sha256,
    Sha512,
    Sha3_256,
    Keccak256,
    Blake2b256,
    Blake2b512,
    Ripemd160,
}

impl ByteHash {
    pub fn name(self) -> &'static str {
        match self {
            ByteHash::Sha256 => "sha2_256",
            ByteHash::Sha512 => "sha2_512",
            ByteHash::Sha3_256 => "sha3_256",
            ByteHash::Keccak256 => "keccak_256",
            ByteHash::Blake2b256 => "blake2b_256",
            ByteHash::Blake2b512 => "blake2b_512",
            ByteHash::Ripemd160 => "ripemd160",
        }
    }
    pub fn out_len(self) -> usize {
        match self {
            ByteHash::Sha512 | ByteHash::Blake2b512 => 64,
            ByteHash::Ripemd160 => 20,
            _ => 32,
        }
    }
    /// Block (rate) size in bytes.
    pub fn block(self) -> usize {
        match self {
            ByteHash::Sha256 | ByteHash::Ripemd160 => 64,
            ByteHash::Sha512 | ByteHash::Blake2b256 | ByteHash::Blake2b512 => 128,
            ByteHash::Sha3_256 | ByteHash::Keccak256 => 136,
        }
    }
    pub fn digest(self, msg: &[u8]) -> Vec<u8> {
        use sha2::Digest;
        match self {
            ByteHash::Sha256 => sha2::Sha256::digest(msg).to_vec(),
            ByteHash::Sha512 => sha2::Sha512::digest(msg).to_vec(),
            ByteHash::Sha3_256 => sha3::Sha3_256::digest(msg).to_vec(),
            ByteHash::Keccak256 => sha3::Keccak256::digest(msg).to_vec(),
            ByteHash::Ripemd160 => ripemd::Ripemd160::digest(msg).to_vec(),
            ByteHash::Blake2b256 => blake2b_simd::Params::new().hash_length(32).hash(msg).as_bytes().to_vec(),
            ByteHash::Blake2b512 => blake2b_simd::Params::new().hash_length(64).hash(msg).as_bytes().to_vec(),
        }
    }
}

/// Known-answer self test of the reference crates themselves (anti-vacuity: a reference that
/// returned a constant would make every comparison meaningless).
pub fn reference_kats() -> Vec<(String, bool)> {
    let h = |x: &[u8]| vcore::hex(x);
    vec![
        ("sha256('')".into(), h(&ByteHash::Sha256.digest(b"")) == "e3b0c44298fc1c149afbf4c8996fb92427ae41e4649b934ca495991b7852b855"),
        ("sha256('abc')".into(), h(&ByteHash::Sha256.digest(b"abc")) == "ba7816bf8f01cfea414140de5dae2223b00361a396177a9cb410ff61f20015ad"),
        (
            "sha512('abc')".into(),
            h(&ByteHash::Sha512.digest(b"abc"))
                == "ddaf35a193617abacc417349ae20413112e6fa4e89a97ea20a9eeee64b55d39a2192992a274fc1a836ba3c23a3feebbd454d4423643ce80e2a9ac94fa54ca49f",
        ),
        ("sha3_256('')".into(), h(&ByteHash::Sha3_256.digest(b"")) == "a7ffc6f8bf1ed76651c14756a061d662f580ff4de43b49fa82d80a4b80f8434a"),
        ("keccak256('')".into(), h(&ByteHash::Keccak256.digest(b"")) == "c5d2460186f7233c927e7db2dcc703c0e500b653ca82273b7bfad8045d85a470"),
        ("ripemd160('abc')".into(), h(&ByteHash::Ripemd160.digest(b"abc")) == "8eb208f7e05d987a9b044a8e98c6b087f15a0bfc"),
        (
            "blake2b512('abc')".into(),
            h(&ByteHash::Blake2b512.digest(b"abc"))
                == "ba80a53f981c4d0d6a2797b69f12f6e94c212f14685ac4b74b12bb6fdbffa2d17d87c5392aab792dc252d5de4533cc9518d38aa8dbf1925ab92386edd4009923",
        ),
        ("blake2b256('abc')".into(), h(&ByteHash::Blake2b256.digest(b"abc")) == "bddd813c634239723171ef3fee98579b94964e3bb1cb3e427262c8c068d52319"),
    ]
}

// ---------------------------------------------------------------------------------------------
// Grain LFSR (generate_parameters_grain.sage)
// ---------------------------------------------------------------------------------------------

pub struct Grain {
    s: Vec<bool>, // 80 bits, s[0] is the oldest
}

impl Grain {
    /// field: 1 = GF(p); sbox: 0 = x^alpha; n = field size in bits; t = width.
    pub fn new(field: u32, sbox: u32, n: u32, t: u32, r_f: u32, r_p: u32) -> Grain {
        let mut s = vec![];
        let mut push = |v: u32, bits: u32| {
            for i in (0..bits).rev() {
                s.push((v >> i) & 1 == 1);
            }
        };
        push(field, 2);
        push(sbox, 4);
        push(n, 12);
        push(t, 12);
        push(r_f, 10);
        push(r_p, 10);
        for _ in 0..30 {
            s.push(true);
        }
        assert_eq!(s.len(), 80);
        let mut g = Grain { s };
        for _ in 0..160 {
            g.raw();
        }
        g
    }
    fn raw(&mut self) -> bool {
        let s = &self.s;
        let b = s[62] ^ s[51] ^ s[38] ^ s[23] ^ s[13] ^ s[0];
        self.s.remove(0);
        self.s.push(b);
        b
    }
    /// Bits are produced in pairs; the second bit of a pair is output iff the first is 1.
    pub fn bit(&mut self) -> bool {
        loop {
            let a = self.raw();
            let b = self.raw();
            if a {
                return b;
            }
        }
    }
    /// `n` bits, most significant first.
    pub fn int(&mut self, n: u32) -> BigUint {
        let mut x = BigUint::zero();
        for _ in 0..n {
            x = (x << 1) + if self.bit() { BigUint::one() } else { BigUint::zero() };
        }
        x
    }
    /// Rejection sampling of an element of GF(p) (round constants).
    pub fn field_element(&mut self, n: u32, p: &BigUint) -> BigUint {
        loop {
            let x = self.int(n);
            if x < *p {
                return x;
            }
        }
    }
}

// ---------------------------------------------------------------------------------------------
// plain Poseidon over big integers
// ---------------------------------------------------------------------------------------------

pub const T: usize = 3;
pub const RATE: usize = 2;
pub const R_F: usize = 8;
pub const R_P: usize = 60;

#[derive(Clone)]
pub struct PoseidonParams {
    pub p: BigUint,
    /// (R_F + R_P) x T
    pub rc: Vec<[BigUint; T]>,
    pub mds: [[BigUint; T]; T],
    /// index of the state word that receives the S-box in partial rounds
    pub partial_word: usize,
}

fn pow5(x: &BigUint, p: &BigUint) -> BigUint {
    let x2 = x * x % p;
    let x4 = &x2 * &x2 % p;
    x4 * x % p
}

impl PoseidonParams {
    /// The textbook permutation: for every round r: add round constants r, S-box layer (all words
    /// in the first and last R_F/2 rounds, one word otherwise), multiply by the MDS matrix.
    pub fn permute(&self, st: &mut [BigUint; T]) {
        let p = &self.p;
        for r in 0..R_F + R_P {
            for i in 0..T {
                st[i] = (&st[i] + &self.rc[r][i]) % p;
            }
            if r < R_F / 2 || r >= R_F / 2 + R_P {
                for i in 0..T {
                    st[i] = pow5(&st[i], p);
                }
            } else {
                st[self.partial_word] = pow5(&st[self.partial_word], p);
            }
            let mut new: [BigUint; T] = [BigUint::zero(), BigUint::zero(), BigUint::zero()];
            for i in 0..T {
                for j in 0..T {
                    new[i] = (&new[i] + &self.mds[i][j] * &st[j]) % p;
                }
            }
            *st = new;
        }
    }
}

/// The sponge rules of midnight's Poseidon (poseidon_cpu.rs), mirrored exactly:
///  * state = 3 words, rate words 0,1, capacity word 2; output = word 0;
///  * fixed-length mode `Some(L)`: capacity word starts as L, no padding element; exactly L
///    elements must have been absorbed at the (single) squeeze;
///  * variable-length mode `None`: capacity word starts as 2^64; at a squeeze that follows an
///    absorb (or is the first operation, or follows a wrap-around of the squeeze position) the
///    number of queued elements is appended to the queue as one extra element;
///  * the queue is consumed in chunks of 2: the chunk is added to words 0.. (a short last chunk
///    only touches word 0) and the permutation is applied after every chunk;
///  * the squeeze right after returns word 0; one more squeeze without absorb returns word 1
///    without permuting; the one after that starts over (pads the empty queue with 0, permutes).
#[derive(Clone)]
pub struct Sponge<'a> {
    pub params: &'a PoseidonParams,
    pub reg: [BigUint; T],
    pub queue: Vec<BigUint>,
    pub sq: usize,
    pub input_len: Option<usize>,
}

impl<'a> Sponge<'a> {
    pub fn init(params: &'a PoseidonParams, input_len: Option<usize>) -> Self {
        let cap = match input_len {
            Some(l) => BigUint::from(l),
            None => BigUint::one() << 64,
        };
        Sponge {
            params,
            reg: [BigUint::zero(), BigUint::zero(), cap],
            queue: vec![],
            sq: 0,
            input_len,
        }
    }
    pub fn absorb(&mut self, xs: &[BigUint]) {
        self.queue.extend(xs.iter().cloned());
        self.sq = 0;
    }
    /// `None` = outside the documented domain (the implementation panics).
    pub fn squeeze(&mut self) -> Option<BigUint> {
        if self.sq > 0 {
            if self.input_len.is_some() {
                return None;
            }
            let out = self.reg[self.sq % RATE].clone();
            self.sq = (self.sq + 1) % RATE;
            return Some(out);
        }
        match self.input_len {
            None => {
                let l = BigUint::from(self.queue.len());
                self.queue.push(l);
            }
            Some(l) => {
                if self.queue.len() != l {
                    return None;
                }
            }
        }
        let q = std::mem::take(&mut self.queue);
        for chunk in q.chunks(RATE) {
            for (i, v) in chunk.iter().enumerate() {
                self.reg[i] = (&self.reg[i] + v) % &self.params.p;
            }
            self.params.permute(&mut self.reg);
        }
        self.sq = 1 % RATE;
        Some(self.reg[0].clone())
    }
}

pub fn poseidon_hash(params: &PoseidonParams, xs: &[BigUint]) -> BigUint {
    let mut s = Sponge::init(params, Some(xs.len()));
    s.absorb(xs);
    s.squeeze().expect("consistent length")
}

pub fn bigs(xs: &[F]) -> Vec<BigUint> {
    xs.iter().map(to_big).collect()
}

/// 3x3 determinant and all minors are non-zero (the defining property of an MDS matrix).
pub fn all_minors_nonzero(m: &[[BigUint; T]; T], p: &BigUint) -> bool {
    let sub = |a: &BigUint, b: &BigUint| (a + p - (b % p)) % p;
    for i in 0..T {
        for j in 0..T {
            if m[i][j].is_zero() {
                return false;
            }
        }
    }
    // 2x2 minors
    for r0 in 0..T {
        for r1 in r0 + 1..T {
            for c0 in 0..T {
                for c1 in c0 + 1..T {
                    let d = sub(&(&m[r0][c0] * &m[r1][c1] % p), &(&m[r0][c1] * &m[r1][c0] % p));
                    if d.is_zero() {
                        return false;
                    }
                }
            }
        }
    }
    // determinant
    let m2 = |r0: usize, r1: usize, c0: usize, c1: usize| sub(&(&m[r0][c0] * &m[r1][c1] % p), &(&m[r0][c1] * &m[r1][c0] % p));
    let det = (&m[0][0] * m2(1, 2, 1, 2) % p + (p - &m[0][1] * m2(1, 2, 0, 2) % p) + &m[0][2] * m2(1, 2, 0, 1) % p) % p;
    !det.is_zero()
}

/// The Cauchy candidates `M[i][j] = 1/(x_i + y_j)` the script's `create_mds_p` draws from the LFSR
/// stream (2t integers of n bits reduced mod p per candidate, redrawn on duplicates or x_i+y_j=0).
pub fn next_cauchy(g: &mut Grain, n: u32, p: &BigUint) -> [[BigUint; T]; T] {
    loop {
        let mut l: Vec<BigUint> = (0..2 * T).map(|_| g.int(n) % p).collect();
        loop {
            let mut d = l.clone();
            d.sort();
            d.dedup();
            if d.len() == l.len() {
                break;
            }
            l = (0..2 * T).map(|_| g.int(n) % p).collect();
        }
        let (xs, ys) = l.split_at(T);
        let mut m: [[BigUint; T]; T] = Default::default();
        let mut ok = true;
        for i in 0..T {
            for j in 0..T {
                let s = (&xs[i] + &ys[j]) % p;
                if s.is_zero() {
                    ok = false;
                } else {
                    m[i][j] = s.modpow(&(p - 2u32), p);
                }
            }
        }
        if ok {
            return m;
        }
    }
}
