//! Hash entry points of `ZkStdLib` as vgad op cases.

use std::sync::Arc;

use midnight_circuits::{
    instructions::*,
    types::{AssignedByte, AssignedNative},
};
use midnight_proofs::{
    circuit::{Layouter, Value},
    plonk::Error,
};
use midnight_zk_stdlib::{ZkStdLib, ZkStdLibArch};
use vgad::{val::*, Exposer, Judgement, OpCase, F};

use crate::refs::{self, ByteHash, PoseidonParams};

#[derive(Clone)]
pub enum ZIn {
    Bytes(ByteHash, Vec<u8>),
    Poseidon(Vec<F>, Arc<PoseidonParams>),
}

#[derive(Clone)]
pub struct ZCase {
    pub input: ZIn,
    /// name of the content class (part of the key)
    pub content: String,
}

impl ZCase {
    pub fn len(&self) -> usize {
        match &self.input {
            ZIn::Bytes(_, m) => m.len(),
            ZIn::Poseidon(x, _) => x.len(),
        }
    }
}

pub fn judge_bytes(h: ByteHash, ins: &[Vec<F>], outs: &[Vec<F>]) -> Judgement {
    let mut msg = Vec::with_capacity(ins.len());
    for (i, raw) in ins.iter().enumerate() {
        match (raw.len(), raw.first().and_then(as_u8)) {
            (1, Some(b)) => msg.push(b),
            _ => return Judgement::Wrong(format!("exposed input byte {i} is not a byte: {:?}", raw.iter().map(hex).collect::<Vec<_>>())),
        }
    }
    let expect = h.digest(&msg);
    if outs.len() != expect.len() {
        return Judgement::Wrong(format!("{} output bytes exposed, the digest has {}", outs.len(), expect.len()));
    }
    let mut got = Vec::with_capacity(outs.len());
    for (i, raw) in outs.iter().enumerate() {
        match (raw.len(), raw.first().and_then(as_u8)) {
            (1, Some(b)) => got.push(b),
            _ => return Judgement::Wrong(format!("exposed output byte {i} is not a byte: {:?}", raw.iter().map(hex).collect::<Vec<_>>())),
        }
    }
    if got != expect {
        return Judgement::Wrong(format!(
            "{}(msg of {} bytes = {}) = {} but the circuit exposes {}",
            h.name(),
            msg.len(),
            vcore::hex(&msg),
            vcore::hex(&expect),
            vcore::hex(&got)
        ));
    }
    Judgement::Holds
}

pub fn judge_poseidon(params: &PoseidonParams, ins: &[Vec<F>], outs: &[Vec<F>]) -> Judgement {
    let mut xs = vec![];
    for raw in ins {
        if raw.len() != 1 {
            return Judgement::Wrong("an exposed input is not one field element".into());
        }
        xs.push(raw[0]);
    }
    if outs.len() != 1 || outs[0].len() != 1 {
        return Judgement::Wrong(format!("{} outputs exposed, expected 1", outs.len()));
    }
    let expect = refs::poseidon_hash(params, &refs::bigs(&xs));
    let got = to_big(&outs[0][0]);
    if got != expect {
        return Judgement::Wrong(format!(
            "plain Poseidon({:?}) = 0x{} but the circuit exposes 0x{}",
            xs.iter().map(hex).collect::<Vec<_>>(),
            expect.to_str_radix(16),
            got.to_str_radix(16)
        ));
    }
    Judgement::Holds
}

impl OpCase for ZCase {
    fn key(&self) -> String {
        format!("{}/len{}/{}", self.op(), self.len(), self.content)
    }
    fn op(&self) -> String {
        match &self.input {
            ZIn::Bytes(h, _) => h.name().to_string(),
            ZIn::Poseidon(..) => "poseidon".into(),
        }
    }
    fn arch(&self) -> ZkStdLibArch {
        let mut a = ZkStdLibArch {
            nr_pow2range_cols: 4,
            ..ZkStdLibArch::default()
        };
        match &self.input {
            ZIn::Bytes(ByteHash::Sha256, _) => a.sha2_256 = true,
            ZIn::Bytes(ByteHash::Sha512, _) => a.sha2_512 = true,
            ZIn::Bytes(ByteHash::Sha3_256, _) => a.sha3_256 = true,
            ZIn::Bytes(ByteHash::Keccak256, _) => a.keccak_256 = true,
            ZIn::Bytes(ByteHash::Blake2b256 | ByteHash::Blake2b512, _) => a.blake2b = true,
            ZIn::Bytes(ByteHash::Ripemd160, _) => unreachable!("RIPEMD-160 is not in ZkStdLib"),
            ZIn::Poseidon(..) => a.poseidon = true,
        }
        a
    }
    fn expect_sat(&self) -> bool {
        true
    }
    fn judge(&self, ins: &[Vec<F>], outs: &[Vec<F>]) -> Judgement {
        match &self.input {
            ZIn::Bytes(h, _) => judge_bytes(*h, ins, outs),
            ZIn::Poseidon(_, p) => judge_poseidon(p, ins, outs),
        }
    }
    fn synth<L: Layouter<F>>(&self, std: &ZkStdLib, l: &mut L, ex: &Exposer) -> Result<(), Error> {
        match &self.input {
            ZIn::Bytes(h, msg) => {
                let vals: Vec<Value<u8>> = msg.iter().map(|b| Value::known(*b)).collect();
                let bytes: Vec<AssignedByte<F>> = std.assign_many(l, &vals)?;
                for b in &bytes {
                    ex.input(std, l, b)?;
                }
                let out: Vec<AssignedByte<F>> = match h {
                    ByteHash::Sha256 => std.sha2_256(l, &bytes)?.to_vec(),
                    ByteHash::Sha512 => std.sha2_512(l, &bytes)?.to_vec(),
                    ByteHash::Sha3_256 => std.sha3_256(l, &bytes)?.to_vec(),
                    ByteHash::Keccak256 => std.keccak_256(l, &bytes)?.to_vec(),
                    ByteHash::Blake2b256 => std.blake2b_256(l, &bytes)?.to_vec(),
                    ByteHash::Blake2b512 => std.blake2b_512(l, &bytes)?.to_vec(),
                    ByteHash::Ripemd160 => unreachable!(),
                };
                for b in &out {
                    ex.output(std, l, b)?;
                }
            }
            ZIn::Poseidon(xs, _) => {
                let vals: Vec<Value<F>> = xs.iter().map(|x| Value::known(*x)).collect();
                let ins: Vec<AssignedNative<F>> = std.assign_many(l, &vals)?;
                for x in &ins {
                    ex.input(std, l, x)?;
                }
                let out = std.poseidon(l, &ins)?;
                ex.output(std, l, &out)?;
            }
        }
        Ok(())
    }
}
