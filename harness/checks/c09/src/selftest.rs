//! Deliberately witness-dependent harness operations: the oracle must flag each of them
//! (anti-vacuity). They are never reported as violations of the library.

use ff::Field;
use midnight_circuits::{instructions::*, types::AssignedNative};
use midnight_proofs::{
    circuit::{Layouter, Value},
    plonk::Error,
};
use midnight_zk_stdlib::{ZkStdLib, ZkStdLibArch};

use crate::oracle::{Ex, OpDef, F};

#[derive(Clone, Debug, PartialEq)]
pub enum Bad {
    /// `assign_fixed(w)`: a constant taken from the witness value
    FixedFromWitness,
    /// one more gate when the witness is known and non-zero
    GateIfNonZero,
    /// a copy constraint only when the two witnesses are equal
    CopyIfEqual,
    /// one more public input when the witness is known and non-zero
    ExtraPublicInput,
    /// honest control: nothing depends on the witness
    Control,
}

fn known(v: &Value<F>) -> Option<F> {
    let mut o = None;
    v.as_ref().map(|x| o = Some(*x));
    o
}

impl OpDef for Bad {
    type W = (F, F);
    fn name(&self) -> String {
        format!("Harness{self:?}")
    }
    fn key(&self) -> String {
        self.name()
    }
    fn arch(&self) -> ZkStdLibArch {
        ZkStdLibArch::default()
    }
    fn synth<L: Layouter<F>>(&self, std: &ZkStdLib, l: &mut L, w: Value<(F, F)>, ex: &Ex) -> Result<(), Error> {
        let xv = w.as_ref().map(|w| w.0);
        let yv = w.as_ref().map(|w| w.1);
        let x: AssignedNative<F> = std.assign(l, xv)?;
        let y: AssignedNative<F> = std.assign(l, yv)?;
        ex.pi(std, l, &x)?;
        let s = std.add(l, &x, &y)?;
        match self {
            Bad::FixedFromWitness => {
                let c: AssignedNative<F> = std.assign_fixed(l, known(&xv).unwrap_or(F::ZERO))?;
                let _ = std.add(l, &s, &c)?;
            }
            Bad::GateIfNonZero => {
                if known(&xv).map(|v| v != F::ZERO).unwrap_or(false) {
                    let _ = std.mul(l, &s, &x, None)?;
                }
            }
            Bad::CopyIfEqual => {
                if known(&xv).is_some() && known(&xv) == known(&yv) {
                    std.assert_equal(l, &x, &y)?;
                }
            }
            Bad::ExtraPublicInput => {
                if known(&xv).map(|v| v != F::ZERO).unwrap_or(false) {
                    ex.pi(std, l, &y)?;
                }
            }
            Bad::Control => {}
        }
        ex.pi(std, l, &s)
    }
}
