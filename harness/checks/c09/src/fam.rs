//! Further operation families: Jubjub ECC, Poseidon, hash-to-curve, SHA-2/SHA-3/Keccak/Blake2b,
//! secp256k1 scalar field (foreign field chip), BigUint gadget, vectors, parser/base64, foreign ECC
//! (secp256k1, BLS12-381). All operands come from one witness record [`GW`]; the static
//! parameters (lengths, bit bounds, constants) live in the operation.

use ff::{Field, PrimeField};
use group::Group;
use midnight_circuits::{
    instructions::*,
    types::{
        AssignedBigUint, AssignedBit, AssignedByte, AssignedField, AssignedForeignPoint, AssignedNative, AssignedNativePoint,
        AssignedScalarOfNativeCurve, AssignedVector,
    },
    field::foreign::params::MultiEmulationParams as MEP,
};
use midnight_curves::{
    k256::{Fq as KFq, K256},
    Fr as JFr, G1Projective, JubjubExtended, JubjubSubgroup,
};
use midnight_proofs::{
    circuit::{Layouter, Value},
    plonk::Error,
};
use midnight_zk_stdlib::{ZkStdLib, ZkStdLibArch};
use num_bigint::BigUint;
use vgad::val::hex;

use crate::oracle::{Ex, OpDef, F};

type JPt = AssignedNativePoint<JubjubExtended>;
type JSc = AssignedScalarOfNativeCurve<JubjubExtended>;
type KSc = AssignedField<F, KFq, MEP>;
type KPt = AssignedForeignPoint<F, K256, MEP>;
type BPt = AssignedForeignPoint<F, G1Projective, MEP>;

/// The operands of one run.
#[derive(Clone, Debug, Default)]
pub struct GW {
    pub jpts: Vec<JubjubSubgroup>,
    pub jscs: Vec<JFr>,
    pub nats: Vec<F>,
    pub bits: Vec<bool>,
    pub bytes: Vec<u8>,
    pub bigs: Vec<BigUint>,
    pub kscs: Vec<KFq>,
    pub kpts: Vec<K256>,
    pub bpts: Vec<G1Projective>,
}

pub fn show_gw(w: &GW) -> String {
    let mut s = vec![];
    if !w.jpts.is_empty() {
        s.push(format!("jubjub points {:?}", w.jpts.iter().map(|p| format!("{:?}", JubjubExtended::from(*p))).collect::<Vec<_>>()));
    }
    if !w.jscs.is_empty() {
        s.push(format!("jubjub scalars {:?}", w.jscs));
    }
    if !w.nats.is_empty() {
        s.push(format!("natives [{}]", w.nats.iter().map(hex).collect::<Vec<_>>().join(",")));
    }
    if !w.bits.is_empty() {
        s.push(format!("bits {:?}", w.bits));
    }
    if !w.bytes.is_empty() {
        s.push(format!("bytes {}", vcore::hex(&w.bytes)));
    }
    if !w.bigs.is_empty() {
        s.push(format!("integers {:?}", w.bigs.iter().map(|b| format!("0x{}", b.to_str_radix(16))).collect::<Vec<_>>()));
    }
    if !w.kscs.is_empty() {
        s.push(format!("secp256k1 scalars {:?}", w.kscs));
    }
    if !w.kpts.is_empty() {
        s.push(format!("secp256k1 points {:?}", w.kpts));
    }
    if !w.bpts.is_empty() {
        s.push(format!("bls12-381 points {:?}", w.bpts));
    }
    s.join("; ")
}

#[derive(Clone, Copy, Debug, PartialEq)]
pub enum HashKind {
    Sha256,
    Sha512,
    Sha3,
    Keccak,
    Blake2b256,
}

/// What `assign_as_public_input` is called on.
#[derive(Clone, Copy, Debug, PartialEq)]
pub enum PiKind {
    Native,
    Bit,
    Byte,
    JPoint,
    JScalar,
    KScalar,
    KPoint,
    BPoint,
    /// BigUint with a bound in bits (`assign_biguint` + `constrain_as_public_input`)
    Big(u32),
}

#[derive(Clone, Copy, Debug, PartialEq)]
pub enum Curve {
    Secp,
    Bls,
}

#[derive(Clone, Debug, PartialEq)]
pub enum GOp {
    // ---- Jubjub (native ECC chip)
    JAssign,
    JAssignScalar,
    JAdd,
    JDouble,
    JNegate,
    /// n terms
    JMsm(usize),
    JMulByConst(u64),
    JIsEqual,
    JAssertEqual,
    JAssertNotEqual,
    JIsZero,
    JAssertNonZero,
    JSelect,
    JFromCoords,
    /// scalar_from_le_bytes (n bytes) then msm of one term
    JMulBytes(usize),
    /// native -> scalar conversion then msm of one term
    JMulNative,
    // ---- Poseidon / hash to curve
    Poseidon(usize),
    HashToCurve(usize),
    // ---- byte hashes, message length in bytes
    Hash(HashKind, usize),
    // ---- secp256k1 scalar field (foreign field chip)
    KAssign,
    KAdd,
    KSub,
    KMul,
    KNeg,
    KInv,
    KDiv,
    KIsZero,
    KIsEqual,
    KAssertEqual,
    KAssertNotEqual,
    KSelect,
    KToLeBits,
    KToLeBytes,
    KFromLeBytes(usize),
    /// ((x + y) + x - y) * y + x : lazily reduced intermediate results
    KChain,
    // ---- BigUint gadget; operands bounded by the given number of bits
    BAssign(u32),
    BAdd(u32),
    BSub(u32),
    BMul(u32),
    BDivRem(u32),
    BModExp(u32, u64),
    BIsEqual(u32),
    BLowerThan(u32),
    BToLeBits(u32),
    BFromLeBytes(usize),
    BSelect(u32),
    // ---- vectors (M = 16, A = 4) of bytes: the length is part of the witness
    VAssign,
    VLimits,
    VPaddingFlag,
    VTrim(usize),
    // ---- parser gadget / base64
    /// sequence length, fetched length; idx = nats[0]
    FetchBytes(usize, usize),
    /// input length, padded?
    Base64(usize, bool),
    /// automaton parse (StdLibParser::Jwt) of an input of the given length
    JwtParse(usize),
    // ---- foreign ECC
    FAssign(Curve),
    FAdd(Curve),
    FDouble(Curve),
    FNegate(Curve),
    FMul(Curve),
    FIsEqual(Curve),
    FSelect(Curve),
    FMulByConst(Curve, u64),
    /// k_out_of_n_points: table of n witness points, k selected (indices in `bytes`)
    FKofN(Curve, usize, usize),
    // ---- `assign_as_public_input` of every exposable type
    AsPi(PiKind),
    // ---- map gadget (Poseidon Merkle map): nats = [key, value, k1, v1, k2, v2, ...] (initial content)
    MapGet,
    MapInsert,
}

impl GOp {
    pub fn family(&self) -> &'static str {
        use GOp::*;
        match self {
            JAssign | JAssignScalar | JAdd | JDouble | JNegate | JMsm(_) | JMulByConst(_) | JIsEqual | JAssertEqual | JAssertNotEqual | JIsZero
            | JAssertNonZero | JSelect | JFromCoords | JMulBytes(_) | JMulNative => "jubjub",
            Poseidon(_) | HashToCurve(_) => "poseidon",
            Hash(..) => "hash",
            KAssign | KAdd | KSub | KMul | KNeg | KInv | KDiv | KIsZero | KIsEqual | KAssertEqual | KAssertNotEqual | KSelect | KToLeBits | KToLeBytes
            | KFromLeBytes(_) | KChain => "secp256k1-scalar",
            BAssign(_) | BAdd(_) | BSub(_) | BMul(_) | BDivRem(_) | BModExp(..) | BIsEqual(_) | BLowerThan(_) | BToLeBits(_) | BFromLeBytes(_)
            | BSelect(_) => "biguint",
            VAssign | VLimits | VPaddingFlag | VTrim(_) => "vector",
            FetchBytes(..) | Base64(..) | JwtParse(_) => "parsing",
            FAssign(_) | FAdd(_) | FDouble(_) | FNegate(_) | FMul(_) | FIsEqual(_) | FSelect(_) | FMulByConst(..) | FKofN(..) => "foreign-ecc",
            AsPi(_) => "public-input",
            MapGet | MapInsert => "map",
        }
    }
}

const VM: usize = 16;
const VA: usize = 4;
type BVec = AssignedVector<F, AssignedByte<F>, VM, VA>;

fn idx<T: Clone + Send + Sync + 'static>(w: &Value<GW>, f: impl Fn(&GW) -> T) -> Value<T> {
    w.as_ref().map(|w| f(w))
}

impl OpDef for GOp {
    type W = GW;
    fn name(&self) -> String {
        let s = format!("{self:?}");
        let base = s.split(|c: char| c == '(' || c == ' ' || c == '{').next().unwrap().to_string();
        match self {
            GOp::Hash(k, _) => format!("{k:?}"),
            GOp::FKofN(..) => "KOutOfNPoints".into(),
            GOp::AsPi(PiKind::Big(_)) => "AssignAsPublicInputBigUint".into(),
            GOp::AsPi(k) => format!("AssignAsPublicInput{k:?}"),
            GOp::FAssign(c) | GOp::FAdd(c) | GOp::FDouble(c) | GOp::FNegate(c) | GOp::FMul(c) | GOp::FIsEqual(c) | GOp::FSelect(c) | GOp::FMulByConst(c, _) => {
                format!("{base}{c:?}")
            }
            _ => base,
        }
    }
    fn key(&self) -> String {
        format!("{self:?}")
    }
    fn arch(&self) -> ZkStdLibArch {
        use GOp::*;
        let mut a = ZkStdLibArch { nr_pow2range_cols: 4, ..ZkStdLibArch::default() };
        match self {
            Poseidon(_) | MapGet | MapInsert => a.poseidon = true,
            HashToCurve(_) => {
                a.poseidon = true;
                a.jubjub = true
            }
            Hash(HashKind::Sha256, _) => a.sha2_256 = true,
            Hash(HashKind::Sha512, _) => a.sha2_512 = true,
            Hash(HashKind::Sha3, _) => a.sha3_256 = true,
            Hash(HashKind::Keccak, _) => a.keccak_256 = true,
            Hash(HashKind::Blake2b256, _) => a.blake2b = true,
            Base64(..) => a.base64 = true,
            JwtParse(_) => a.automaton = true,
            AsPi(PiKind::JPoint) | AsPi(PiKind::JScalar) => a.jubjub = true,
            AsPi(PiKind::KScalar) | AsPi(PiKind::KPoint) => a.secp256k1 = true,
            AsPi(PiKind::BPoint) => a.bls12_381 = true,
            AsPi(_) => {}
            FAssign(c) | FAdd(c) | FDouble(c) | FNegate(c) | FMul(c) | FIsEqual(c) | FSelect(c) | FMulByConst(c, _) | FKofN(c, ..) => match c {
                Curve::Secp => a.secp256k1 = true,
                Curve::Bls => a.bls12_381 = true,
            },
            _ => match self.family() {
                "jubjub" => a.jubjub = true,
                "secp256k1-scalar" => a.secp256k1 = true,
                _ => {}
            },
        }
        a
    }

    fn synth<L: Layouter<F>>(&self, std: &ZkStdLib, l: &mut L, w: Value<GW>, ex: &Ex) -> Result<(), Error> {
        use GOp::*;
        match self.family() {
            "jubjub" => self.synth_jub(std, l, w, ex),
            "poseidon" => {
                let n = match self {
                    Poseidon(n) | HashToCurve(n) => *n,
                    _ => unreachable!(),
                };
                let vals: Vec<Value<F>> = (0..n).map(|i| idx(&w, |w| w.nats[i])).collect();
                let xs: Vec<AssignedNative<F>> = std.assign_many(l, &vals)?;
                for x in &xs {
                    ex.pi(std, l, x)?;
                }
                if matches!(self, Poseidon(_)) {
                    let h = std.poseidon(l, &xs)?;
                    ex.pi(std, l, &h)
                } else {
                    let p = std.hash_to_curve(l, &xs)?;
                    ex.pi_with(std.jubjub(), std, l, &p)
                }
            }
            "hash" => {
                let Hash(kind, n) = self else { unreachable!() };
                let vals: Vec<Value<u8>> = (0..*n).map(|i| idx(&w, |w| w.bytes[i])).collect();
                let xs: Vec<AssignedByte<F>> = std.assign_many(l, &vals)?;
                for x in &xs {
                    ex.pi(std, l, x)?;
                }
                let out: Vec<AssignedByte<F>> = match kind {
                    HashKind::Sha256 => std.sha2_256(l, &xs)?.to_vec(),
                    HashKind::Sha512 => std.sha2_512(l, &xs)?.to_vec(),
                    HashKind::Sha3 => std.sha3_256(l, &xs)?.to_vec(),
                    HashKind::Keccak => std.keccak_256(l, &xs)?.to_vec(),
                    HashKind::Blake2b256 => std.blake2b_256(l, &xs)?.to_vec(),
                };
                for x in &out {
                    ex.pi(std, l, x)?;
                }
                Ok(())
            }
            "secp256k1-scalar" => self.synth_kscalar(std, l, w, ex),
            "biguint" => self.synth_big(std, l, w, ex),
            "vector" => {
                let v: BVec = VectorInstructions::<F, AssignedByte<F>, VM, VA>::assign_with_filler(std, l, idx(&w, |w| w.bytes.clone()), None)?;
                match self {
                    VAssign => {}
                    VLimits => {
                        let (s, e) = VectorInstructions::<F, AssignedByte<F>, VM, VA>::get_limits(std, l, &v)?;
                        ex.pi(std, l, &s)?;
                        ex.pi(std, l, &e)?;
                    }
                    VPaddingFlag => {
                        let flags = VectorInstructions::<F, AssignedByte<F>, VM, VA>::padding_flag(std, l, &v)?;
                        for f in flags.iter() {
                            ex.pi(std, l, f)?;
                        }
                    }
                    VTrim(n) => {
                        let t: BVec = VectorInstructions::<F, AssignedByte<F>, VM, VA>::trim_beginning(std, l, &v, *n)?;
                        let (s, e) = VectorInstructions::<F, AssignedByte<F>, VM, VA>::get_limits(std, l, &t)?;
                        ex.pi(std, l, &s)?;
                        ex.pi(std, l, &e)?;
                    }
                    _ => unreachable!(),
                }
                let (s, _) = VectorInstructions::<F, AssignedByte<F>, VM, VA>::get_limits(std, l, &v)?;
                ex.pi(std, l, &s)
            }
            "parsing" => match self {
                FetchBytes(n, len) => {
                    let vals: Vec<Value<u8>> = (0..*n).map(|i| idx(&w, |w| w.bytes[i])).collect();
                    let seq: Vec<AssignedByte<F>> = std.assign_many(l, &vals)?;
                    let i: AssignedNative<F> = std.assign(l, idx(&w, |w| w.nats[0]))?;
                    ex.pi(std, l, &i)?;
                    let out = std.parser().fetch_bytes(l, &seq, &i, *len)?;
                    for x in &out {
                        ex.pi(std, l, x)?;
                    }
                    Ok(())
                }
                JwtParse(n) => {
                    let vals: Vec<Value<u8>> = (0..*n).map(|i| idx(&w, |w| w.bytes[i])).collect();
                    let seq: Vec<AssignedByte<F>> = std.assign_many(l, &vals)?;
                    let marks = std.automaton().parse(l, &midnight_circuits::parsing::StdLibParser::Jwt, &seq)?;
                    // expose the markers of a few positions spread over the input
                    for i in (0..marks.len()).step_by((marks.len() / 16).max(1)) {
                        ex.pi(std, l, &marks[i])?;
                    }
                    Ok(())
                }
                Base64(n, padded) => {
                    let vals: Vec<Value<u8>> = (0..*n).map(|i| idx(&w, |w| w.bytes[i])).collect();
                    let seq: Vec<AssignedByte<F>> = std.assign_many(l, &vals)?;
                    let out = std.base64().decode_base64(l, &seq, *padded)?;
                    for x in &out {
                        ex.pi(std, l, x)?;
                    }
                    Ok(())
                }
                _ => unreachable!(),
            },
            "foreign-ecc" => self.synth_fecc(std, l, w, ex),
            "map" => {
                use midnight_circuits::{hash::poseidon::PoseidonChip, instructions::map::{MapCPU, MapInstructions}, map::cpu::MapMt};
                let mut m = std.map_gadget().clone();
                let content: Value<MapMt<F, PoseidonChip<F>>> = w.as_ref().map(|w| {
                    let mut mm = <MapMt<F, PoseidonChip<F>> as MapCPU<F, F, F>>::new(&F::ZERO);
                    for kv in w.nats[2..].chunks(2) {
                        mm.insert(&kv[0], &kv[1]);
                    }
                    mm
                });
                m.init(l, content)?;
                let root0 = m.succinct_repr();
                ex.pi(std, l, &root0)?;
                let key: AssignedNative<F> = std.assign(l, idx(&w, |w| w.nats[0]))?;
                ex.pi(std, l, &key)?;
                if matches!(self, MapGet) {
                    let v = m.get(l, &key)?;
                    ex.pi(std, l, &v)
                } else {
                    let val: AssignedNative<F> = std.assign(l, idx(&w, |w| w.nats[1]))?;
                    m.insert(l, &key, &val)?;
                    let root1 = m.succinct_repr();
                    ex.pi(std, l, &root1)
                }
            }
            "public-input" => {
                let AsPi(kind) = self else { unreachable!() };
                // the cells are constrained by `assign_as_public_input` itself; only log them
                macro_rules! logged {
                    ($chip:expr, $T:ty, $val:expr) => {{
                        let chip = $chip;
                        let x: $T = PublicInputInstructions::<F, $T>::assign_as_public_input(chip, l, $val)?;
                        let cells = PublicInputInstructions::<F, $T>::as_public_input(chip, l, &x)?;
                        crate::oracle::log_pi(&cells);
                        Ok(())
                    }};
                }
                match kind {
                    PiKind::Native => logged!(std, AssignedNative<F>, idx(&w, |w| w.nats[0])),
                    PiKind::Bit => logged!(std, AssignedBit<F>, idx(&w, |w| w.bits[0])),
                    PiKind::Byte => logged!(std, AssignedByte<F>, idx(&w, |w| w.bytes[0])),
                    PiKind::JPoint => logged!(std.jubjub(), JPt, idx(&w, |w| w.jpts[0])),
                    PiKind::JScalar => logged!(std.jubjub(), JSc, idx(&w, |w| w.jscs[0])),
                    PiKind::KScalar => logged!(std.secp256k1_scalar(), KSc, idx(&w, |w| w.kscs[0])),
                    PiKind::KPoint => logged!(std.secp256k1_curve(), KPt, idx(&w, |w| w.kpts[0])),
                    PiKind::BPoint => logged!(std.bls12_381_curve(), BPt, idx(&w, |w| w.bpts[0])),
                    PiKind::Big(nb) => {
                        let g = std.biguint();
                        let x = g.assign_biguint(l, idx(&w, |w| w.bigs[0].clone()), *nb)?;
                        g.constrain_as_public_input(l, &x, *nb)?;
                        let mut vals: Vec<Option<F>> = vec![None; AssignedBigUint::<F>::as_public_input(&BigUint::from(0u32), *nb).len()];
                        w.as_ref().map(|w| vals = AssignedBigUint::<F>::as_public_input(&w.bigs[0], *nb).into_iter().map(Some).collect());
                        crate::oracle::log_values(&vals);
                        Ok(())
                    }
                }
            }
            _ => unreachable!(),
        }
    }
}

impl GOp {
    fn synth_jub<L: Layouter<F>>(&self, std: &ZkStdLib, l: &mut L, w: Value<GW>, ex: &Ex) -> Result<(), Error> {
        use GOp::*;
        let chip = std.jubjub();
        let pt = |l: &mut L, i: usize| -> Result<JPt, Error> { AssignmentInstructions::<F, JPt>::assign(chip, l, idx(&w, |w| w.jpts[i])) };
        let sc = |l: &mut L, i: usize| -> Result<JSc, Error> { AssignmentInstructions::<F, JSc>::assign(chip, l, idx(&w, |w| w.jscs[i])) };
        let out_pt = |l: &mut L, p: &JPt| ex.pi_with(chip, std, l, p);
        match self {
            JAssign => {
                let p = pt(l, 0)?;
                out_pt(l, &p)
            }
            JAssignScalar => {
                let s = sc(l, 0)?;
                ex.pi_with(chip, std, l, &s)
            }
            JAdd => {
                let (p, q) = (pt(l, 0)?, pt(l, 1)?);
                let r = chip.add(l, &p, &q)?;
                out_pt(l, &r)
            }
            JDouble => {
                let p = pt(l, 0)?;
                let r = chip.double(l, &p)?;
                out_pt(l, &r)
            }
            JNegate => {
                let p = pt(l, 0)?;
                let r = chip.negate(l, &p)?;
                out_pt(l, &r)
            }
            JMsm(n) => {
                let mut ss = vec![];
                let mut ps = vec![];
                for i in 0..*n {
                    ss.push(sc(l, i)?);
                    ps.push(pt(l, i)?);
                }
                let r = chip.msm(l, &ss, &ps)?;
                out_pt(l, &r)
            }
            JMulByConst(c) => {
                let p = pt(l, 0)?;
                let r = chip.mul_by_constant(l, JFr::from(*c), &p)?;
                out_pt(l, &r)
            }
            JIsEqual => {
                let (p, q) = (pt(l, 0)?, pt(l, 1)?);
                let b = chip.is_equal(l, &p, &q)?;
                ex.pi(std, l, &b)
            }
            JAssertEqual => {
                let (p, q) = (pt(l, 0)?, pt(l, 1)?);
                out_pt(l, &p)?;
                chip.assert_equal(l, &p, &q)
            }
            JAssertNotEqual => {
                let (p, q) = (pt(l, 0)?, pt(l, 1)?);
                out_pt(l, &p)?;
                chip.assert_not_equal(l, &p, &q)
            }
            JIsZero => {
                let p = pt(l, 0)?;
                let b = chip.is_zero(l, &p)?;
                ex.pi(std, l, &b)
            }
            JAssertNonZero => {
                let p = pt(l, 0)?;
                out_pt(l, &p)?;
                chip.assert_non_zero(l, &p)
            }
            JSelect => {
                let (p, q) = (pt(l, 0)?, pt(l, 1)?);
                let b: AssignedBit<F> = std.assign(l, idx(&w, |w| w.bits[0]))?;
                let r = chip.select(l, &b, &p, &q)?;
                out_pt(l, &r)
            }
            JFromCoords => {
                let x: AssignedNative<F> = std.assign(l, idx(&w, |w| w.nats[0]))?;
                let y: AssignedNative<F> = std.assign(l, idx(&w, |w| w.nats[1]))?;
                ex.pi(std, l, &x)?;
                let p = chip.point_from_coordinates(l, &x, &y)?;
                out_pt(l, &p)
            }
            JMulBytes(n) => {
                let vals: Vec<Value<u8>> = (0..*n).map(|i| idx(&w, |w| w.bytes[i])).collect();
                let bytes: Vec<AssignedByte<F>> = std.assign_many(l, &vals)?;
                let p = pt(l, 0)?;
                let s = chip.scalar_from_le_bytes(l, &bytes)?;
                let r = chip.msm(l, &[s], &[p])?;
                out_pt(l, &r)
            }
            JMulNative => {
                let x: AssignedNative<F> = std.assign(l, idx(&w, |w| w.nats[0]))?;
                let p = pt(l, 0)?;
                let s: JSc = ConversionInstructions::<F, AssignedNative<F>, JSc>::convert(chip, l, &x)?;
                let r = chip.msm(l, &[s], &[p])?;
                out_pt(l, &r)
            }
            _ => unreachable!(),
        }
    }

    fn synth_kscalar<L: Layouter<F>>(&self, std: &ZkStdLib, l: &mut L, w: Value<GW>, ex: &Ex) -> Result<(), Error> {
        use GOp::*;
        let chip = std.secp256k1_scalar();
        let e = |l: &mut L, i: usize| -> Result<KSc, Error> { chip.assign(l, idx(&w, |w| w.kscs[i])) };
        let out = |l: &mut L, x: &KSc| ex.pi_with(chip, std, l, x);
        match self {
            KAssign => {
                let x = e(l, 0)?;
                out(l, &x)
            }
            KAdd | KSub | KMul | KDiv => {
                let (x, y) = (e(l, 0)?, e(l, 1)?);
                let r = match self {
                    KAdd => chip.add(l, &x, &y)?,
                    KSub => chip.sub(l, &x, &y)?,
                    KMul => chip.mul(l, &x, &y, None)?,
                    _ => chip.div(l, &x, &y)?,
                };
                out(l, &r)
            }
            KNeg => {
                let x = e(l, 0)?;
                let r = chip.neg(l, &x)?;
                out(l, &r)
            }
            KInv => {
                let x = e(l, 0)?;
                let r = chip.inv(l, &x)?;
                out(l, &r)
            }
            KIsZero => {
                let x = e(l, 0)?;
                let b = chip.is_zero(l, &x)?;
                ex.pi(std, l, &b)
            }
            KIsEqual => {
                let (x, y) = (e(l, 0)?, e(l, 1)?);
                let b = chip.is_equal(l, &x, &y)?;
                ex.pi(std, l, &b)
            }
            KAssertEqual => {
                let (x, y) = (e(l, 0)?, e(l, 1)?);
                out(l, &x)?;
                chip.assert_equal(l, &x, &y)
            }
            KAssertNotEqual => {
                let (x, y) = (e(l, 0)?, e(l, 1)?);
                out(l, &x)?;
                chip.assert_not_equal(l, &x, &y)
            }
            KSelect => {
                let (x, y) = (e(l, 0)?, e(l, 1)?);
                let b: AssignedBit<F> = std.assign(l, idx(&w, |w| w.bits[0]))?;
                let r = chip.select(l, &b, &x, &y)?;
                out(l, &r)
            }
            KToLeBits => {
                let x = e(l, 0)?;
                let bits = chip.assigned_to_le_bits(l, &x, None, true)?;
                for b in bits.iter().take(8) {
                    ex.pi(std, l, b)?;
                }
                Ok(())
            }
            KToLeBytes => {
                let x = e(l, 0)?;
                let bytes = chip.assigned_to_le_bytes(l, &x, None)?;
                for b in bytes.iter().take(4) {
                    ex.pi(std, l, b)?;
                }
                Ok(())
            }
            KFromLeBytes(n) => {
                let vals: Vec<Value<u8>> = (0..*n).map(|i| idx(&w, |w| w.bytes[i])).collect();
                let bytes: Vec<AssignedByte<F>> = std.assign_many(l, &vals)?;
                let r = chip.assigned_from_le_bytes(l, &bytes)?;
                out(l, &r)
            }
            KChain => {
                let (x, y) = (e(l, 0)?, e(l, 1)?);
                let a = chip.add(l, &x, &y)?;
                let a = chip.add(l, &a, &x)?;
                let a = chip.sub(l, &a, &y)?;
                let a = chip.mul(l, &a, &y, None)?;
                let a = chip.add(l, &a, &x)?;
                let b = chip.is_equal(l, &a, &x)?;
                ex.pi(std, l, &b)?;
                out(l, &a)
            }
            _ => unreachable!(),
        }
    }

    fn synth_big<L: Layouter<F>>(&self, std: &ZkStdLib, l: &mut L, w: Value<GW>, ex: &Ex) -> Result<(), Error> {
        use GOp::*;
        let g = std.biguint();
        let big = |l: &mut L, i: usize, nb: u32| -> Result<AssignedBigUint<F>, Error> { g.assign_biguint(l, idx(&w, |w| w.bigs[i].clone()), nb) };
        // expose the 8 low bits and the bit length of a result
        let out = |l: &mut L, x: &AssignedBigUint<F>| -> Result<(), Error> {
            let bits = g.to_le_bits(l, x)?;
            for b in bits.iter().take(8) {
                ex.pi(std, l, b)?;
            }
            Ok(())
        };
        match self {
            BAssign(nb) => {
                let x = big(l, 0, *nb)?;
                out(l, &x)
            }
            BAdd(nb) | BSub(nb) | BMul(nb) => {
                let (x, y) = (big(l, 0, *nb)?, big(l, 1, *nb)?);
                let r = match self {
                    BAdd(_) => g.add(l, &x, &y)?,
                    BSub(_) => g.sub(l, &x, &y)?,
                    _ => g.mul(l, &x, &y)?,
                };
                out(l, &r)
            }
            BDivRem(nb) => {
                let (x, y) = (big(l, 0, *nb)?, big(l, 1, *nb)?);
                let (q, r) = g.div_rem(l, &x, &y)?;
                out(l, &q)?;
                out(l, &r)
            }
            BModExp(nb, n) => {
                let (x, m) = (big(l, 0, *nb)?, big(l, 1, *nb)?);
                let r = g.mod_exp(l, &x, *n, &m)?;
                out(l, &r)
            }
            BIsEqual(nb) => {
                let (x, y) = (big(l, 0, *nb)?, big(l, 1, *nb)?);
                let b = g.is_equal(l, &x, &y)?;
                ex.pi(std, l, &b)
            }
            BLowerThan(nb) => {
                let (x, y) = (big(l, 0, *nb)?, big(l, 1, *nb)?);
                let b = g.lower_than(l, &x, &y)?;
                ex.pi(std, l, &b)
            }
            BToLeBits(nb) => {
                let x = big(l, 0, *nb)?;
                let bits = g.to_le_bits(l, &x)?;
                for b in bits.iter() {
                    ex.pi(std, l, b)?;
                }
                Ok(())
            }
            BFromLeBytes(n) => {
                let vals: Vec<Value<u8>> = (0..*n).map(|i| idx(&w, |w| w.bytes[i])).collect();
                let bytes: Vec<AssignedByte<F>> = std.assign_many(l, &vals)?;
                let x = g.from_le_bytes(l, &bytes)?;
                out(l, &x)
            }
            BSelect(nb) => {
                let (x, y) = (big(l, 0, *nb)?, big(l, 1, *nb)?);
                let b: AssignedBit<F> = std.assign(l, idx(&w, |w| w.bits[0]))?;
                let r = g.select(l, &b, &x, &y)?;
                out(l, &r)
            }
            _ => unreachable!(),
        }
    }

    fn synth_fecc<L: Layouter<F>>(&self, std: &ZkStdLib, l: &mut L, w: Value<GW>, ex: &Ex) -> Result<(), Error> {
        use GOp::*;
        macro_rules! body {
            ($chip:expr, $PtT:ty, $pts:ident, $assign_sc:expr, $const_sc:expr) => {{
                let chip = $chip;
                let pt = |l: &mut L, i: usize| -> Result<$PtT, Error> { AssignmentInstructions::<F, $PtT>::assign(chip, l, idx(&w, |w| w.$pts[i])) };
                let out = |l: &mut L, p: &$PtT| ex.pi_with(chip, std, l, p);
                match self {
                    FAssign(_) => {
                        let p = pt(l, 0)?;
                        out(l, &p)
                    }
                    FAdd(_) => {
                        let (p, q) = (pt(l, 0)?, pt(l, 1)?);
                        let r = chip.add(l, &p, &q)?;
                        out(l, &r)
                    }
                    FDouble(_) => {
                        let p = pt(l, 0)?;
                        let r = chip.double(l, &p)?;
                        out(l, &r)
                    }
                    FNegate(_) => {
                        let p = pt(l, 0)?;
                        let r = chip.negate(l, &p)?;
                        out(l, &r)
                    }
                    FMul(_) => {
                        let p = pt(l, 0)?;
                        let s = $assign_sc(l)?;
                        let r = chip.msm(l, &[s], &[p])?;
                        out(l, &r)
                    }
                    FIsEqual(_) => {
                        let (p, q) = (pt(l, 0)?, pt(l, 1)?);
                        let b = chip.is_equal(l, &p, &q)?;
                        ex.pi(std, l, &b)
                    }
                    FSelect(_) => {
                        let (p, q) = (pt(l, 0)?, pt(l, 1)?);
                        let b: AssignedBit<F> = std.assign(l, idx(&w, |w| w.bits[0]))?;
                        let r = chip.select(l, &b, &p, &q)?;
                        out(l, &r)
                    }
                    FMulByConst(_, c) => {
                        let p = pt(l, 0)?;
                        let r = chip.mul_by_constant(l, $const_sc(*c), &p)?;
                        out(l, &r)
                    }
                    FKofN(_, n, k) => {
                        let mut table = vec![];
                        for i in 0..*n {
                            table.push(pt(l, i)?);
                        }
                        let selected: Vec<_> = (0..*k).map(|j| idx(&w, |w| w.$pts[w.bytes[j] as usize])).collect();
                        let rs = chip.k_out_of_n_points(l, &table, &selected)?;
                        for r in &rs {
                            out(l, r)?;
                        }
                        Ok(())
                    }
                    _ => unreachable!(),
                }
            }};
        }
        let curve = match self {
            FAssign(c) | FAdd(c) | FDouble(c) | FNegate(c) | FMul(c) | FIsEqual(c) | FSelect(c) | FMulByConst(c, _) | FKofN(c, ..) => *c,
            _ => unreachable!(),
        };
        match curve {
            Curve::Secp => body!(
                std.secp256k1_curve(),
                KPt,
                kpts,
                |l: &mut L| -> Result<KSc, Error> { std.secp256k1_scalar().assign(l, idx(&w, |w| w.kscs[0])) },
                |c: u64| KFq::from(c)
            ),
            Curve::Bls => body!(
                std.bls12_381_curve(),
                BPt,
                bpts,
                |l: &mut L| -> Result<AssignedNative<F>, Error> { std.assign(l, idx(&w, |w| w.nats[0])) },
                |c: u64| F::from(c)
            ),
        }
    }
}

// ---------------------------------------------------------------------------------------------
// alphabets
// ---------------------------------------------------------------------------------------------

pub struct Alph {
    pub seed: u64,
}

pub struct Lab<T>(pub &'static str, pub T);

impl Alph {
    pub fn jpts(&self) -> Vec<Lab<JubjubSubgroup>> {
        let mut rng = vcore::rng_for(self.seed, "c09-jub");
        let g = JubjubSubgroup::generator();
        vec![
            Lab("id", JubjubSubgroup::identity()),
            Lab("G", g),
            Lab("-G", -g),
            Lab("2G", g + g),
            Lab("R", JubjubSubgroup::random(&mut rng)),
        ]
    }
    pub fn jscs(&self) -> Vec<Lab<JFr>> {
        let mut rng = vcore::rng_for(self.seed, "c09-jsc");
        vec![Lab("0", JFr::ZERO), Lab("1", JFr::ONE), Lab("r-1", -JFr::ONE), Lab("2^251", JFr::from(2u64).pow_vartime(&[251u64, 0, 0, 0])), Lab("rnd", JFr::random(&mut rng))]
    }
    pub fn nats(&self) -> Vec<Lab<F>> {
        let mut rng = vcore::rng_for(self.seed, "c09-nat");
        vec![Lab("0", F::ZERO), Lab("1", F::ONE), Lab("p-1", -F::ONE), Lab("2^128", F::from(2).pow_vartime([128u64])), Lab("rnd", F::random(&mut rng))]
    }
    pub fn kscs(&self) -> Vec<Lab<KFq>> {
        let mut rng = vcore::rng_for(self.seed, "c09-ksc");
        vec![
            Lab("0", KFq::ZERO),
            Lab("1", KFq::ONE),
            Lab("n-1", -KFq::ONE),
            Lab("2^255", KFq::from(2u64).pow_vartime([255u64])),
            Lab("2^64-1", KFq::from(u64::MAX)),
            Lab("rnd", KFq::random(&mut rng)),
        ]
    }
    pub fn kpts(&self) -> Vec<Lab<K256>> {
        let mut rng = vcore::rng_for(self.seed, "c09-kpt");
        let g = K256::generator();
        vec![Lab("id", K256::identity()), Lab("G", g), Lab("-G", -g), Lab("2G", g + g), Lab("R", K256::random(&mut rng))]
    }
    pub fn bpts(&self) -> Vec<Lab<G1Projective>> {
        let mut rng = vcore::rng_for(self.seed, "c09-bpt");
        let g = G1Projective::generator();
        vec![Lab("id", G1Projective::identity()), Lab("G", g), Lab("-G", -g), Lab("2G", g + g), Lab("R", G1Projective::random(&mut rng))]
    }
    /// integers for a bound of `nb` bits: in and out of range
    pub fn bigs(&self, nb: u32) -> Vec<(String, BigUint, bool)> {
        let one = BigUint::from(1u32);
        let mut rng = vcore::rng_for(self.seed, &format!("c09-big-{nb}"));
        let top = &one << nb;
        let mut v = vec![
            ("0".to_string(), BigUint::from(0u32), true),
            ("1".to_string(), one.clone(), true),
            (format!("2^{nb}-1"), &top - 1u32, true),
            (format!("2^{}", nb - 1), &one << (nb - 1), true),
            ("rnd".to_string(), vcore::big::random_below(&mut rng, &top), true),
            (format!("2^{nb}"), top.clone(), false),
        ];
        if nb > 64 {
            // all-ones low limb, carry into the next
            v.push(("2^64-1".to_string(), (&one << 64u32) - 1u32, true));
            v.push(("2^64".to_string(), &one << 64u32, true));
        }
        v
    }
}

pub fn byte_patterns(n: usize) -> Vec<(String, Vec<u8>)> {
    let mut v = vec![("zeros".to_string(), vec![0u8; n])];
    if n > 0 {
        v.push(("ones".to_string(), vec![0xffu8; n]));
        v.push(("pattern".to_string(), (0..n).map(|i| (i * 37 + 1) as u8).collect()));
        v.push(("0x80..".to_string(), (0..n).map(|i| if i == 0 { 0x80 } else { 0 }).collect()));
    }
    v
}

pub fn in_subgroup_coords(p: &JubjubSubgroup) -> (F, F) {
    use midnight_circuits::ecc::curves::CircuitCurve;
    let e: JubjubExtended = (*p).into();
    e.coordinates().expect("affine coordinates")
}

pub fn fr_repr_is_canonical_scalar(x: &F) -> bool {
    // is the native value below the Jubjub scalar modulus?
    let r = BigUint::parse_bytes(JFr::MODULUS.trim_start_matches("0x").as_bytes(), 16).unwrap();
    vgad::val::to_big(x) < r
}
