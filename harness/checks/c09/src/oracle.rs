//! The C09 oracle: one operation (with its static parameters) is synthesised with the unknown
//! witness and with every concrete witness of its alphabet; everything the verifier's key is made
//! of must be the same.

use std::{cell::RefCell, sync::Arc};

use midnight_circuits::{
    instructions::PublicInputInstructions,
    types::{AssignedNative, Instantiable},
};
use midnight_proofs::{
    circuit::{Layouter, Value},
    dev::{cost_model::circuit_model, CellValue, MockProver},
    plonk::{keygen_pk, keygen_vk_with_k, k_from_circuit, Circuit, Error},
    utils::SerdeFormat,
};
use midnight_zk_stdlib::{MidnightCircuit, Relation, ZkStdLib, ZkStdLibArch};
use rand_chacha::ChaCha20Rng;
use rand_core::SeedableRng;
use rayon::iter::ParallelIterator;
use serde_json::{json, Value as Json};
use vcore::{catch, panic_site, CaseOut, Viol};

pub type F = midnight_curves::Fq;
type H = blake2b_simd::State;

/// One operation with its static parameters. The witness type holds the operands only.
pub trait OpDef: Clone + Send + Sync + 'static {
    type W: Clone + Send + Sync + 'static;
    /// operation name used in finding keys
    fn name(&self) -> String;
    /// unique description: operation + static parameters (+ configuration)
    fn key(&self) -> String;
    fn arch(&self) -> ZkStdLibArch;
    fn max_bit_len(&self) -> u8 {
        8
    }
    /// Assign the operands (unknown if `w` is unknown), run the operation, expose inputs and
    /// outputs through `ex`.
    fn synth<L: Layouter<F>>(&self, std: &ZkStdLib, l: &mut L, w: Value<Self::W>, ex: &Ex) -> Result<(), Error>;
}

/// One member of an operation's witness alphabet.
#[derive(Clone)]
pub struct Wit<W> {
    pub label: String,
    pub w: W,
    /// inside the documented domain of the operation (an honest proof must exist)
    pub in_domain: bool,
}

/// Something done with a circuit (the circuit type differs per subject, hence a visitor).
pub trait Visitor<R> {
    fn visit<C: Circuit<F>>(self, c: &C) -> R;
}

/// A circuit family indexed by its witness: what the oracle works on.
pub trait Subject: Clone + Send + Sync + 'static {
    type W: Clone + Send + Sync + 'static;
    fn name(&self) -> String;
    fn key(&self) -> String;
    /// Build the circuit carrying `w` (as given: unknown stays unknown) and hand it to `v`.
    fn with_circuit<R, V: Visitor<R>>(&self, w: Value<Self::W>, v: V) -> R;
    /// Prove with witness `w` and verify under the key generated WITHOUT a witness.
    fn real_proof(&self, w: &Self::W, instance: &[F], k: u32, seed: u64) -> Result<(), String>;
}

impl<O: OpDef> Subject for O {
    type W = O::W;
    fn name(&self) -> String {
        OpDef::name(self)
    }
    fn key(&self) -> String {
        OpDef::key(self)
    }
    fn with_circuit<R, V: Visitor<R>>(&self, w: Value<O::W>, v: V) -> R {
        let rel = Rel(self.clone());
        let mut known = false;
        w.as_ref().map(|_| known = true);
        let inst = if known { Value::known(vec![]) } else { Value::unknown() };
        let circuit = MidnightCircuit::new(&rel, inst, w, Some(self.max_bit_len()));
        v.visit(&circuit)
    }
    /// Through the standard library's own entry points: `setup_vk` / `setup_pk` build the circuit
    /// with `Value::unknown()`, `prove` with the witness.
    fn real_proof(&self, w: &O::W, instance: &[F], _k: u32, seed: u64) -> Result<(), String> {
        let rel = Rel(self.clone());
        let instance = instance.to_vec();
        let kk = MidnightCircuit::from_relation(&rel).min_k();
        let srs = vfam::api::setup(kk, seed);
        let vk = midnight_zk_stdlib::setup_vk(&srs, &rel);
        let pk = midnight_zk_stdlib::setup_pk(&rel, &vk);
        let proof = midnight_zk_stdlib::prove::<Rel<O>, H>(&srs, &pk, &rel, &instance, w.clone(), ChaCha20Rng::seed_from_u64(seed ^ 0x9)).map_err(|e| format!("prove: {e:?}"))?;
        midnight_zk_stdlib::verify::<Rel<O>, H>(&srs.verifier_params(), &vk, &instance, None, &proof).map_err(|e| format!("verify: {e:?}"))
    }
}

/// (4) with the plain PLONK API, for circuits that are not `MidnightCircuit`s.
pub fn plain_real_proof<S: Subject>(s: &S, w: &S::W, instance: &[F], k: u32, seed: u64) -> Result<(), String> {
    struct Keys(Arc<vfam::api::Params>, u32);
    impl Visitor<Result<vfam::api::Pk, String>> for Keys {
        fn visit<C: Circuit<F>>(self, c: &C) -> Result<vfam::api::Pk, String> {
            let vk = keygen_vk_with_k::<F, vfam::api::Kzg, C>(&self.0, c, self.1).map_err(|e| format!("keygen_vk: {e:?}"))?;
            keygen_pk(vk, c).map_err(|e| format!("keygen_pk: {e:?}"))
        }
    }
    struct Prove<'a>(Arc<vfam::api::Params>, &'a vfam::api::Pk, Vec<F>, u64);
    impl Visitor<Result<Vec<u8>, String>> for Prove<'_> {
        fn visit<C: Circuit<F>>(self, c: &C) -> Result<Vec<u8>, String> {
            vfam::api::prove::<vfam::api::BlakeT, C>(&self.0, self.1, std::slice::from_ref(c), 1, &[vec![vec![], self.2.clone()]], self.3).map_err(|e| format!("prove: {e:?}"))
        }
    }
    let params = vfam::api::setup(k, seed);
    let pk = s.with_circuit(Value::unknown(), Keys(params.clone(), k))?;
    let proof = s.with_circuit(Value::known(w.clone()), Prove(params.clone(), &pk, instance.to_vec(), seed ^ 0x9))?;
    let instances = vec![vec![vec![], instance.to_vec()]];
    let (committed, plain) = vfam::api::split_instances(&params, pk.get_vk(), 1, &instances);
    let verdict = vfam::api::verify::<vfam::api::BlakeT>(&params.verifier_params(), pk.get_vk(), &committed, &plain, &proof);
    if verdict.accepted() {
        Ok(())
    } else {
        Err(format!("verify: {verdict:?}"))
    }
}

/// Records `n` constrained public-input cells (for subjects that do not expose through [`Ex`]).
pub fn log_pi(cells: &[AssignedNative<F>]) {
    for c in cells {
        let mut v = None;
        c.value().map(|x| v = Some(*x));
        LOG.with(|l| l.borrow_mut().push(v));
    }
}

pub fn log_values(vals: &[Option<F>]) {
    LOG.with(|l| l.borrow_mut().extend_from_slice(vals));
}

// ---------------------------------------------------------------------------------------------
// exposure log (thread-local; counts `constrain_as_public_input` calls of one synthesis)
// ---------------------------------------------------------------------------------------------

thread_local! {
    static LOG: RefCell<Vec<Option<F>>> = const { RefCell::new(Vec::new()) };
}

fn log_reset() {
    LOG.with(|l| l.borrow_mut().clear());
}

fn log_take() -> Vec<Option<F>> {
    LOG.with(|l| std::mem::take(&mut *l.borrow_mut()))
}

pub struct Ex;

impl Ex {
    /// Expose `x` through `chip`'s in-circuit public-input encoding.
    pub fn pi_with<T, CH, L>(&self, chip: &CH, std: &ZkStdLib, l: &mut L, x: &T) -> Result<(), Error>
    where
        L: Layouter<F>,
        T: Instantiable<F>,
        CH: PublicInputInstructions<F, T>,
    {
        let cells: Vec<AssignedNative<F>> = chip.as_public_input(l, x)?;
        for c in &cells {
            let mut v = None;
            c.value().map(|x| v = Some(*x));
            LOG.with(|l| l.borrow_mut().push(v));
            std.constrain_as_public_input(l, c)?;
        }
        Ok(())
    }
    pub fn pi<T, L>(&self, std: &ZkStdLib, l: &mut L, x: &T) -> Result<(), Error>
    where
        L: Layouter<F>,
        T: Instantiable<F>,
        ZkStdLib: PublicInputInstructions<F, T>,
    {
        self.pi_with(std, std, l, x)
    }
}

// ---------------------------------------------------------------------------------------------
// the relation: Witness = the operands, Instance = the exposed vector
// ---------------------------------------------------------------------------------------------

#[derive(Clone)]
pub struct Rel<O: OpDef>(pub O);

impl<O: OpDef> Relation for Rel<O> {
    type Instance = Vec<F>;
    type Witness = O::W;

    fn format_instance(i: &Vec<F>) -> Result<Vec<F>, Error> {
        Ok(i.clone())
    }

    fn circuit(&self, std_lib: &ZkStdLib, layouter: &mut impl Layouter<F>, _i: Value<Vec<F>>, w: Value<O::W>) -> Result<(), Error> {
        self.0.synth(std_lib, layouter, w, &Ex)
    }

    fn used_chips(&self) -> ZkStdLibArch {
        self.0.arch()
    }

    fn write_relation<W: std::io::Write>(&self, _: &mut W) -> std::io::Result<()> {
        unimplemented!()
    }

    fn read_relation<R: std::io::Read>(_: &mut R) -> std::io::Result<Self> {
        unimplemented!()
    }
}

// ---------------------------------------------------------------------------------------------
// structure snapshots
// ---------------------------------------------------------------------------------------------

/// What `keygen_vk_with_k` made of one synthesis.
pub struct KeySnap {
    pub bytes: Vec<u8>,
    pub repr: F,
    pub n_exposed: usize,
}

pub enum KeyOutcome {
    Ok(KeySnap),
    Err(String),
    Panic(String),
}

pub fn keygen_snap<S: Subject>(op: &S, w: Value<S::W>, k: u32, seed: u64) -> KeyOutcome {
    struct V(Arc<vfam::api::Params>, u32);
    impl Visitor<Result<vfam::api::Vk, Error>> for V {
        fn visit<C: Circuit<F>>(self, c: &C) -> Result<vfam::api::Vk, Error> {
            keygen_vk_with_k::<F, vfam::api::Kzg, C>(&self.0, c, self.1)
        }
    }
    let params = vfam::api::setup(k, seed);
    log_reset();
    let r = catch(|| op.with_circuit(w, V(params, k)));
    let n_exposed = log_take().len();
    match r {
        Err(p) => KeyOutcome::Panic(p),
        Ok(Err(e)) => KeyOutcome::Err(format!("{e:?}")),
        Ok(Ok(vk)) => KeyOutcome::Ok(KeySnap {
            bytes: vk.to_bytes(SerdeFormat::RawBytes),
            repr: vk.transcript_repr(),
            n_exposed,
        }),
    }
}

/// The circuit model (k, rows, table rows, ...) of one synthesis, as JSON, plus exposure count.
pub fn model_snap<S: Subject>(op: &S, w: Value<S::W>) -> Result<(Json, u32, usize), String> {
    struct V;
    impl Visitor<midnight_proofs::dev::cost_model::CircuitModel> for V {
        fn visit<C: Circuit<F>>(self, c: &C) -> midnight_proofs::dev::cost_model::CircuitModel {
            circuit_model::<F, 48, 32>(c)
        }
    }
    log_reset();
    let r = catch(|| op.with_circuit(w, V));
    let n = log_take().len();
    r.map(|m| (serde_json::to_value(&m).unwrap_or(Json::Null), m.k, n))
}

/// `k_from_circuit` (= `MidnightCircuit::min_k()`) of one synthesis.
pub fn min_k_of<S: Subject>(op: &S, w: Value<S::W>) -> Result<u32, String> {
    struct V;
    impl Visitor<u32> for V {
        fn visit<C: Circuit<F>>(self, c: &C) -> u32 {
            k_from_circuit(c)
        }
    }
    let r = catch(|| op.with_circuit(w, V));
    log_reset();
    r
}

/// What `MockProver::run` made of one synthesis with a concrete witness.
pub struct MockSnap {
    pub fixed: Vec<Vec<CellValue<F>>>,
    pub selectors: Vec<Vec<bool>>,
    pub perm_cols: Vec<String>,
    pub mapping: Vec<Vec<(usize, usize)>>,
    pub exposed: Vec<F>,
    pub satisfied: bool,
}

pub fn mock_snap<S: Subject>(op: &S, w: S::W, k: u32) -> Result<MockSnap, String> {
    struct V(u32);
    impl Visitor<Result<MockProver<F>, Error>> for V {
        fn visit<C: Circuit<F>>(self, c: &C) -> Result<MockProver<F>, Error> {
            MockProver::run(self.0, c, vec![vec![], vec![]])
        }
    }
    log_reset();
    let r = catch(|| op.with_circuit(Value::known(w), V(k)));
    let log = log_take();
    let mut prover = match r {
        Err(p) => return Err(format!("panic: {p}")),
        Ok(Err(e)) => return Err(format!("error: {e:?}")),
        Ok(Ok(p)) => p,
    };
    let exposed: Vec<F> = log.iter().map(|v| v.unwrap_or(F::from(0))).collect();
    {
        let inst = prover.instance_mut();
        for (i, v) in exposed.iter().enumerate() {
            if i < inst[1].len() {
                inst[1][i] = midnight_proofs::dev::InstanceValue::Assigned(*v);
            }
        }
    }
    let satisfied = catch(|| prover.verify().is_ok()).unwrap_or(false);
    let perm = prover.permutation();
    Ok(MockSnap {
        fixed: prover.fixed().clone(),
        selectors: prover.selectors().clone(),
        perm_cols: perm.columns().iter().map(|c| format!("{c:?}")).collect(),
        mapping: perm.mapping().map(|c| c.collect()).collect(),
        exposed,
        satisfied,
    })
}

fn first_diff<T: PartialEq + std::fmt::Debug>(a: &[Vec<T>], b: &[Vec<T>]) -> Option<String> {
    if a.len() != b.len() {
        return Some(format!("{} columns vs {}", a.len(), b.len()));
    }
    let mut n = 0usize;
    let mut first = None;
    for (c, (x, y)) in a.iter().zip(b).enumerate() {
        if x.len() != y.len() {
            return Some(format!("column {c}: {} rows vs {}", x.len(), y.len()));
        }
        for (r, (p, q)) in x.iter().zip(y).enumerate() {
            if p != q {
                n += 1;
                if first.is_none() {
                    first = Some(format!("column {c} row {r}: {p:?} vs {q:?}"));
                }
            }
        }
    }
    first.map(|f| format!("{n} cell(s) differ, first at {f}"))
}

/// Do two copy-constraint mappings describe the same partition of the cells?
fn same_partition(a: &[Vec<(usize, usize)>], b: &[Vec<(usize, usize)>]) -> bool {
    fn classes(m: &[Vec<(usize, usize)>]) -> Vec<Vec<usize>> {
        // canonical representative (smallest cell of the cycle) per cell
        let mut rep: Vec<Vec<usize>> = m.iter().map(|c| vec![usize::MAX; c.len()]).collect();
        let rows = m.first().map(|c| c.len()).unwrap_or(0);
        for c in 0..m.len() {
            for r in 0..m[c].len() {
                if rep[c][r] != usize::MAX {
                    continue;
                }
                let id = c * rows + r;
                let mut cur = (c, r);
                loop {
                    rep[cur.0][cur.1] = id;
                    cur = m[cur.0][cur.1];
                    if cur == (c, r) {
                        break;
                    }
                }
            }
        }
        rep
    }
    a.len() == b.len() && classes(a) == classes(b)
}

// ---------------------------------------------------------------------------------------------
// the check of one operation
// ---------------------------------------------------------------------------------------------

pub struct OpReport {
    pub k: Option<u32>,
    pub compared: u64,
    pub proof_done: bool,
}

pub struct Cfg {
    pub seed: u64,
    /// make a real proof for one in-domain witness if k <= this
    pub proof_max_k: u32,
}

fn hex(x: &F) -> String {
    vgad::val::hex(x)
}

/// Runs the whole oracle on one operation. `show` renders a witness for reports.
pub fn check_op<O: Subject>(op: &O, wits: &[Wit<O::W>], show: &dyn Fn(&O::W) -> String, cfg: &Cfg, out: &mut CaseOut) -> OpReport {
    let name = op.name();
    let mut rep = OpReport { k: None, compared: 0, proof_done: false };
    let detail = |wl: &str, ws: &str| json!({"operation": op.key(), "witness": wl, "witness_values": ws});

    // ---- reference: unknown witness
    let (model_u, k, nexp_model_u) = match model_snap(op, Value::unknown()) {
        Ok(x) => x,
        Err(p) => {
            // sizing the circuit without a witness fails: no reference (C04..C07 report sizing panics)
            out.eval("no-reference:sizing-panic", false);
            out.sample = Some(json!({"operation": op.key(), "sizing_panic": p}));
            return rep;
        }
    };
    rep.k = Some(k);
    let min_k_u = min_k_of(op, Value::unknown()).ok();
    let key_u = match keygen_snap(op, Value::unknown(), k, cfg.seed) {
        KeyOutcome::Ok(s) => s,
        KeyOutcome::Err(e) => {
            out.eval("no-reference:keygen-err", false);
            out.sample = Some(json!({"operation": op.key(), "keygen_error": e}));
            return rep;
        }
        KeyOutcome::Panic(p) => {
            out.eval("no-reference:keygen-panic", false);
            out.sample = Some(json!({"operation": op.key(), "keygen_panic": p}));
            return rep;
        }
    };
    // determinism of the reference itself (a second synthesis must give the same key)
    match keygen_snap(op, Value::unknown(), k, cfg.seed) {
        KeyOutcome::Ok(s2) if s2.bytes == key_u.bytes && s2.repr == key_u.repr => out.eval("reference-reproducible", false),
        _ => {
            out.eval("reference-not-reproducible", true);
            out.viol(Viol::new(
                format!("{name}:vk-nondeterministic"),
                "two key generations of the same circuit with the unknown witness give different verifying keys",
                json!({"operation": op.key(), "k": k}),
            ));
            return rep;
        }
    }
    if nexp_model_u != key_u.n_exposed {
        out.viol(Viol::new(
            format!("{name}:public-input-count-depends-on-witness"),
            format!("cost-model synthesis exposes {nexp_model_u} public inputs, keygen synthesis {} (both with the unknown witness)", key_u.n_exposed),
            json!({"operation": op.key()}),
        ));
    }

    // ---- every concrete witness against the reference
    let mut mock_ref: Option<(String, MockSnap)> = None;
    let mut proof_candidate: Option<(usize, Vec<F>)> = None;
    for (wi, wit) in wits.iter().enumerate() {
        let ws = show(&wit.w);
        let mut same = true;
        if wi == 0 || wi + 1 == wits.len() {
            // `min_k()` is the same computation as the circuit model's k: spot-check its own entry point
            if let (Some(ku), Ok(kw)) = (min_k_u, min_k_of(op, Value::known(wit.w.clone()))) {
                if ku != kw {
                    same = false;
                    out.viol(Viol::new(
                        format!("{name}:min-k-depends-on-witness"),
                        format!("min_k() is {kw} with witness [{}] and {ku} without a witness", wit.label),
                        detail(&wit.label, &ws),
                    ));
                }
            }
        }
        // (3) circuit model / min_k / exposure count
        let mut model_fail: Option<String> = None;
        match model_snap(op, Value::known(wit.w.clone())) {
            Ok((m, _, nexp)) => {
                if m != model_u {
                    same = false;
                    out.viol(Viol::new(
                        format!("{name}:min-k-depends-on-witness"),
                        format!("the circuit model (k, rows, table rows, ...) computed with witness [{}] differs from the one computed without a witness: {m} vs {model_u}", wit.label),
                        detail(&wit.label, &ws),
                    ));
                }
                if nexp != key_u.n_exposed {
                    same = false;
                    out.viol(Viol::new(
                        format!("{name}:public-input-count-depends-on-witness"),
                        format!("{nexp} public inputs are constrained with witness [{}], {} without a witness", wit.label, key_u.n_exposed),
                        detail(&wit.label, &ws),
                    ));
                }
            }
            Err(p) => {
                // `cost_model_options` unwraps the synthesis result: judged together with keygen below
                model_fail = Some(p);
                out.count(if wit.in_domain { "model-panic-in-domain" } else { "ood:model-panic" }, 1);
            }
        }
        // (1) verifying key
        match keygen_snap(op, Value::known(wit.w.clone()), k, cfg.seed) {
            KeyOutcome::Ok(s) => {
                if let (Some(p), true) = (&model_fail, wit.in_domain) {
                    same = false;
                    out.viol(Viol::new(
                        format!("{name}:keygen-fails-with-witness:panic"),
                        format!("sizing the circuit (cost model / min_k) with the in-domain witness [{}] panics although keygen accepts it and sizing succeeds without a witness: {p}", wit.label),
                        detail(&wit.label, &ws),
                    ));
                }
                if s.bytes != key_u.bytes || s.repr != key_u.repr {
                    same = false;
                    let pos = s.bytes.iter().zip(&key_u.bytes).position(|(a, b)| a != b);
                    out.viol(Viol::new(
                        format!("{name}:vk-depends-on-witness"),
                        format!(
                            "keygen_vk_with_k on the circuit carrying witness [{}] gives a different verifying key than on the circuit with the unknown witness (lengths {} / {}, first differing byte {:?}, transcript_repr {} / {})",
                            wit.label,
                            s.bytes.len(),
                            key_u.bytes.len(),
                            pos,
                            hex(&s.repr),
                            hex(&key_u.repr)
                        ),
                        detail(&wit.label, &ws),
                    ));
                }
                if s.n_exposed != key_u.n_exposed {
                    same = false;
                    out.viol(Viol::new(
                        format!("{name}:public-input-count-depends-on-witness"),
                        format!("keygen constrains {} public inputs with witness [{}], {} without a witness", s.n_exposed, wit.label, key_u.n_exposed),
                        detail(&wit.label, &ws),
                    ));
                }
            }
            KeyOutcome::Err(e) => {
                if wit.in_domain {
                    same = false;
                    out.viol(Viol::new(
                        format!("{name}:keygen-fails-with-witness:err"),
                        format!("keygen_vk_with_k fails with the in-domain witness [{}] although it succeeds without a witness: {e}", wit.label),
                        detail(&wit.label, &ws),
                    ));
                } else {
                    out.count("ood:keygen-err", 1);
                }
            }
            KeyOutcome::Panic(p) => {
                if wit.in_domain {
                    same = false;
                    out.viol(Viol::new(
                        format!("{name}:keygen-fails-with-witness:panic"),
                        format!("keygen_vk_with_k panics with the in-domain witness [{}] although it succeeds without a witness: {p}", wit.label),
                        json!({"operation": op.key(), "witness": wit.label, "witness_values": ws, "site": panic_site(&p)}),
                    ));
                } else {
                    out.count("ood:keygen-panic", 1);
                }
            }
        }
        // (2) MockProver tables
        match mock_snap(op, wit.w.clone(), k) {
            Ok(snap) => {
                if snap.exposed.len() != key_u.n_exposed {
                    same = false;
                    out.viol(Viol::new(
                        format!("{name}:public-input-count-depends-on-witness"),
                        format!("MockProver synthesis constrains {} public inputs with witness [{}], keygen {} without a witness", snap.exposed.len(), wit.label, key_u.n_exposed),
                        detail(&wit.label, &ws),
                    ));
                }
                if wit.in_domain && snap.satisfied && proof_candidate.is_none() {
                    proof_candidate = Some((wi, snap.exposed.clone()));
                }
                out.count(if snap.satisfied { "mock:sat" } else { "mock:unsat" }, 1);
                match &mock_ref {
                    None => mock_ref = Some((wit.label.clone(), snap)),
                    Some((rl, r)) => {
                        if let Some(d) = first_diff(&r.fixed, &snap.fixed) {
                            same = false;
                            out.viol(Viol::new(
                                format!("{name}:fixed-table-depends-on-witness"),
                                format!("MockProver fixed columns differ between witnesses [{rl}] and [{}]: {d}", wit.label),
                                detail(&wit.label, &ws),
                            ));
                        }
                        if let Some(d) = first_diff(&r.selectors, &snap.selectors) {
                            same = false;
                            out.viol(Viol::new(
                                format!("{name}:selectors-depend-on-witness"),
                                format!("MockProver selectors differ between witnesses [{rl}] and [{}]: {d}", wit.label),
                                detail(&wit.label, &ws),
                            ));
                        }
                        if r.perm_cols != snap.perm_cols || r.mapping != snap.mapping {
                            same = false;
                            let part = same_partition(&r.mapping, &snap.mapping);
                            let d = first_diff(&r.mapping, &snap.mapping).unwrap_or_default();
                            out.viol(Viol::new(
                                format!("{name}:copy-constraints-depend-on-witness"),
                                format!(
                                    "MockProver permutation differs between witnesses [{rl}] and [{}]: {d} (the partition into equality classes is {})",
                                    wit.label,
                                    if part { "the same; only the cycle order differs" } else { "different" }
                                ),
                                detail(&wit.label, &ws),
                            ));
                        }
                    }
                }
            }
            Err(_) => {
                // completeness of witness generation is the subject of C04..C07
                out.count(if wit.in_domain { "mock:run-failed-in-domain" } else { "ood:mock-run-failed" }, 1);
            }
        }
        rep.compared += 1;
        out.eval(if same { "same-structure" } else { "structure-differs" }, true);
        if std::env::var("C09_TRACE").is_ok() {
            eprintln!("TRACE {} [{}] same={same} classes={:?}", op.key(), wit.label, out.classes);
        }
    }

    // ---- (4) a real proof with a concrete witness under the key made without a witness
    if let Some((wi, instance)) = proof_candidate {
        if k <= cfg.proof_max_k {
            let wit = &wits[wi];
            let ws = show(&wit.w);
            let r = catch(|| op.real_proof(&wit.w, &instance, k, cfg.seed));
            rep.proof_done = true;
            match r {
                Ok(Ok(())) => out.eval("proof-under-unknown-witness-key:accepted", true),
                Ok(Err(e)) => {
                    out.eval("proof-under-unknown-witness-key:rejected", true);
                    out.viol(Viol::new(
                        format!("{name}:proof-under-unknown-witness-key-rejected"),
                        format!("an honest proof made with witness [{}] (satisfiable under MockProver) does not verify under the key generated without a witness: {e}", wit.label),
                        detail(&wit.label, &ws),
                    ));
                }
                Err(p) => {
                    out.eval("proof-under-unknown-witness-key:panic", true);
                    out.viol(Viol::new(
                        format!("{name}:proof-under-unknown-witness-key-rejected"),
                        format!("setup/prove/verify with witness [{}] panics: {p}", wit.label),
                        detail(&wit.label, &ws),
                    ));
                }
            }
        }
    }
    out.sample = Some(json!({"operation": op.key(), "k": k, "witnesses": wits.len(), "public_inputs": key_u.n_exposed, "vk_bytes": key_u.bytes.len(), "first_witness": wits.first().map(|w| show(&w.w))}));
    rep
}
