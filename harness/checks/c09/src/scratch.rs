//! Library gadgets that the standard library does not expose, built "from scratch" exactly like
//! the library's own tests do (`FromScratch`, feature `testing`): the variable-length hash gadgets,
//! whose witness includes the LENGTH of the hashed vector.

use midnight_circuits::{
    field::{decomposition::chip::P2RDecompositionChip, NativeChip, NativeGadget},
    hash::{poseidon::VarLenPoseidonGadget, sha256::VarLenSha256Gadget},
    instructions::{hash::VarHashInstructions, AssignmentInstructions, PublicInputInstructions},
    testing_utils::FromScratch,
    types::{AssignedByte, AssignedNative, AssignedVector},
    vec::vector_gadget::VectorGadget,
};
use midnight_proofs::{
    circuit::{Layouter, SimpleFloorPlanner, Value},
    plonk::{Circuit, ConstraintSystem, Error},
};

use crate::oracle::{log_pi, plain_real_proof, Subject, Visitor, F};

type NG = NativeGadget<F, P2RDecompositionChip<F>, NativeChip<F>>;

/// SHA-256 of a byte vector of variable length <= M (M a multiple of 64).
#[derive(Clone, Debug)]
pub struct VarSha<const M: usize>;

pub struct VarShaCircuit<const M: usize> {
    input: Value<Vec<u8>>,
}

impl<const M: usize> Circuit<F> for VarShaCircuit<M> {
    type Config = (<VarLenSha256Gadget<F> as FromScratch<F>>::Config, <VectorGadget<F> as FromScratch<F>>::Config);
    type FloorPlanner = SimpleFloorPlanner;
    type Params = ();

    fn without_witnesses(&self) -> Self {
        unreachable!()
    }

    fn configure(meta: &mut ConstraintSystem<F>) -> Self::Config {
        let committed = meta.instance_column();
        let plain = meta.instance_column();
        let cols = [committed, plain];
        (VarLenSha256Gadget::<F>::configure_from_scratch(meta, &cols), VectorGadget::<F>::configure_from_scratch(meta, &cols))
    }

    fn synthesize(&self, config: Self::Config, mut layouter: impl Layouter<F>) -> Result<(), Error> {
        let chip = VarLenSha256Gadget::<F>::new_from_scratch(&config.0);
        let ng = NG::new_from_scratch(&config.1);
        let vg = VectorGadget::new(&ng);
        let v: AssignedVector<F, AssignedByte<F>, M, 64> = vg.assign(&mut layouter, self.input.clone())?;
        let out: [AssignedByte<F>; 32] = VarHashInstructions::<F, M, AssignedByte<F>, [AssignedByte<F>; 32], 64>::varhash(&chip, &mut layouter, &v)?;
        for b in out.iter() {
            let cells: Vec<AssignedNative<F>> = ng.as_public_input(&mut layouter, b)?;
            log_pi(&cells);
            for c in &cells {
                ng.constrain_as_public_input(&mut layouter, c)?;
            }
        }
        chip.load_from_scratch(&mut layouter)?;
        ng.load_from_scratch(&mut layouter)
    }
}

impl<const M: usize> Subject for VarSha<M> {
    type W = Vec<u8>;
    fn name(&self) -> String {
        "VarLenSha256".into()
    }
    fn key(&self) -> String {
        format!("VarLenSha256<max {M}>")
    }
    fn with_circuit<R, V: Visitor<R>>(&self, w: Value<Vec<u8>>, v: V) -> R {
        v.visit(&VarShaCircuit::<M> { input: w })
    }
    fn real_proof(&self, w: &Vec<u8>, instance: &[F], k: u32, seed: u64) -> Result<(), String> {
        plain_real_proof(self, w, instance, k, seed)
    }
}

/// Poseidon of a vector of native elements of variable length <= M (M a multiple of the rate 2).
#[derive(Clone, Debug)]
pub struct VarPoseidon<const M: usize>;

pub struct VarPoseidonCircuit<const M: usize> {
    input: Value<Vec<F>>,
}

const RATE: usize = 2;

impl<const M: usize> Circuit<F> for VarPoseidonCircuit<M> {
    type Config = (<VarLenPoseidonGadget<F> as FromScratch<F>>::Config, <VectorGadget<F> as FromScratch<F>>::Config);
    type FloorPlanner = SimpleFloorPlanner;
    type Params = ();

    fn without_witnesses(&self) -> Self {
        unreachable!()
    }

    fn configure(meta: &mut ConstraintSystem<F>) -> Self::Config {
        let committed = meta.instance_column();
        let plain = meta.instance_column();
        let cols = [committed, plain];
        (VarLenPoseidonGadget::<F>::configure_from_scratch(meta, &cols), VectorGadget::<F>::configure_from_scratch(meta, &cols))
    }

    fn synthesize(&self, config: Self::Config, mut layouter: impl Layouter<F>) -> Result<(), Error> {
        let chip = VarLenPoseidonGadget::<F>::new_from_scratch(&config.0);
        let ng = NG::new_from_scratch(&config.1);
        let vg = VectorGadget::new(&ng);
        let v: AssignedVector<F, AssignedNative<F>, M, RATE> = vg.assign(&mut layouter, self.input.clone())?;
        let out: AssignedNative<F> = VarHashInstructions::<F, M, AssignedNative<F>, AssignedNative<F>, RATE>::varhash(&chip, &mut layouter, &v)?;
        log_pi(std::slice::from_ref(&out));
        ng.constrain_as_public_input(&mut layouter, &out)?;
        chip.load_from_scratch(&mut layouter)?;
        ng.load_from_scratch(&mut layouter)
    }
}

impl<const M: usize> Subject for VarPoseidon<M> {
    type W = Vec<F>;
    fn name(&self) -> String {
        "VarLenPoseidon".into()
    }
    fn key(&self) -> String {
        format!("VarLenPoseidon<max {M}>")
    }
    fn with_circuit<R, V: Visitor<R>>(&self, w: Value<Vec<F>>, v: V) -> R {
        v.visit(&VarPoseidonCircuit::<M> { input: w })
    }
    fn real_proof(&self, w: &Vec<F>, instance: &[F], k: u32, seed: u64) -> Result<(), String> {
        plain_real_proof(self, w, instance, k, seed)
    }
}
