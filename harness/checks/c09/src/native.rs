//! The native-field operation registry (copied from C04 and adapted): every operation is
//! (Op, typed inputs) with a reference semantics over big integers, which C09 only uses to decide
//! whether an input tuple is inside the operation's domain. The operands are the relation's
//! witness: `Value::unknown()` assigns unknown cells.

use ff::Field;
use midnight_circuits::{
    instructions::*,
    types::{AssignedBit, AssignedByte, AssignedNative},
};
use midnight_proofs::{circuit::{Layouter, Value}, plonk::Error};
use midnight_zk_stdlib::{ZkStdLib, ZkStdLibArch};
use num_bigint::BigUint;
use num_integer::Integer;
use num_traits::{One, Zero};
use vgad::val::*;

use crate::oracle::{Ex, OpDef, F};

#[derive(Clone, Debug, PartialEq)]
pub enum V {
    N(F),
    B(bool),
    Y(u8),
}

impl V {
    pub fn show(&self) -> String {
        match self {
            V::N(x) => hex(x),
            V::B(b) => format!("{}", *b as u8),
            V::Y(y) => format!("y{y}"),
        }
    }
    fn n(&self) -> F {
        match self {
            V::N(x) => *x,
            V::B(b) => fb(*b),
            V::Y(y) => F::from(*y as u64),
        }
    }
    fn b(&self) -> bool {
        match self {
            V::B(b) => *b,
            _ => panic!("not a bit"),
        }
    }
    fn y(&self) -> u8 {
        match self {
            V::Y(y) => *y,
            _ => panic!("not a byte"),
        }
    }
}

#[derive(Clone, Copy, Debug, PartialEq)]
pub enum Ty {
    N,
    B,
    Y,
}

enum A {
    N(AssignedNative<F>),
    B(AssignedBit<F>),
    Y(AssignedByte<F>),
}

#[derive(Clone, Debug, PartialEq)]
pub enum Op {
    Add,
    Sub,
    Mul(Option<F>),
    Neg,
    Square,
    Pow(u64),
    AddConst(F),
    MulConst(F),
    /// coefficients, constant; inputs = terms
    LinComb(Vec<F>, F),
    /// a, b, c, k, m; inputs x, y, z
    AddAndMul(F, F, F, F, F),
    Inv,
    Inv0,
    Div,
    IsZero,
    AssertZero,
    AssertNonZero,
    IsEqual,
    IsNotEqual,
    IsEqualToFixed(F),
    IsNotEqualToFixed(F),
    AssertEqual,
    AssertNotEqual,
    AssertEqualToFixed(F),
    AssertNotEqualToFixed(F),
    BitIsEqual,
    BitAssertEqual,
    BitAssertNotEqual,
    And(usize),
    Or(usize),
    Xor(usize),
    Not,
    Band(usize),
    Bor(usize),
    Bxor(usize),
    Bnot(usize),
    /// input: n bits
    IsCanonical(usize),
    LeBitsLowerThan(usize, BigUint),
    LeBitsGeqThan(usize, BigUint),
    ToLeBits(Option<usize>, bool),
    ToBeBits(Option<usize>, bool),
    ToLeBytes(Option<usize>),
    ToBeBytes(Option<usize>),
    /// bits per chunk, number of chunks
    ToLeChunks(usize, Option<usize>),
    FromLeBits(usize),
    FromBeBits(usize),
    FromLeBytes(usize),
    FromBeBytes(usize),
    Sgn0,
    AssertLowerThanFixed(BigUint),
    AssignLowerThanFixed(BigUint),
    LowerThan(u32),
    Select,
    SelectBit,
    CondSwap,
    CondAssertEqual,
    BitToNative,
    ByteToNative,
    NativeToBit,
    NativeToByte,
    DivRem(BigUint, Option<BigUint>),
    Rem(BigUint, Option<BigUint>),
}

impl Op {
    pub fn name(&self) -> String {
        let s = format!("{self:?}");
        s.split(|c| c == '(' || c == ' ').next().unwrap().to_string()
    }
    pub fn in_types(&self) -> Vec<Ty> {
        use Op::*;
        use Ty::*;
        match self {
            Add | Sub | Mul(_) | Div | IsEqual | IsNotEqual | AssertEqual | AssertNotEqual | LowerThan(_) => vec![N, N],
            Neg | Square | Pow(_) | AddConst(_) | MulConst(_) | Inv | Inv0 | IsZero | AssertZero | AssertNonZero
            | IsEqualToFixed(_) | IsNotEqualToFixed(_) | AssertEqualToFixed(_) | AssertNotEqualToFixed(_)
            | ToLeBits(..) | ToBeBits(..) | ToLeBytes(_) | ToBeBytes(_) | ToLeChunks(..) | Sgn0 | AssertLowerThanFixed(_)
            | AssignLowerThanFixed(_) | NativeToBit | NativeToByte | DivRem(..) | Rem(..) | Bnot(_) => vec![N],
            LinComb(c, _) => vec![N; c.len()],
            AddAndMul(..) => vec![N, N, N],
            BitIsEqual | BitAssertEqual | BitAssertNotEqual => vec![B, B],
            And(n) | Or(n) | Xor(n) | IsCanonical(n) | LeBitsLowerThan(n, _) | LeBitsGeqThan(n, _) | FromLeBits(n) | FromBeBits(n) => vec![B; *n],
            Not | BitToNative => vec![B],
            Band(_) | Bor(_) | Bxor(_) => vec![N, N],
            FromLeBytes(n) | FromBeBytes(n) => vec![Y; *n],
            Select | CondSwap | CondAssertEqual => vec![B, N, N],
            SelectBit => vec![B, B, B],
            ByteToNative => vec![Y],
        }
    }
}

fn big(x: &F) -> BigUint {
    to_big(x)
}

fn bits_le(x: &BigUint, n: usize) -> Vec<bool> {
    (0..n).map(|i| x.bit(i as u64)).collect()
}

fn from_bits_le(b: &[bool]) -> BigUint {
    let mut x = BigUint::zero();
    for (i, bit) in b.iter().enumerate() {
        if *bit {
            x.set_bit(i as u64, true);
        }
    }
    x
}

pub const NUM_BITS: usize = 255;

/// Reference semantics. `None` = the inputs are outside the operation's domain (the circuit must
/// be unsatisfiable); `Some(outs)` = the unique admissible outputs.
pub fn reference(op: &Op, ins: &[V]) -> Option<Vec<V>> {
    use Op::*;
    let p = modulus();
    let n = |i: usize| ins[i].n();
    Some(match op {
        Add => vec![V::N(n(0) + n(1))],
        Sub => vec![V::N(n(0) - n(1))],
        Mul(c) => vec![V::N(n(0) * n(1) * c.unwrap_or(F::ONE))],
        Neg => vec![V::N(-n(0))],
        Square => vec![V::N(n(0) * n(0))],
        Pow(e) => vec![V::N(from_big(&big(&n(0)).modpow(&BigUint::from(*e), &p)))],
        AddConst(c) => vec![V::N(n(0) + c)],
        MulConst(c) => vec![V::N(n(0) * c)],
        LinComb(cs, k) => vec![V::N(cs.iter().enumerate().fold(*k, |acc, (i, c)| acc + *c * n(i)))],
        AddAndMul(a, b, c, k, m) => vec![V::N(*a * n(0) + *b * n(1) + *c * n(2) + k + *m * n(0) * n(1))],
        Inv => {
            if n(0) == F::ZERO {
                return None;
            }
            vec![V::N(n(0).invert().unwrap())]
        }
        Inv0 => vec![V::N(if n(0) == F::ZERO { F::ZERO } else { n(0).invert().unwrap() })],
        Div => {
            if n(1) == F::ZERO {
                return None;
            }
            vec![V::N(n(0) * n(1).invert().unwrap())]
        }
        IsZero => vec![V::B(n(0) == F::ZERO)],
        AssertZero => {
            if n(0) != F::ZERO {
                return None;
            }
            vec![]
        }
        AssertNonZero => {
            if n(0) == F::ZERO {
                return None;
            }
            vec![]
        }
        IsEqual | BitIsEqual => vec![V::B(n(0) == n(1))],
        IsNotEqual => vec![V::B(n(0) != n(1))],
        IsEqualToFixed(c) => vec![V::B(n(0) == *c)],
        IsNotEqualToFixed(c) => vec![V::B(n(0) != *c)],
        AssertEqual | BitAssertEqual => {
            if n(0) != n(1) {
                return None;
            }
            vec![]
        }
        AssertNotEqual | BitAssertNotEqual => {
            if n(0) == n(1) {
                return None;
            }
            vec![]
        }
        AssertEqualToFixed(c) => {
            if n(0) != *c {
                return None;
            }
            vec![]
        }
        AssertNotEqualToFixed(c) => {
            if n(0) == *c {
                return None;
            }
            vec![]
        }
        And(_) => vec![V::B(ins.iter().all(|v| v.b()))],
        Or(_) => vec![V::B(ins.iter().any(|v| v.b()))],
        Xor(_) => vec![V::B(ins.iter().filter(|v| v.b()).count() % 2 == 1)],
        Not => vec![V::B(!ins[0].b())],
        Band(k) | Bor(k) | Bxor(k) => {
            let (x, y) = (big(&n(0)), big(&n(1)));
            if x.bits() as usize > *k || y.bits() as usize > *k {
                return None;
            }
            let r = match op {
                Band(_) => x & y,
                Bor(_) => x | y,
                _ => x ^ y,
            };
            vec![V::N(from_big(&r))]
        }
        Bnot(k) => {
            let x = big(&n(0));
            if x.bits() as usize > *k {
                return None;
            }
            let mask = (BigUint::one() << *k) - 1u32;
            vec![V::N(from_big(&(x ^ mask)))]
        }
        IsCanonical(_) => {
            let x = from_bits_le(&ins.iter().map(|v| v.b()).collect::<Vec<_>>());
            vec![V::B(x < p)]
        }
        LeBitsLowerThan(_, bound) => {
            let x = from_bits_le(&ins.iter().map(|v| v.b()).collect::<Vec<_>>());
            vec![V::B(x < *bound)]
        }
        LeBitsGeqThan(_, bound) => {
            let x = from_bits_le(&ins.iter().map(|v| v.b()).collect::<Vec<_>>());
            vec![V::B(x >= *bound)]
        }
        ToLeBits(nb, _) | ToBeBits(nb, _) => {
            let nbits = nb.unwrap_or(NUM_BITS);
            let x = big(&n(0));
            if x.bits() as usize > nbits {
                return None;
            }
            let mut b = bits_le(&x, nbits);
            if matches!(op, ToBeBits(..)) {
                b.reverse();
            }
            b.into_iter().map(V::B).collect()
        }
        ToLeBytes(nb) | ToBeBytes(nb) => {
            let nbytes = nb.unwrap_or(32);
            let x = big(&n(0));
            if x.bits() as usize > 8 * nbytes {
                return None;
            }
            let mut b = x.to_bytes_le();
            b.resize(nbytes, 0);
            if matches!(op, ToBeBytes(_)) {
                b.reverse();
            }
            b.into_iter().map(V::Y).collect()
        }
        ToLeChunks(bits, nchunks) => {
            let x = big(&n(0));
            let nc = nchunks.unwrap_or(NUM_BITS.div_ceil(*bits));
            if x.bits() as usize > bits * nc {
                return None;
            }
            let mask = (BigUint::one() << *bits) - 1u32;
            (0..nc).map(|i| V::N(from_big(&((&x >> (i * bits)) & &mask)))).collect()
        }
        FromLeBits(_) | FromBeBits(_) => {
            let mut b: Vec<bool> = ins.iter().map(|v| v.b()).collect();
            if matches!(op, FromBeBits(_)) {
                b.reverse();
            }
            vec![V::N(from_big(&from_bits_le(&b)))]
        }
        FromLeBytes(_) | FromBeBytes(_) => {
            let mut b: Vec<u8> = ins.iter().map(|v| v.y()).collect();
            if matches!(op, FromBeBytes(_)) {
                b.reverse();
            }
            vec![V::N(from_big(&BigUint::from_bytes_le(&b)))]
        }
        Sgn0 => vec![V::B(big(&n(0)).is_odd())],
        AssertLowerThanFixed(bound) => {
            if big(&n(0)) >= *bound {
                return None;
            }
            vec![]
        }
        AssignLowerThanFixed(bound) => {
            if big(&n(0)) >= *bound {
                return None;
            }
            vec![V::N(n(0))]
        }
        LowerThan(k) => {
            let (x, y) = (big(&n(0)), big(&n(1)));
            if x.bits() > *k as u64 || y.bits() > *k as u64 {
                return None;
            }
            vec![V::B(x < y)]
        }
        Select => vec![V::N(if ins[0].b() { n(1) } else { n(2) })],
        SelectBit => vec![V::B(if ins[0].b() { ins[1].b() } else { ins[2].b() })],
        CondSwap => {
            if ins[0].b() {
                vec![V::N(n(2)), V::N(n(1))]
            } else {
                vec![V::N(n(1)), V::N(n(2))]
            }
        }
        CondAssertEqual => {
            if ins[0].b() && n(1) != n(2) {
                return None;
            }
            vec![]
        }
        BitToNative => vec![V::N(fb(ins[0].b()))],
        ByteToNative => vec![V::N(F::from(ins[0].y() as u64))],
        NativeToBit => {
            let x = big(&n(0));
            if x > BigUint::one() {
                return None;
            }
            vec![V::B(x.is_one())]
        }
        NativeToByte => {
            let x = big(&n(0));
            if x >= BigUint::from(256u32) {
                return None;
            }
            vec![V::Y(as_u8(&n(0)).unwrap())]
        }
        DivRem(d, bound) | Rem(d, bound) => {
            let x = big(&n(0));
            if let Some(b) = bound {
                if x > *b {
                    // the caller promised a bound that does not hold: outside the contract
                    return None;
                }
            }
            let (q, r) = x.div_rem(d);
            if matches!(op, DivRem(..)) {
                vec![V::N(from_big(&q)), V::N(from_big(&r))]
            } else {
                vec![V::N(from_big(&r))]
            }
        }
    })
}

#[derive(Clone, Debug)]
pub struct NOp {
    pub op: Op,
    pub arch: ZkStdLibArch,
    pub max_bit_len: u8,
}

pub fn show_ins(ins: &Vec<V>) -> String {
    ins.iter().map(|v| v.show()).collect::<Vec<_>>().join(",").replace("0x0000000000000000000000000000000000000000000000000000000000000000", "0x0")
}

impl OpDef for NOp {
    type W = Vec<V>;
    fn name(&self) -> String {
        self.op.name()
    }
    fn key(&self) -> String {
        format!("{:?}/cols{}bits{}", self.op, self.arch.nr_pow2range_cols, self.max_bit_len)
    }
    fn arch(&self) -> ZkStdLibArch {
        self.arch
    }
    fn max_bit_len(&self) -> u8 {
        self.max_bit_len
    }

    fn synth<L: Layouter<F>>(&self, std: &ZkStdLib, l: &mut L, w: Value<Vec<V>>, ex: &Ex) -> Result<(), Error> {
        use Op::*;
        // assign and expose the inputs (AssignLowerThanFixed assigns its own input)
        let mut a: Vec<A> = vec![];
        if !matches!(self.op, AssignLowerThanFixed(_)) {
            for (i, t) in self.op.in_types().into_iter().enumerate() {
                a.push(match t {
                    Ty::N => A::N(std.assign(l, w.as_ref().map(|w| w[i].n()))?),
                    Ty::B => A::B(std.assign(l, w.as_ref().map(|w| w[i].b()))?),
                    Ty::Y => A::Y(std.assign(l, w.as_ref().map(|w| w[i].y()))?),
                });
            }
            for x in &a {
                match x {
                    A::N(c) => ex.pi(std, l, c)?,
                    A::B(c) => ex.pi(std, l, c)?,
                    A::Y(c) => ex.pi(std, l, c)?,
                }
            }
        }
        let n = |i: usize| match &a[i] {
            A::N(c) => c.clone(),
            _ => unreachable!(),
        };
        let b = |i: usize| match &a[i] {
            A::B(c) => c.clone(),
            _ => unreachable!(),
        };
        let bits = || a.iter().map(|x| match x { A::B(c) => c.clone(), _ => unreachable!() }).collect::<Vec<_>>();
        let bytes = || a.iter().map(|x| match x { A::Y(c) => c.clone(), _ => unreachable!() }).collect::<Vec<_>>();
        let mut outs: Vec<A> = vec![];
        match &self.op {
            Add => outs.push(A::N(std.add(l, &n(0), &n(1))?)),
            Sub => outs.push(A::N(std.sub(l, &n(0), &n(1))?)),
            Mul(c) => outs.push(A::N(std.mul(l, &n(0), &n(1), *c)?)),
            Neg => outs.push(A::N(std.neg(l, &n(0))?)),
            Square => outs.push(A::N(std.square(l, &n(0))?)),
            Pow(e) => outs.push(A::N(std.pow(l, &n(0), *e)?)),
            AddConst(c) => outs.push(A::N(std.add_constant(l, &n(0), *c)?)),
            MulConst(c) => outs.push(A::N(std.mul_by_constant(l, &n(0), *c)?)),
            LinComb(cs, k) => {
                let terms: Vec<(F, AssignedNative<F>)> = cs.iter().enumerate().map(|(i, c)| (*c, n(i))).collect();
                outs.push(A::N(std.linear_combination(l, &terms, *k)?))
            }
            AddAndMul(ca, cb, cc, k, m) => outs.push(A::N(std.add_and_mul(l, (*ca, &n(0)), (*cb, &n(1)), (*cc, &n(2)), *k, *m)?)),
            Inv => outs.push(A::N(std.inv(l, &n(0))?)),
            Inv0 => outs.push(A::N(std.inv0(l, &n(0))?)),
            Div => outs.push(A::N(std.div(l, &n(0), &n(1))?)),
            IsZero => outs.push(A::B(std.is_zero(l, &n(0))?)),
            AssertZero => std.assert_zero(l, &n(0))?,
            AssertNonZero => std.assert_non_zero(l, &n(0))?,
            IsEqual => outs.push(A::B(std.is_equal(l, &n(0), &n(1))?)),
            IsNotEqual => outs.push(A::B(std.is_not_equal(l, &n(0), &n(1))?)),
            IsEqualToFixed(c) => outs.push(A::B(std.is_equal_to_fixed(l, &n(0), *c)?)),
            IsNotEqualToFixed(c) => outs.push(A::B(std.is_not_equal_to_fixed(l, &n(0), *c)?)),
            AssertEqual => std.assert_equal(l, &n(0), &n(1))?,
            AssertNotEqual => std.assert_not_equal(l, &n(0), &n(1))?,
            AssertEqualToFixed(c) => std.assert_equal_to_fixed(l, &n(0), *c)?,
            AssertNotEqualToFixed(c) => std.assert_not_equal_to_fixed(l, &n(0), *c)?,
            BitIsEqual => outs.push(A::B(std.is_equal(l, &b(0), &b(1))?)),
            BitAssertEqual => std.assert_equal(l, &b(0), &b(1))?,
            BitAssertNotEqual => std.assert_not_equal(l, &b(0), &b(1))?,
            And(_) => outs.push(A::B(std.and(l, &bits())?)),
            Or(_) => outs.push(A::B(std.or(l, &bits())?)),
            Xor(_) => outs.push(A::B(std.xor(l, &bits())?)),
            Not => outs.push(A::B(std.not(l, &b(0))?)),
            Band(k) => outs.push(A::N(std.band(l, &n(0), &n(1), *k)?)),
            Bor(k) => outs.push(A::N(std.bor(l, &n(0), &n(1), *k)?)),
            Bxor(k) => outs.push(A::N(std.bxor(l, &n(0), &n(1), *k)?)),
            Bnot(k) => outs.push(A::N(std.bnot(l, &n(0), *k)?)),
            IsCanonical(_) => outs.push(A::B(std.is_canonical(l, &bits())?)),
            LeBitsLowerThan(_, bound) => outs.push(A::B(std.le_bits_lower_than(l, &bits(), bound.clone())?)),
            LeBitsGeqThan(_, bound) => outs.push(A::B(std.le_bits_geq_than(l, &bits(), bound.clone())?)),
            ToLeBits(nb, canon) => outs.extend(std.assigned_to_le_bits(l, &n(0), *nb, *canon)?.into_iter().map(A::B)),
            ToBeBits(nb, canon) => outs.extend(std.assigned_to_be_bits(l, &n(0), *nb, *canon)?.into_iter().map(A::B)),
            ToLeBytes(nb) => outs.extend(std.assigned_to_le_bytes(l, &n(0), *nb)?.into_iter().map(A::Y)),
            ToBeBytes(nb) => outs.extend(std.assigned_to_be_bytes(l, &n(0), *nb)?.into_iter().map(A::Y)),
            ToLeChunks(bits_per, nc) => outs.extend(std.assigned_to_le_chunks(l, &n(0), *bits_per, *nc)?.into_iter().map(A::N)),
            FromLeBits(_) => outs.push(A::N(std.assigned_from_le_bits(l, &bits())?)),
            FromBeBits(_) => outs.push(A::N(std.assigned_from_be_bits(l, &bits())?)),
            FromLeBytes(_) => outs.push(A::N(std.assigned_from_le_bytes(l, &bytes())?)),
            FromBeBytes(_) => outs.push(A::N(std.assigned_from_be_bytes(l, &bytes())?)),
            Sgn0 => outs.push(A::B(std.sgn0(l, &n(0))?)),
            AssertLowerThanFixed(bound) => std.assert_lower_than_fixed(l, &n(0), bound)?,
            AssignLowerThanFixed(bound) => {
                let x: AssignedNative<F> = std.assign_lower_than_fixed(l, w.as_ref().map(|w| w[0].n()), bound)?;
                ex.pi(std, l, &x)?;
                outs.push(A::N(x));
            }
            LowerThan(k) => outs.push(A::B(std.lower_than(l, &n(0), &n(1), *k)?)),
            Select => outs.push(A::N(std.select(l, &b(0), &n(1), &n(2))?)),
            SelectBit => outs.push(A::B(std.select(l, &b(0), &b(1), &b(2))?)),
            CondSwap => {
                let (x, y) = std.cond_swap(l, &b(0), &n(1), &n(2))?;
                outs.push(A::N(x));
                outs.push(A::N(y));
            }
            CondAssertEqual => std.cond_assert_equal(l, &b(0), &n(1), &n(2))?,
            BitToNative => outs.push(A::N(std.convert(l, &b(0))?)),
            ByteToNative => {
                let y = match &a[0] { A::Y(c) => c.clone(), _ => unreachable!() };
                outs.push(A::N(std.convert(l, &y)?))
            }
            NativeToBit => outs.push(A::B(std.convert(l, &n(0))?)),
            NativeToByte => outs.push(A::Y(std.convert(l, &n(0))?)),
            DivRem(d, bound) => {
                let (q, r) = std.div_rem(l, &n(0), d.clone(), bound.clone())?;
                outs.push(A::N(q));
                outs.push(A::N(r));
            }
            Rem(d, bound) => outs.push(A::N(std.rem(l, &n(0), d.clone(), bound.clone())?)),
        }
        for x in &outs {
            match x {
                A::N(c) => ex.pi(std, l, c)?,
                A::B(c) => ex.pi(std, l, c)?,
                A::Y(c) => ex.pi(std, l, c)?,
            }
        }
        Ok(())
    }
}
