//! C09 — circuit structure never depends on witness or instance values.

mod fam;
mod native;
mod oracle;
mod scratch;
mod selftest;

use ff::Field;
use midnight_zk_stdlib::ZkStdLibArch;
use num_bigint::BigUint;
use num_traits::One;
use native::{NOp, Op, Ty, V};
use oracle::{check_op, Cfg, OpDef, Subject, Wit, F};
use serde_json::json;
use vcore::{CaseOut, Ctx, Level, Tier};
use vgad::val::*;

type Job = Box<dyn Fn(&Cfg) -> CaseOut + Send + Sync>;

fn job<O: Subject>(op: O, wits: Vec<Wit<O::W>>, show: fn(&O::W) -> String) -> (String, Job) {
    let key = op.key();
    job_keyed(key, op, wits, show)
}

fn job_keyed<O: Subject>(key: String, op: O, wits: Vec<Wit<O::W>>, show: fn(&O::W) -> String) -> (String, Job) {
    assert!(!wits.is_empty(), "{key}");
    (
        key,
        Box::new(move |cfg: &Cfg| {
            let mut out = CaseOut::batch();
            let rep = check_op(&op, &wits, &show, cfg, &mut out);
            out.counter("operations", 1);
            if let Some(k) = rep.k {
                out.counter(&format!("circuits_with_k={k:02}"), 1);
            }
            out.counter("witnesses_compared", rep.compared);
            if rep.proof_done {
                out.counter("real_proofs", 1);
            }
            out
        }),
    )
}

/// Keeps at most `n` witnesses, spread over the list, always with one in-domain member.
fn thin<W: Clone>(w: Vec<Wit<W>>, n: usize) -> Vec<Wit<W>> {
    if w.len() <= n {
        return w;
    }
    let mut idx: Vec<usize> = (0..n).map(|i| i * (w.len() - 1) / (n - 1)).collect();
    idx.dedup();
    if !idx.iter().any(|i| w[*i].in_domain) {
        if let Some(j) = w.iter().position(|x| x.in_domain) {
            idx.push(j);
        }
    }
    idx.into_iter().map(|i| w[i].clone()).collect()
}

// ---------------------------------------------------------------------------------------------
// native registry (operation list and alphabets as in C04)
// ---------------------------------------------------------------------------------------------

fn arch(cols: u8) -> ZkStdLibArch {
    ZkStdLibArch {
        nr_pow2range_cols: cols,
        ..ZkStdLibArch::default()
    }
}

fn op_list(tier: Tier, seed: u64) -> Vec<Op> {
    use Op::*;
    let mut rng = vcore::rng_for(seed, "c04-consts");
    let c1 = F::random(&mut rng);
    let c2 = F::random(&mut rng);
    let p = modulus();
    let mut v = vec![
        Add, Sub, Mul(None), Mul(Some(c1)), Mul(Some(F::ZERO)), Neg, Square, Pow(0), Pow(1), Pow(2), Pow(5), Pow(64),
        AddConst(c1), AddConst(F::ZERO), AddConst(-F::ONE), MulConst(c2), MulConst(F::ZERO), MulConst(F::ONE), MulConst(-F::ONE),
        AddAndMul(c1, c2, F::ONE, c1, c2), AddAndMul(F::ZERO, F::ZERO, F::ZERO, F::ZERO, F::ONE),
        Inv, Inv0, Div, IsZero, AssertZero, AssertNonZero, IsEqual, IsNotEqual,
        IsEqualToFixed(c1), IsEqualToFixed(F::ZERO), IsNotEqualToFixed(c1), IsNotEqualToFixed(F::ZERO),
        AssertEqual, AssertNotEqual, AssertEqualToFixed(c1), AssertNotEqualToFixed(c1),
        BitIsEqual, BitAssertEqual, BitAssertNotEqual, Not,
        Sgn0, Select, SelectBit, CondSwap, CondAssertEqual, BitToNative, ByteToNative, NativeToBit, NativeToByte,
    ];
    for n in 1..=7usize {
        let cs: Vec<F> = (0..n).map(|i| if i == 0 { c1 } else if i % 3 == 0 { F::ZERO } else { F::from(i as u64 + 1) }).collect();
        v.push(LinComb(cs, if n % 2 == 0 { F::ZERO } else { c2 }));
    }
    for n in 1..=5usize {
        v.push(And(n));
        v.push(Or(n));
        v.push(Xor(n));
    }
    for k in [1usize, 8, 9, 64] {
        v.push(Band(k));
        v.push(Bor(k));
        v.push(Bxor(k));
        v.push(Bnot(k));
    }
    for n in [1usize, 8, 254, 255] {
        v.push(IsCanonical(n));
    }
    for (n, bound) in [
        (8usize, BigUint::from(0u32)),
        (8, BigUint::from(1u32)),
        (8, BigUint::from(200u32)),
        (8, BigUint::from(255u32)),
        (8, BigUint::from(256u32)),
        (255, &p - 1u32),
        (255, p.clone()),
        (64, BigUint::one() << 63),
    ] {
        v.push(LeBitsLowerThan(n, bound.clone()));
        v.push(LeBitsGeqThan(n, bound));
    }
    for nb in [None, Some(1usize), Some(8), Some(64), Some(254), Some(255)] {
        for canon in [false, true] {
            v.push(ToLeBits(nb, canon));
        }
    }
    v.push(ToBeBits(Some(8), true));
    v.push(ToBeBits(None, true));
    for nb in [None, Some(1usize), Some(2), Some(8), Some(31), Some(32)] {
        v.push(ToLeBytes(nb));
    }
    v.push(ToBeBytes(Some(4)));
    v.push(ToBeBytes(None));
    for (bits, nc) in [(1usize, Some(8usize)), (4, Some(2)), (8, Some(4)), (8, None), (16, Some(3)), (7, Some(5)), (64, Some(2)), (100, None)] {
        v.push(ToLeChunks(bits, nc));
    }
    for n in [1usize, 8, 64, 254, 255] {
        v.push(FromLeBits(n));
    }
    v.push(FromBeBits(9));
    for n in [1usize, 4, 31, 32] {
        v.push(FromLeBytes(n));
    }
    v.push(FromBeBytes(5));
    for bound in [BigUint::from(1u32), BigUint::from(2u32), BigUint::from(255u32), BigUint::from(256u32), BigUint::from(1000u32), BigUint::one() << 64, (BigUint::one() << 64) + 1u32, &p - 1u32, p.clone()] {
        v.push(AssertLowerThanFixed(bound.clone()));
        v.push(AssignLowerThanFixed(bound));
    }
    for k in [1u32, 8, 64, 126] {
        v.push(LowerThan(k));
    }
    for (d, bound) in [
        (BigUint::from(1u32), None),
        (BigUint::from(2u32), None),
        (BigUint::from(5u32), None),
        (BigUint::from(256u32), Some(BigUint::from(65535u32))),
        (BigUint::one() << 64, None),
        (BigUint::from(7u32), Some(BigUint::from(100u32))),
        (&p - 1u32, None),
    ] {
        v.push(DivRem(d.clone(), bound.clone()));
        v.push(Rem(d, bound));
    }
    if tier.is_thorough() {
        v.push(Pow(255));
        v.push(Pow(u64::MAX));
    }
    v
}

fn op_ks(op: &Op) -> Vec<u32> {
    use Op::*;
    match op {
        Band(k) | Bor(k) | Bxor(k) | Bnot(k) => vec![*k as u32],
        ToLeBits(Some(k), _) | ToBeBits(Some(k), _) => vec![*k as u32],
        ToLeBytes(Some(k)) | ToBeBytes(Some(k)) => vec![8 * *k as u32],
        ToLeChunks(b, Some(n)) => vec![(*b * *n) as u32],
        AssertLowerThanFixed(b) | AssignLowerThanFixed(b) => vec![b.bits() as u32, (b.bits() as u32).saturating_sub(1)],
        LowerThan(k) => vec![*k],
        NativeToBit => vec![1],
        NativeToByte => vec![8],
        DivRem(d, b) | Rem(d, b) => {
            let mut v = vec![d.bits() as u32];
            if let Some(b) = b {
                v.push(b.bits() as u32)
            }
            v
        }
        _ => vec![64],
    }
}

/// Input tuples for an operation (C04's alphabets): the cartesian product of per-position
/// alphabets (thorough, arity <= 2) or diagonals through them.
fn inputs_for(op: &Op, tier: Tier, seed: u64) -> Vec<Vec<V>> {
    use Op::*;
    let tys = op.in_types();
    let p = modulus();
    let long_bits = |n: usize| -> Vec<Vec<V>> {
        let mut vals: Vec<BigUint> = vec![BigUint::from(0u32), BigUint::from(1u32), (BigUint::one() << n) - 1u32];
        if n >= 254 {
            vals.extend([&p - 1u32, p.clone(), &p + 1u32, &p - 2u32]);
        }
        if let LeBitsLowerThan(_, b) | LeBitsGeqThan(_, b) = op {
            vals.extend([b.clone(), b + 1u32, if b > &BigUint::from(0u32) { b - 1u32 } else { BigUint::from(0u32) }]);
        }
        let mut rng = vcore::rng_for(seed, &format!("c04-bits-{n}"));
        vals.push(vcore::big::random_below(&mut rng, &(BigUint::one() << n)));
        vals.sort();
        vals.dedup();
        vals.into_iter()
            .filter(|v| v.bits() as usize <= n)
            .map(|v| (0..n).map(|i| V::B(v.bit(i as u64))).collect())
            .collect()
    };
    match op {
        IsCanonical(n) | LeBitsLowerThan(n, _) | LeBitsGeqThan(n, _) | FromLeBits(n) | FromBeBits(n) if *n > 5 => return long_bits(*n),
        FromLeBytes(n) | FromBeBytes(n) => {
            let mut out = vec![vec![V::Y(0); *n], vec![V::Y(255); *n]];
            out.push((0..*n).map(|i| V::Y((i * 37 + 1) as u8)).collect());
            if *n == 32 {
                for v in [&p - 1u32, p.clone()] {
                    let mut b = v.to_bytes_le();
                    b.resize(32, 0);
                    out.push(b.into_iter().map(V::Y).collect());
                }
            }
            return out;
        }
        _ => {}
    }
    let alph_n: Vec<V> = native_alphabet(&op_ks(op), 2, seed, "c04-native").into_iter().map(|(_, v)| V::N(v)).collect();
    let alph_b = vec![V::B(false), V::B(true)];
    let alph_y: Vec<V> = [0u8, 1, 127, 128, 255, 0x5a].into_iter().map(V::Y).collect();
    let alph = |t: &Ty| match t {
        Ty::N => alph_n.clone(),
        Ty::B => alph_b.clone(),
        Ty::Y => alph_y.clone(),
    };
    let per_pos: Vec<Vec<V>> = tys.iter().map(alph).collect();
    let n_native = tys.iter().filter(|t| **t == Ty::N).count();
    let full = tier.is_thorough() && n_native <= 2 || tys.iter().all(|t| *t == Ty::B);
    let mut out: Vec<Vec<V>> = vec![];
    if full {
        let mut idx = vec![0usize; per_pos.len()];
        loop {
            out.push(idx.iter().enumerate().map(|(i, j)| per_pos[i][*j].clone()).collect());
            let mut i = 0;
            loop {
                if i == idx.len() {
                    return out;
                }
                idx[i] += 1;
                if idx[i] < per_pos[i].len() {
                    break;
                }
                idx[i] = 0;
                i += 1;
            }
        }
    }
    let m = per_pos.iter().map(|a| a.len()).max().unwrap_or(1);
    for shift in [0usize, 1, 3] {
        for d in 0..m {
            let t: Vec<V> = per_pos.iter().enumerate().map(|(i, a)| a[(d + i * shift) % a.len()].clone()).collect();
            if !out.contains(&t) {
                out.push(t);
            }
        }
    }
    out
}

fn native_jobs(tier: Tier, seed: u64) -> Vec<(String, Job)> {
    let configs: Vec<(u8, u8)> = if tier.is_thorough() { vec![(4, 8), (1, 8), (2, 9), (3, 10)] } else { vec![(4, 8)] };
    let mut jobs = vec![];
    for (oi, op) in op_list(tier, seed).into_iter().enumerate() {
        let mut wits: Vec<Wit<Vec<V>>> = vec![];
        for ins in inputs_for(&op, tier, seed) {
            let in_domain = native::reference(&op, &ins).is_some();
            let label = native::show_ins(&ins);
            if !wits.iter().any(|w| w.label == label) {
                wits.push(Wit { label, w: ins, in_domain });
            }
        }
        let wits = if tier.is_thorough() { wits } else { thin(wits, 5) };
        let (cols, mbl) = configs[oi % configs.len()];
        let nop = NOp { op, arch: arch(cols), max_bit_len: mbl };
        let j = job(nop, wits, native::show_ins);
        if !jobs.iter().any(|(k, _): &(String, Job)| *k == j.0) {
            jobs.push(j);
        }
    }
    jobs
}

// ---------------------------------------------------------------------------------------------
// further families
// ---------------------------------------------------------------------------------------------

fn gw(label: impl Into<String>, in_domain: bool, f: impl FnOnce(&mut fam::GW)) -> Wit<fam::GW> {
    let mut w = fam::GW::default();
    f(&mut w);
    Wit { label: label.into(), w, in_domain }
}

/// Pairs of labelled values steering equal / opposite / identity / generic branches.
fn pairs<T: Clone + PartialEq>(a: &[fam::Lab<T>], all: bool) -> Vec<(String, T, T)> {
    let mut v = vec![];
    if all {
        for x in a {
            for y in a {
                v.push((format!("{},{}", x.0, y.0), x.1.clone(), y.1.clone()));
            }
        }
    } else {
        // a = [id/0, G/1, -G/n-1, 2G/.., R/rnd]
        for (i, j) in [(0usize, 0usize), (0, 1), (1, 0), (1, 1), (1, 2), (1, 3), (4, 1), (4, 4)] {
            v.push((format!("{},{}", a[i].0, a[j].0), a[i].1.clone(), a[j].1.clone()));
        }
    }
    v
}

fn family_jobs(tier: Tier, seed: u64) -> Vec<(&'static str, Vec<(String, Job)>)> {
    use fam::{byte_patterns, Curve, GOp, HashKind, GW};
    use group::Group;
    let t = tier.is_thorough();
    let al = fam::Alph { seed };
    let mut out: Vec<(&'static str, Vec<(String, Job)>)> = vec![];
    let push = |jobs: &mut Vec<(String, Job)>, op: GOp, wits: Vec<Wit<GW>>| {
        assert!(!wits.is_empty(), "{op:?}");
        // quick tier: at most 6 witnesses per operation of the two big-integer families
        let wits = if !t && matches!(op.family(), "biguint" | "secp256k1-scalar") { thin(wits, 6) } else { wits };
        jobs.push(job(op, wits, fam::show_gw));
    };

    // ---------------- Jubjub
    {
        let mut jobs = vec![];
        let pts = al.jpts();
        let scs = al.jscs();
        let nats = al.nats();
        let id = midnight_curves::JubjubSubgroup::identity();
        let each_pt = |ok: &dyn Fn(&midnight_curves::JubjubSubgroup) -> bool| -> Vec<Wit<GW>> { pts.iter().map(|p| gw(p.0, ok(&p.1), |w| w.jpts = vec![p.1])).collect() };
        push(&mut jobs, GOp::JAssign, each_pt(&|_| true));
        push(&mut jobs, GOp::JAssignScalar, scs.iter().map(|s| gw(s.0, true, |w| w.jscs = vec![s.1])).collect());
        push(&mut jobs, GOp::JDouble, each_pt(&|_| true));
        push(&mut jobs, GOp::JNegate, each_pt(&|_| true));
        push(&mut jobs, GOp::JIsZero, each_pt(&|_| true));
        push(&mut jobs, GOp::JAssertNonZero, each_pt(&|p| *p != id));
        for c in [0u64, 1, 8, 12345] {
            push(&mut jobs, GOp::JMulByConst(c), each_pt(&|_| true));
        }
        let pp = pairs(&pts, t);
        let two = |ok: &dyn Fn(&midnight_curves::JubjubSubgroup, &midnight_curves::JubjubSubgroup) -> bool| -> Vec<Wit<GW>> {
            pp.iter().map(|(l, p, q)| gw(l.clone(), ok(p, q), |w| w.jpts = vec![*p, *q])).collect()
        };
        push(&mut jobs, GOp::JAdd, two(&|_, _| true));
        push(&mut jobs, GOp::JIsEqual, two(&|_, _| true));
        push(&mut jobs, GOp::JAssertEqual, two(&|p, q| p == q));
        push(&mut jobs, GOp::JAssertNotEqual, two(&|p, q| p != q));
        let mut sel = vec![];
        for b in [false, true] {
            for (l, p, q) in pp.iter().take(if t { 100 } else { 4 }) {
                sel.push(gw(format!("{}?{l}", b as u8), true, |w| {
                    w.jpts = vec![*p, *q];
                    w.bits = vec![b]
                }));
            }
        }
        push(&mut jobs, GOp::JSelect, sel);
        // msm
        let mut m1 = vec![];
        for s in &scs {
            for p in &pts {
                if t || s.0 == "rnd" || p.0 == "G" || (s.0 == "0" && p.0 == "id") {
                    m1.push(gw(format!("{}*{}", s.0, p.0), true, |w| {
                        w.jscs = vec![s.1];
                        w.jpts = vec![p.1]
                    }));
                }
            }
        }
        push(&mut jobs, GOp::JMsm(1), m1);
        let mut m2 = vec![];
        for (i, j, a, b) in [(0usize, 0usize, 0usize, 0usize), (1, 1, 1, 1), (1, 2, 1, 1), (4, 4, 4, 1), (2, 4, 0, 4), (4, 0, 1, 2), (1, 1, 1, 2)] {
            m2.push(gw(format!("{}*{}+{}*{}", scs[i].0, pts[a].0, scs[j].0, pts[b].0), true, |w| {
                w.jscs = vec![scs[i].1, scs[j].1];
                w.jpts = vec![pts[a].1, pts[b].1]
            }));
        }
        push(&mut jobs, GOp::JMsm(2), m2);
        if t {
            let mut m3 = vec![];
            for sh in 0..5usize {
                m3.push(gw(format!("shift{sh}"), true, |w| {
                    w.jscs = (0..3).map(|i| scs[(i + sh) % 5].1).collect();
                    w.jpts = (0..3).map(|i| pts[(2 * i + sh) % 5].1).collect()
                }));
            }
            push(&mut jobs, GOp::JMsm(3), m3);
        }
        // from coordinates
        let mut fc = vec![];
        for p in &pts {
            let (x, y) = fam::in_subgroup_coords(&p.1);
            fc.push(gw(p.0, true, |w| w.nats = vec![x, y]));
        }
        fc.push(gw("(0,-1) order 2", false, |w| w.nats = vec![F::ZERO, -F::ONE]));
        fc.push(gw("(1,1) off curve", false, |w| w.nats = vec![F::ONE, F::ONE]));
        fc.push(gw("(0,0) off curve", false, |w| w.nats = vec![F::ZERO, F::ZERO]));
        push(&mut jobs, GOp::JFromCoords, fc);
        for n in [1usize, 32] {
            let mut v = vec![];
            for (l, b) in byte_patterns(n) {
                for p in [&pts[1], &pts[0]] {
                    v.push(gw(format!("{l}*{}", p.0), true, |w| {
                        w.bytes = b.clone();
                        w.jpts = vec![p.1]
                    }));
                }
            }
            push(&mut jobs, GOp::JMulBytes(n), v);
        }
        let mut v = vec![];
        for x in &nats {
            for p in [&pts[1], &pts[0], &pts[4]] {
                v.push(gw(format!("{}*{}", x.0, p.0), fam::fr_repr_is_canonical_scalar(&x.1), |w| {
                    w.nats = vec![x.1];
                    w.jpts = vec![p.1]
                }));
            }
        }
        push(&mut jobs, GOp::JMulNative, v);
        out.push(("jubjub", jobs));
    }

    // ---------------- Poseidon, hash to curve
    {
        let mut jobs = vec![];
        let nats = al.nats();
        let tuples = |n: usize| -> Vec<Wit<GW>> {
            let mut v = vec![];
            for x in &nats {
                v.push(gw(format!("all {}", x.0), true, |w| w.nats = vec![x.1; n]));
            }
            for sh in 1..3usize {
                v.push(gw(format!("rotation{sh}"), true, |w| w.nats = (0..n).map(|i| nats[(i + sh) % nats.len()].1).collect()));
            }
            v
        };
        for n in if t { (1..=9).collect::<Vec<usize>>() } else { vec![1, 2, 3, 4] } {
            push(&mut jobs, GOp::Poseidon(n), tuples(n));
        }
        for n in if t { vec![1usize, 2, 3] } else { vec![1, 2] } {
            push(&mut jobs, GOp::HashToCurve(n), tuples(n));
        }
        out.push(("poseidon", jobs));
    }

    // ---------------- vectors
    {
        let mut jobs = vec![];
        let lens: Vec<usize> = (0..=17).collect();
        let wit = |min_len: usize| -> Vec<Wit<GW>> {
            let mut v: Vec<Wit<GW>> = lens
                .iter()
                .map(|n| gw(format!("len{n}"), *n <= 16 && *n >= min_len, |w| w.bytes = (0..*n).map(|i| (i * 37 + 1) as u8).collect()))
                .collect();
            v.push(gw("len16 zeros", true, |w| w.bytes = vec![0; 16]));
            v.push(gw("len5 0xff", 5 >= min_len, |w| w.bytes = vec![0xff; 5]));
            v
        };
        push(&mut jobs, GOp::VAssign, wit(0));
        push(&mut jobs, GOp::VLimits, wit(0));
        push(&mut jobs, GOp::VPaddingFlag, wit(0));
        for n in if t { vec![0usize, 1, 3, 4, 5, 16] } else { vec![1, 4, 5] } {
            push(&mut jobs, GOp::VTrim(n), wit(n));
        }
        out.push(("vector", jobs));
    }

    // ---------------- BigUint
    {
        let mut jobs = vec![];
        for nb in if t { vec![1u32, 64, 120, 121, 256, 1024] } else { vec![64, 256] } {
            let bs = al.bigs(nb);
            let one: Vec<Wit<GW>> = bs.iter().map(|(l, b, ok)| gw(l.clone(), *ok, |w| w.bigs = vec![b.clone()])).collect();
            push(&mut jobs, GOp::BAssign(nb), one.clone());
            push(&mut jobs, GOp::BToLeBits(nb), one);
            let mut two: Vec<(String, BigUint, BigUint, bool)> = vec![];
            for (i, (la, a, oka)) in bs.iter().enumerate() {
                for (j, (lb, b, okb)) in bs.iter().enumerate() {
                    if t || i == j || (i + 1) % bs.len() == j || j == 0 || i == 0 {
                        two.push((format!("{la},{lb}"), a.clone(), b.clone(), *oka && *okb));
                    }
                }
            }
            let mk = |ok: &dyn Fn(&BigUint, &BigUint) -> bool, bit: Option<bool>| -> Vec<Wit<GW>> {
                two.iter()
                    .map(|(l, a, b, inr)| {
                        gw(l.clone(), *inr && ok(a, b), |w| {
                            w.bigs = vec![a.clone(), b.clone()];
                            w.bits = bit.into_iter().collect()
                        })
                    })
                    .collect()
            };
            let zero = BigUint::from(0u32);
            push(&mut jobs, GOp::BAdd(nb), mk(&|_, _| true, None));
            push(&mut jobs, GOp::BSub(nb), mk(&|a, b| a >= b, None));
            push(&mut jobs, GOp::BMul(nb), mk(&|_, _| true, None));
            push(&mut jobs, GOp::BIsEqual(nb), mk(&|_, _| true, None));
            push(&mut jobs, GOp::BLowerThan(nb), mk(&|_, _| true, None));
            if nb <= 256 {
                push(&mut jobs, GOp::BDivRem(nb), mk(&|_, b| *b != zero, None));
                push(&mut jobs, GOp::BModExp(nb, 0), mk(&|_, b| *b != zero, None));
                push(&mut jobs, GOp::BModExp(nb, 5), mk(&|_, b| *b != zero, None));
            }
            let mut sel = mk(&|_, _| true, Some(false));
            sel.extend(mk(&|_, _| true, Some(true)).into_iter().map(|mut w| {
                w.label = format!("1?{}", w.label);
                w
            }));
            push(&mut jobs, GOp::BSelect(nb), sel);
        }
        for n in [1usize, 15, 16, 32] {
            push(&mut jobs, GOp::BFromLeBytes(n), byte_patterns(n).into_iter().map(|(l, b)| gw(l, true, |w| w.bytes = b)).collect());
        }
        out.push(("biguint", jobs));
    }

    // ---------------- secp256k1 scalar field
    {
        use fam::GOp::*;
        let mut jobs = vec![];
        let scs = al.kscs();
        let zero = midnight_curves::k256::Fq::ZERO;
        let one: Vec<Wit<GW>> = scs.iter().map(|s| gw(s.0, true, |w| w.kscs = vec![s.1])).collect();
        push(&mut jobs, KAssign, one.clone());
        push(&mut jobs, KNeg, one.clone());
        push(&mut jobs, KIsZero, one.clone());
        push(&mut jobs, KToLeBits, one.clone());
        push(&mut jobs, KToLeBytes, one.clone());
        push(&mut jobs, KInv, scs.iter().map(|s| gw(s.0, s.1 != zero, |w| w.kscs = vec![s.1])).collect());
        let mut pp: Vec<(String, midnight_curves::k256::Fq, midnight_curves::k256::Fq)> = vec![];
        for (i, a) in scs.iter().enumerate() {
            for (j, b) in scs.iter().enumerate() {
                if t || i == j || (i + 1) % scs.len() == j || (i + 2) % scs.len() == j {
                    pp.push((format!("{},{}", a.0, b.0), a.1, b.1));
                }
            }
        }
        let two = |ok: &dyn Fn(&midnight_curves::k256::Fq, &midnight_curves::k256::Fq) -> bool| -> Vec<Wit<GW>> {
            pp.iter().map(|(l, a, b)| gw(l.clone(), ok(a, b), |w| w.kscs = vec![*a, *b])).collect()
        };
        for op in [KAdd, KSub, KMul, KIsEqual, KChain] {
            push(&mut jobs, op, two(&|_, _| true));
        }
        push(&mut jobs, KDiv, two(&|_, b| *b != zero));
        push(&mut jobs, KAssertEqual, two(&|a, b| a == b));
        push(&mut jobs, KAssertNotEqual, two(&|a, b| a != b));
        let mut sel = vec![];
        for b in [false, true] {
            for (l, x, y) in pp.iter().take(if t { 100 } else { 4 }) {
                sel.push(gw(format!("{}?{l}", b as u8), true, |w| {
                    w.kscs = vec![*x, *y];
                    w.bits = vec![b]
                }));
            }
        }
        push(&mut jobs, KSelect, sel);
        for n in [1usize, 32] {
            push(&mut jobs, KFromLeBytes(n), byte_patterns(n).into_iter().map(|(l, b)| gw(l, true, |w| w.bytes = b)).collect());
        }
        out.push(("secp256k1-scalar", jobs));
    }

    // ---------------- parsing
    {
        let mut jobs = vec![];
        for (n, len) in if t { vec![(40usize, 4usize), (8, 8), (33, 1)] } else { vec![(40, 4), (8, 8)] } {
            let mut v = vec![];
            let max = (n - len) as u64;
            let mut idxs = vec![0u64, 1, max / 2, 30.min(max), 31.min(max), max];
            idxs.sort();
            idxs.dedup();
            for i in idxs {
                for (l, b) in byte_patterns(n).into_iter().take(if t { 4 } else { 2 }).skip(1) {
                    v.push(gw(format!("idx{i} {l}"), true, |w| {
                        w.nats = vec![F::from(i)];
                        w.bytes = b
                    }));
                }
            }
            for (l, x) in [("idx max+1", F::from(max + 1)), ("idx p-1", -F::ONE), ("idx 2^64", F::from(2).pow_vartime([64u64]))] {
                v.push(gw(l, false, |w| {
                    w.nats = vec![x];
                    w.bytes = (0..n).map(|i| i as u8).collect()
                }));
            }
            push(&mut jobs, GOp::FetchBytes(n, len), v);
        }
        let b64 = |items: &[(&str, bool)]| -> Vec<Wit<GW>> { items.iter().map(|(s, ok)| gw(format!("{s:?}"), *ok, |w| w.bytes = s.as_bytes().to_vec())).collect() };
        push(&mut jobs, GOp::Base64(4, true), b64(&[("QUJD", true), ("QUI=", true), ("QQ==", true), ("AAAA", true), ("////", true), ("!!!!", false), ("=AAA", false), ("\0\0\0\0", false)]));
        if t {
            push(&mut jobs, GOp::Base64(8, true), b64(&[("QUJDREVG", true), ("QUJDRA==", true), ("zzzzzzz=", true), ("QUJD====", false)]));
            push(&mut jobs, GOp::Base64(2, false), b64(&[("QQ", true), ("AA", true), ("!!", false)]));
        }
        push(&mut jobs, GOp::Base64(3, false), b64(&[("QUI", true), ("AAA", true), ("==A", false)]));
        if t {
            // the example credential of the repository (JWT payload, base64url without padding)
            if let Ok(txt) = std::fs::read_to_string("/repo/zk_stdlib/examples/identity/credentials/2k-credential") {
                if let Some(json) = txt.trim().split('.').nth(1).and_then(|p| base64::decode_config(p, base64::URL_SAFE_NO_PAD).ok()) {
                    let n = json.len();
                    let subst = |from: &str, to: &str| -> Vec<u8> { String::from_utf8_lossy(&json).replace(from, to).into_bytes() };
                    let mut v = vec![gw("example credential", true, |w| w.bytes = json.clone())];
                    for (l, from, to, ok) in [
                        ("givenName Alice->Bobby", "Alice", "Bobby", true),
                        ("nationalId 12345->00000", "\"12345\"", "\"00000\"", true),
                        ("familyName with escapes", "Wonderland", "W\\n\\t\\\\and", true),
                        ("nbf digits -> spaces+digit", "\"nbf\":1740482175", "\"nbf\":         1", true),
                        ("opening brace removed", "{\"iss\"", " \"iss\"", false),
                        ("field order changed", "\"iss\"", "\"isx\"", false),
                    ] {
                        let b = subst(from, to);
                        if b.len() == n && b != json {
                            v.push(gw(l, ok, |w| w.bytes = b));
                        }
                    }
                    v.push(gw("all zero bytes", false, |w| w.bytes = vec![0; n]));
                    push(&mut jobs, GOp::JwtParse(n), v);
                }
            }
        }
        out.push(("parsing", jobs));
    }

    // ---------------- byte hashes
    {
        let mut jobs = vec![];
        let mut lens: Vec<(HashKind, Vec<usize>)> = vec![(HashKind::Sha256, if t { vec![0, 1, 55, 56, 64, 119, 120] } else { vec![0, 56] })];
        if t {
            lens.push((HashKind::Sha512, vec![0, 1, 111, 112, 128]));
            lens.push((HashKind::Sha3, vec![0, 1, 135, 136]));
            lens.push((HashKind::Keccak, vec![0, 135, 136]));
            lens.push((HashKind::Blake2b256, vec![0, 1, 128, 129]));
        }
        for (k, ls) in lens {
            for n in ls {
                push(&mut jobs, GOp::Hash(k, n), byte_patterns(n).into_iter().map(|(l, b)| gw(l, true, |w| w.bytes = b)).collect());
            }
        }
        out.push(("hash", jobs));
    }

    // ---------------- assign_as_public_input of every exposable type
    {
        use fam::PiKind;
        let mut jobs = vec![];
        push(&mut jobs, GOp::AsPi(PiKind::Native), al.nats().iter().map(|x| gw(x.0, true, |w| w.nats = vec![x.1])).collect());
        push(&mut jobs, GOp::AsPi(PiKind::Bit), [false, true].iter().map(|b| gw(format!("{b}"), true, |w| w.bits = vec![*b])).collect());
        push(&mut jobs, GOp::AsPi(PiKind::Byte), [0u8, 1, 0x80, 0xff].iter().map(|b| gw(format!("{b}"), true, |w| w.bytes = vec![*b])).collect());
        push(&mut jobs, GOp::AsPi(PiKind::JPoint), al.jpts().iter().map(|x| gw(x.0, true, |w| w.jpts = vec![x.1])).collect());
        push(&mut jobs, GOp::AsPi(PiKind::JScalar), al.jscs().iter().map(|x| gw(x.0, true, |w| w.jscs = vec![x.1])).collect());
        push(&mut jobs, GOp::AsPi(PiKind::KScalar), al.kscs().iter().map(|x| gw(x.0, true, |w| w.kscs = vec![x.1])).collect());
        for nb in [64u32, 256] {
            push(&mut jobs, GOp::AsPi(PiKind::Big(nb)), al.bigs(nb).iter().map(|(l, b, ok)| gw(l.clone(), *ok, |w| w.bigs = vec![b.clone()])).collect());
        }
        if t {
            push(&mut jobs, GOp::AsPi(PiKind::KPoint), al.kpts().iter().map(|x| gw(x.0, true, |w| w.kpts = vec![x.1])).collect());
            push(&mut jobs, GOp::AsPi(PiKind::BPoint), al.bpts().iter().map(|x| gw(x.0, true, |w| w.bpts = vec![x.1])).collect());
        }
        out.push(("public-input", jobs));
    }

    // ---------------- map gadget
    if t {
        let mut jobs = vec![];
        let n = al.nats();
        let (k1, v1, k2, v2) = (F::from(7), F::from(70), n[4].1, n[2].1);
        let mut v = vec![];
        for (cl, content) in [("empty map", vec![]), ("1 entry", vec![k1, v1]), ("2 entries", vec![k1, v1, k2, v2]), ("key 0 set", vec![F::ZERO, v1])] {
            for (kl, key) in [("key 7", k1), ("key 0", F::ZERO), ("key rnd", k2), ("key p-1", -F::ONE)] {
                for (vl, val) in [("value 0", F::ZERO), ("value 5", F::from(5))] {
                    v.push(gw(format!("{cl}, {kl}, {vl}"), true, |w| {
                        w.nats = vec![key, val];
                        w.nats.extend(content.iter().copied())
                    }));
                }
            }
        }
        push(&mut jobs, GOp::MapGet, v.iter().step_by(2).cloned().collect());
        push(&mut jobs, GOp::MapInsert, v);
        out.push(("map", jobs));
    }

    // ---------------- variable-length hash gadgets (built from scratch): every vector length
    {
        let mut jobs: Vec<(String, Job)> = vec![];
        fn show_bytes(w: &Vec<u8>) -> String {
            format!("{} bytes: {}", w.len(), vcore::hex(w))
        }
        fn show_nats(w: &Vec<F>) -> String {
            format!("{} elements: [{}]", w.len(), w.iter().map(hex).collect::<Vec<_>>().join(","))
        }
        fn sha_wits(lens: &[usize], max: usize) -> Vec<Wit<Vec<u8>>> {
            let mut v = vec![];
            for n in lens {
                v.push(Wit { label: format!("len{n}"), w: (0..*n).map(|i| (i * 37 + 1) as u8).collect(), in_domain: *n <= max });
            }
            v
        }
        let pos_wits = |max: usize| -> Vec<Wit<Vec<F>>> {
            let nats = al.nats();
            let mut v = vec![];
            for n in 0..=max + 1 {
                v.push(Wit { label: format!("len{n}"), w: (0..n).map(|i| nats[(i + 1) % nats.len()].1).collect(), in_domain: n <= max });
            }
            v.push(Wit { label: format!("len{max} zeros"), w: vec![F::ZERO; max], in_domain: true });
            v
        };
        jobs.push(job(scratch::VarPoseidon::<2>, pos_wits(2), show_nats));
        jobs.push(job(scratch::VarPoseidon::<8>, pos_wits(8), show_nats));
        if t {
            jobs.push(job(scratch::VarPoseidon::<16>, pos_wits(16), show_nats));
        }
        if t {
            let all: Vec<usize> = (0..=65).collect();
            for (ci, ch) in all.chunks(11).enumerate() {
                jobs.push(job_keyed(format!("VarLenSha256<max 64>#{ci}"), scratch::VarSha::<64>, sha_wits(ch, 64), show_bytes));
            }
            let all: Vec<usize> = (0..=129).collect();
            for (ci, ch) in all.chunks(10).enumerate() {
                jobs.push(job_keyed(format!("VarLenSha256<max 128>#{ci}"), scratch::VarSha::<128>, sha_wits(ch, 128), show_bytes));
            }
        } else {
            jobs.push(job(scratch::VarSha::<64>, sha_wits(&[0, 1, 55, 56, 63, 64, 65], 64), show_bytes));
        }
        out.push(("varlen-hash", jobs));
    }

    // ---------------- foreign ECC (scalar multiplication only in the thorough tier)
    {
        let mut jobs = vec![];
        macro_rules! curve_jobs {
            ($c:expr, $pts:expr, $field:ident, $scs:expr, $scfield:ident, $idty:expr) => {{
                let pts = $pts;
                let each: Vec<Wit<GW>> = pts.iter().map(|p| gw(p.0, true, |w| w.$field = vec![p.1])).collect();
                push(&mut jobs, GOp::FAssign($c), each.clone());
                push(&mut jobs, GOp::FDouble($c), each.clone());
                push(&mut jobs, GOp::FNegate($c), each.clone());
                for k in [0u64, 1, 5] {
                    push(&mut jobs, GOp::FMulByConst($c, k), each.clone());
                }
                let pp = pairs(&pts, false);
                let two: Vec<Wit<GW>> = pp.iter().map(|(l, p, q)| gw(l.clone(), true, |w| w.$field = vec![*p, *q])).collect();
                push(&mut jobs, GOp::FAdd($c), two.clone());
                push(&mut jobs, GOp::FIsEqual($c), two);
                let mut sel = vec![];
                for b in [false, true] {
                    for (l, p, q) in pp.iter().take(4) {
                        sel.push(gw(format!("{}?{l}", b as u8), true, |w| {
                            w.$field = vec![*p, *q];
                            w.bits = vec![b]
                        }));
                    }
                }
                push(&mut jobs, GOp::FSelect($c), sel);
                let scs = $scs;
                let mut m = vec![];
                for (si, pi) in [(0usize, 1usize), (1, 1), (2, 1), (4, 4), (4, 0), (0, 0), (3, 2)] {
                    m.push(gw(format!("{}*{}", scs[si].0, pts[pi].0), true, |w| {
                        w.$scfield = vec![scs[si].1];
                        w.$field = vec![pts[pi].1]
                    }));
                }
                if t {
                    push(&mut jobs, GOp::FMul($c), m);
                } else if matches!($c, Curve::Secp) {
                    // quick: the scalars 0 and 1 (which the chip could be tempted to treat as
                    // constants) against a generic one
                    let mq: Vec<Wit<GW>> = [(0usize, 1usize), (1, 1), (5, 1)]
                        .into_iter()
                        .map(|(si, pi)| {
                            gw(format!("{}*{}", scs[si].0, pts[pi].0), true, |w| {
                                w.$scfield = vec![scs[si].1];
                                w.$field = vec![pts[pi].1]
                            })
                        })
                        .collect();
                    push(&mut jobs, GOp::FMul($c), mq);
                }
                // k out of n: pts = [id, G, -G, 2G, R]
                let mut kn = vec![];
                for (tl, tab) in [("G,-G,R", [1usize, 2, 4]), ("R,2G,G", [4, 3, 1])] {
                    for sel in [[0u8, 1], [0, 2], [1, 2]] {
                        kn.push(gw(format!("table {tl} select {sel:?}"), true, |w| {
                            w.$field = tab.iter().map(|i| pts[*i].1).collect();
                            w.bytes = sel.to_vec()
                        }));
                    }
                }
                kn.push(gw("table G,-G,R select [1, 0] (out of order)", false, |w| {
                    w.$field = [1usize, 2, 4].iter().map(|i| pts[*i].1).collect();
                    w.bytes = vec![1, 0]
                }));
                kn.push(gw("table G,id,R select [0, 2] (identity in table)", false, |w| {
                    w.$field = [1usize, 0, 4].iter().map(|i| pts[*i].1).collect();
                    w.bytes = vec![0, 2]
                }));
                // a table with a repeated point, selecting both copies (in order of occurrence)
                // (documented precondition — selected points in order of occurrence — holds; the constraint
                // system is satisfiable with indices 0 and 1)
                kn.push(gw("table G,G,R select [0, 1] (duplicate entries)", true, |w| {
                    w.$field = [1usize, 1, 4].iter().map(|i| pts[*i].1).collect();
                    w.bytes = vec![0, 1]
                }));
                kn.push(gw("table G,G,R select [1, 2] (duplicate entries)", true, |w| {
                    w.$field = [1usize, 1, 4].iter().map(|i| pts[*i].1).collect();
                    w.bytes = vec![1, 2]
                }));
                push(&mut jobs, GOp::FKofN($c, 3, 2), kn);
            }};
        }
        curve_jobs!(Curve::Secp, al.kpts(), kpts, al.kscs(), kscs, K256::identity());
        if t {
            curve_jobs!(Curve::Bls, al.bpts(), bpts, al.nats(), nats, G1Projective::identity());
        }
        out.push(("foreign-ecc", jobs));
    }
    out
}

// ---------------------------------------------------------------------------------------------

fn selftest(cx: &mut Ctx, cfg: &Cfg) {
    use selftest::Bad;
    let wits: Vec<Wit<(F, F)>> = [(0u64, 0u64), (0, 3), (5, 5), (7, 2)]
        .into_iter()
        .map(|(a, b)| Wit { label: format!("{a},{b}"), w: (F::from(a), F::from(b)), in_domain: true })
        .collect();
    let show = |w: &(F, F)| format!("{},{}", hex(&w.0), hex(&w.1));
    for (bad, expect) in [
        (Bad::FixedFromWitness, vec!["vk-depends-on-witness", "fixed-table-depends-on-witness"]),
        (Bad::GateIfNonZero, vec!["vk-depends-on-witness", "selectors-depend-on-witness"]),
        (Bad::CopyIfEqual, vec!["vk-depends-on-witness", "copy-constraints-depend-on-witness"]),
        (Bad::ExtraPublicInput, vec!["public-input-count-depends-on-witness"]),
        (Bad::Control, vec![]),
    ] {
        let mut out = CaseOut::batch();
        let r = vcore::in_pool(1, || {
            let mut o = CaseOut::batch();
            let rep = check_op(&bad, &wits, &show, cfg, &mut o);
            (o, rep.compared, rep.proof_done)
        });
        let (o, compared, proof_done) = r;
        let keys: Vec<String> = o.viols.iter().map(|v| v.finding_key.clone()).collect();
        for e in &expect {
            cx.require(
                keys.iter().any(|k| *k == format!("{}:{e}", OpDef::name(&bad))),
                &format!("the oracle must flag the deliberately witness-dependent operation {} with {e} (got {keys:?})", OpDef::name(&bad)),
            );
        }
        if expect.is_empty() {
            cx.require(keys.is_empty() && compared == wits.len() as u64 && proof_done, &format!("the honest control operation must pass cleanly (got {keys:?})"));
            cx.require(o.classes.iter().any(|(c, _)| c == "proof-under-unknown-witness-key:accepted"), "the control's real proof must verify");
        }
        out.evals = o.evals;
        out.distinct_nontrivial = 0;
        out.classes = o.classes.iter().map(|(c, n)| (format!("{}:{c}", if expect.is_empty() { "control" } else { "planted" }), *n)).collect();
        out.counter("selftest_flags", keys.len() as u64);
        out.sample = Some(json!({"operation": OpDef::name(&bad), "flagged_as": keys}));
        cx.record("selftest", &OpDef::name(&bad), out);
    }
}

fn main() {
    let mut cx = Ctx::from_args("C09", Level::Exploration);
    cx.worker_rayon_threads = Some(1);
    cx.set_rule(
        "subjects: (a) C04's native registry (arithmetic, linear combinations, inversion/division, zero/equality tests and assertions, \
         boolean logic, bitwise ops, canonicity, bit/byte/chunk (de)composition, sign, range checks, comparison, select/swap, \
         conversions, div_rem/rem) under pow2range configurations; (b) further families through the standard library: Jubjub \
         (assign, add, double, negate, msm 1..3, mul by constant, equality/zero tests and assertions, select, from coordinates, \
         scalar from bytes / from native), Poseidon 1..9 and hash-to-curve, SHA-256/512, SHA3, Keccak, Blake2b at padding-boundary \
         lengths, secp256k1 scalar field (foreign field chip incl. a lazily reduced chain), BigUint gadget at several bit bounds, \
         byte vectors <16,4> (assign, limits, padding flags, trim) with EVERY length 0..16, parser fetch_bytes with every index \
         class, base64, the JWT automaton, the Poseidon Merkle map, assign_as_public_input of every exposable type, foreign ECC \
         on secp256k1 and BLS12-381 (assign, add, double, negate, select, equality, mul by constant, scalar mul, k-out-of-n points); \
         (c) the variable-length SHA-256 / Poseidon gadgets built from scratch like the library's tests, with every vector length. \
         Witness set W per subject = {unknown} u {every tuple of the subject's boundary alphabet, in and out of domain} (quick: thinned). \
         One case = one (operation, static parameters, configuration): the verifying key of the circuit carrying the unknown witness \
         is the reference (generated twice: must be reproducible); one evaluation per concrete witness compares (1) keygen_vk_with_k \
         bytes + transcript_repr of the circuit carrying that witness, (2) MockProver fixed / selectors / permutation tables and the \
         number of constrained public inputs against the first concrete witness, (3) the circuit model (k, rows, table rows, ...) and \
         min_k(). Per subject one real proof made with a satisfying witness is verified under the key made without a witness \
         (standard library: setup_vk/setup_pk/prove/verify).",
    );
    cx.assume("the witness enters a relation only through Relation::circuit's `witness` argument (the harness relations never read the `instance` argument; exposed values are bound with constrain_as_public_input / assign_as_public_input)");
    cx.assume("keygen is compared at the circuit's own minimal k with a seeded SRS; a key difference that only shows at larger k is not explored");
    cx.assume("keygen's assembly never evaluates advice closures, so with a concrete witness it only exercises branches on raw input Values; branches on assigned cells' values are exercised by the MockProver comparisons (2) and linked to the unknown-witness key by the real proof (4)");
    let seed = cx.seed;
    let tier = cx.tier;
    let cfg = Cfg { seed, proof_max_k: tier.pick(11, 14) };

    selftest(&mut cx, &cfg);

    // development aid: C09_FAMILY=<name> runs a single family (the evidence then says so)
    let only = std::env::var("C09_FAMILY").ok();
    if let Some(o) = &only {
        cx.cap(format!("C09_FAMILY={o}: only this family was run"));
    }
    // one pool for everything (a family has few, unequal cases); cheap families first
    let order = ["public-input", "native", "jubjub", "poseidon", "foreign-ecc", "vector", "secp256k1-scalar", "biguint", "varlen-hash", "parsing", "hash", "map"];
    let quick_families = ["public-input", "native", "jubjub", "poseidon", "foreign-ecc", "vector", "secp256k1-scalar", "biguint", "varlen-hash", "parsing", "hash"];
    let mut groups = family_jobs(tier, seed);
    groups.push(("native", native_jobs(tier, seed)));
    groups.sort_by_key(|(n, _)| order.iter().position(|o| o == n).unwrap_or(usize::MAX));
    let mut fams = vec![];
    let mut all: Vec<(String, Job)> = vec![];
    for (name, jobs) in groups {
        if let Some(o) = &only {
            if o != name {
                continue;
            }
        } else if !tier.is_thorough() && !quick_families.contains(&name) {
            continue;
        }
        fams.push(json!({"family": name, "operations": jobs.len()}));
        for (k, j) in jobs {
            let timed: Job = Box::new(move |cfg: &Cfg| {
                let t0 = std::time::Instant::now();
                let mut o = j(cfg);
                o.counter(&format!("worker_ms[{name}]"), t0.elapsed().as_millis() as u64);
                o
            });
            all.push((format!("{name}/{k}"), timed));
        }
    }
    cx.run_cases("ops", &all, |j| j(&cfg));
    cx.extra("families", json!(fams));
    let noref = ["sizing-panic", "keygen-err", "keygen-panic"].iter().map(|c| cx.class_count(&format!("ops:no-reference:{c}"))).sum::<u64>();
    cx.note(format!("{noref} operation(s) had no reference because sizing / key generation without a witness already fails (static parameters outside the operation's contract; reported by the gadget checks)"));

    let compared = cx.counter_value("witnesses_compared");
    let proofs = cx.counter_value("real_proofs");
    if only.is_none() && cx.remaining_s() > 0.0 {
        // (not meaningful if the wall budget cut the run short: the cap is reported instead)
        cx.require(compared > 1500, "at least 1500 witness comparisons");
        cx.require(proofs > 250, "at least 250 real proofs under the unknown-witness key");
        cx.require(cx.class_count("ops:ood:mock-run-failed") + cx.class_count("ops:mock:unsat") > 50, "out-of-domain witnesses must be part of W");
        cx.require(cx.class_count("ops:same-structure") > 1500, "comparisons must succeed somewhere");
    }
    cx.finish()
}
