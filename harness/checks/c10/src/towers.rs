//! Wiring of the extension towers of BLS12-381 (blst-backed Fp2/Fp6/Fp12) and BN254
//! (generic QuadExtField / CubicExtField) to the tower model.

use std::{fmt::Debug, sync::Arc};

use ff::{Field, FromUniformBytes, PrimeField, WithSmallOrderMulGroup};
use midnight_curves::{
    ff_ext::{cubic::CubicSparseMul, quadratic::QuadSparseMul, ExtField, Legendre},
    serde::SerdeObject,
};
use num_bigint::BigUint;
use num_traits::Zero;
use serde_json::{json, Value};
use vcore::{
    big::{self, bu, from_le, hexs, pow2, to_le, Fp},
    hex, CaseOut, Ctx, Viol,
};

use crate::{
    prime::{mont_value, Cases, MAX_PANICS},
    tower::{frobenius_case, generic_tower_ops, m2_is_square, model_selfcheck, nontrivial, t_bin, t_un, tcs, tower_alphabet, Frob, ModelEl, TCtx, Tw, M12, M2, M6},
    types::{BLS_P, BN_Q},
};

/// Which alphabet members serve as right operands of binary operations.
#[derive(Clone, Copy)]
enum RhsMode {
    /// the whole alphabet
    Full,
    /// members with at most one non-zero coefficient, the dense ones and all(-1)
    Sparse,
    /// `Sparse` plus every n-th member with two non-zero coefficients
    SparsePlusEvery(usize),
}

fn mk<R, M>(cx: &mut Ctx, name: &'static str, t: &Tw, build: Box<dyn Fn(&M) -> R + Send + Sync>, mode: RhsMode) -> Arc<TCtx<R, M>>
where
    R: Field + Debug + Send + Sync + 'static,
    M: ModelEl,
{
    let alpha_m = tower_alphabet::<M>(&t.f, cx.seed, name, 2);
    let rhs: Vec<usize> = alpha_m
        .iter()
        .enumerate()
        .filter(|(i, (n, _))| match mode {
            RhsMode::Full => true,
            RhsMode::Sparse => !n.contains('+'),
            RhsMode::SparsePlusEvery(k) => !n.contains('+') || i % k == 0,
        })
        .map(|(i, _)| i)
        .collect();
    let frob = Frob::<M>::new(t, M::DEG);
    let dense: Vec<M> = alpha_m.iter().filter(|(n, _)| n.starts_with("dense")).map(|x| x.1.clone()).collect();
    let bad = model_selfcheck(t, &frob, &dense);
    cx.require(bad.is_empty(), &format!("{name}: tower model self-check ({})", bad.join(", ")));
    let alpha: Vec<(String, M, R)> = alpha_m.into_iter().map(|(n, m)| {
        let r = build(&m);
        (n, m, r)
    }).collect();
    Arc::new(TCtx { name, t: t.clone(), alpha, rhs, frob, build, thorough: cx.tier.is_thorough(), seed: cx.seed })
}

fn prime_el<F: PrimeField>(v: &BigUint) -> F {
    let mut r = F::Repr::default();
    let n = r.as_ref().len();
    r.as_mut().copy_from_slice(&to_le(v, n));
    Option::from(F::from_repr(r)).expect("canonical coefficient")
}
fn prime_big<F: PrimeField>(x: &F) -> BigUint {
    from_le(x.to_repr().as_ref())
}

fn small_m2(f: &Fp, seed: u64, tag: &str) -> Vec<M2> {
    let mut rng = vcore::rng_for(seed, &format!("c10-sparse-{tag}"));
    let r = |rng: &mut _| big::random_below(rng, &f.p);
    vec![
        M2(bu(0), bu(0)),
        M2(bu(1), bu(0)),
        M2(&f.p - 1u32, bu(0)),
        M2(bu(0), bu(1)),
        M2(bu(0), &f.p - 1u32),
        M2(&f.p - 1u32, &f.p - 1u32),
        M2(r(&mut rng), r(&mut rng)),
    ]
}

fn dm<M: ModelEl>(a: &M) -> Value {
    json!({"a": a.hex()})
}

/// Quadratic-extension extras that only need a coefficient extractor: sqrt, Legendre-type
/// predicates, norm, ordering, the `PrimeField` facet (to_repr / from_repr / is_odd / constants).
#[allow(clippy::too_many_arguments)]
fn quad_extras<R, B>(
    tc: &Arc<TCtx<R, M2>>,
    coeffs: fn(&R) -> M2,
    norm: fn(&R) -> B,
    legendre: fn(&R) -> i64,
    zeta: R,
    cw: usize,
) -> Cases
where
    R: PrimeField + Ord + Debug + Send + Sync + 'static,
    B: PrimeField,
{
    let mut c: Cases = vec![];
    c.push(tcs(tc, "accessors", move |tc, out| {
        for (_, a, x) in &tc.alpha {
            out.eval("accessors:ok", nontrivial(a));
            if coeffs(x) != *a {
                out.viol(Viol::new(tc.key("accessors", "mismatch"), "coefficient accessors do not return the coefficients the element was built from", dm(a)));
            }
        }
    }));
    c.push(tcs(tc, "sqrt", move |tc, out| {
        let mut panics = 0;
        for (_, a, x) in &tc.alpha {
            if panics >= MAX_PANICS {
                break;
            }
            let Some(r) = tc.guard(out, "sqrt", &mut panics, || dm(a), || Option::<R>::from(x.sqrt())) else { continue };
            let sq = a.is_zero() || m2_is_square(&tc.t, a);
            match (r, sq) {
                (Some(r), true) => {
                    out.eval("sqrt:some", nontrivial(a));
                    let rm = coeffs(&r);
                    if M2::sqr(&tc.t, &rm) != *a {
                        out.viol(Viol::new(tc.key("sqrt", "mismatch"), "sqrt returned r with r^2 != a", json!({"a": a.hex(), "r": rm.hex()})));
                    }
                }
                (None, false) => out.eval("sqrt:none", true),
                (Some(_), false) => {
                    out.eval("sqrt:some", true);
                    out.viol(Viol::new(tc.key("sqrt", "some-for-undefined"), "sqrt returned Some for a non-square", dm(a)));
                }
                (None, true) => {
                    out.eval("sqrt:none", true);
                    out.viol(Viol::new(tc.key("sqrt", "none-for-defined"), "sqrt returned None for a square", dm(a)));
                }
            }
        }
    }));
    c.push(tcs(tc, "legendre", move |tc, out| {
        let mut panics = 0;
        for (_, a, x) in &tc.alpha {
            if panics >= MAX_PANICS {
                break;
            }
            let Some(r) = tc.guard(out, "legendre", &mut panics, || dm(a), || legendre(x)) else { continue };
            let e: i64 = if a.is_zero() { 0 } else if m2_is_square(&tc.t, a) { 1 } else { -1 };
            out.eval(&format!("legendre:{e}"), nontrivial(a));
            if r != e {
                out.viol(Viol::new(tc.key("legendre", "mismatch"), format!("legendre = {r}, model says {e}"), dm(a)));
            }
        }
    }));
    c.push(tcs(tc, "norm", move |tc, out| {
        let mut panics = 0;
        for (_, a, x) in &tc.alpha {
            if panics >= MAX_PANICS {
                break;
            }
            let Some(r) = tc.guard(out, "norm", &mut panics, || dm(a), || prime_big(&norm(x))) else { continue };
            let f = &tc.t.f;
            let e = f.add(&f.sqr(&a.0), &f.sqr(&a.1));
            out.eval("norm:ok", nontrivial(a));
            if r != e {
                out.viol(Viol::new(tc.key("norm", "mismatch"), "norm != c0^2 + c1^2", json!({"a": a.hex(), "got": hexs(&r)})));
            }
        }
    }));
    c.push(tcs(tc, "ord", move |tc, out| {
        let mut panics = 0;
        'outer: for (_, a, x) in &tc.alpha {
            for j in &tc.rhs {
                let (_, b, y) = &tc.alpha[*j];
                if panics >= MAX_PANICS {
                    break 'outer;
                }
                let Some(r) = tc.guard(out, "ord", &mut panics, || json!({"a": a.hex(), "b": b.hex()}), || (x.cmp(y), x.partial_cmp(y))) else { continue };
                // documented: lexicographic, c1 most significant
                let e = (&a.1, &a.0).cmp(&(&b.1, &b.0));
                out.eval(&format!("ord:{e:?}"), a != b);
                if r.0 != e || r.1 != Some(e) {
                    out.viol(Viol::new(tc.key("ord", "mismatch"), format!("Ord says {:?}, lexicographic (c1, c0) order says {e:?}", r.0), json!({"a": a.hex(), "b": b.hex()})));
                }
            }
        }
    }));
    // ---- PrimeField facet
    c.push(tcs(tc, "to_repr", move |tc, out| {
        let mut panics = 0;
        for (_, a, x) in &tc.alpha {
            if panics >= MAX_PANICS {
                break;
            }
            let Some((r, odd)) = tc.guard(out, "to_repr", &mut panics, || dm(a), || (x.to_repr(), bool::from(x.is_odd()))) else { continue };
            out.eval("to_repr:ok", nontrivial(a));
            let mut e = to_le(&a.0, cw);
            e.extend(to_le(&a.1, cw));
            if r.as_ref() != &e[..] {
                out.viol(Viol::new(tc.key("to_repr", "mismatch"), "to_repr is not c0 || c1 little-endian", dm(a)));
            }
            if odd != a.0.bit(0) {
                out.viol(Viol::new(tc.key("is_odd", "mismatch"), "is_odd is not the parity of c0 (the least significant bit of the encoding)", dm(a)));
            }
            if let Some(back) = tc.guard(out, "from_repr", &mut panics, || dm(a), || Option::<R>::from(R::from_repr(r))) {
                if back != Some(*x) {
                    out.viol(Viol::new(tc.key("from_repr", "roundtrip"), "from_repr(to_repr(x)) != x", dm(a)));
                }
            }
        }
    }));
    c.push(tcs(tc, "from_repr", move |tc, out| {
        quad_decoder(tc, out, "from_repr", cw, |b| {
            let mut r = R::Repr::default();
            r.as_mut().copy_from_slice(b);
            Option::from(R::from_repr(r))
        }, |_, v| v.clone());
    }));
    c.push(tcs(tc, "primefield-constants", move |tc, out| {
        let t = &tc.t;
        let p = &t.f.p;
        let name = tc.name;
        let fail = |out: &mut CaseOut, what: &str, msg: &str, d: Value| out.viol(Viol::new(format!("{name}:const:{what}"), msg.to_string(), d));
        let one = M2::one();
        out.eval("const:TWO_INV", true);
        let ti = coeffs(&R::TWO_INV);
        if M2::add(t, &ti, &ti) != one {
            fail(out, "TWO_INV", "2 * TWO_INV != 1", json!({"two_inv": ti.hex()}));
        }
        out.eval("const:ZETA", true);
        let z = coeffs(&zeta);
        if z == one || M2::mul(t, &M2::sqr(t, &z), &z) != one {
            fail(out, "ZETA", "ZETA does not have multiplicative order 3", json!({"zeta": z.hex()}));
        }
        out.eval("const:ZERO-ONE", true);
        if coeffs(&R::ZERO) != M2::zero() || coeffs(&R::ONE) != one {
            fail(out, "ZERO-ONE", "ZERO/ONE are not 0/1", json!({}));
        }
        let g = coeffs(&R::MULTIPLICATIVE_GENERATOR);
        let rou = coeffs(&R::ROOT_OF_UNITY);
        let rou_inv = coeffs(&R::ROOT_OF_UNITY_INV);
        let delta = coeffs(&R::DELTA);
        let s = R::S;
        out.eval("const:GENERATOR", true);
        // "a fixed multiplicative generator ... must also be a quadratic nonresidue": in a field
        // with p^2 elements that is g^((p^2-1)/2) != 1
        let n = p * p - 1u32;
        if M2::pow(t, &g, &(&n >> 1)) == one {
            fail(out, "GENERATOR", "MULTIPLICATIVE_GENERATOR^((p^2-1)/2) == 1: it is a square of this field, hence not a generator", json!({"generator": g.hex()}));
        }
        out.eval("const:ROOT_OF_UNITY", true);
        if rou.is_zero() || M2::pow(t, &rou, &pow2(s)) != one {
            fail(out, "ROOT_OF_UNITY", "ROOT_OF_UNITY is not a 2^S-th root of unity", json!({"root_of_unity": rou.hex(), "S": s}));
        }
        out.eval("const:ROOT_OF_UNITY_INV", true);
        if M2::mul(t, &rou, &rou_inv) != one {
            fail(out, "ROOT_OF_UNITY_INV", "ROOT_OF_UNITY * ROOT_OF_UNITY_INV != 1", json!({"root_of_unity": rou.hex(), "inv": rou_inv.hex()}));
        }
        out.eval("const:DELTA", true);
        if M2::pow(t, &g, &pow2(s)) != delta {
            fail(out, "DELTA", "DELTA != MULTIPLICATIVE_GENERATOR^(2^S)", json!({"delta": delta.hex(), "S": s}));
        }
        out.eval("const:MODULUS", true);
        let ms = R::MODULUS.trim_start_matches("0x");
        if BigUint::parse_bytes(ms.as_bytes(), 16).as_ref() != Some(p) {
            fail(out, "MODULUS", "MODULUS is not the characteristic", json!({"modulus": R::MODULUS}));
        }
    }));
    c
}

/// Checked decoder of a quadratic extension whose input is two coefficient encodings of `cw`
/// bytes each: accept iff both integers are < p.
fn quad_decoder<R, MM>(
    tc: &TCtx<R, M2>,
    out: &mut CaseOut,
    op: &str,
    cw: usize,
    real: impl Fn(&[u8]) -> Option<R>,
    value_of: MM,
) where
    R: Field + Debug + Send + Sync + 'static,
    MM: Fn(&Fp, &BigUint) -> BigUint,
{
    let p = &tc.t.f.p;
    let top = pow2(8 * cw as u32);
    let vals: Vec<(&str, BigUint)> = vec![
        ("0", bu(0)),
        ("1", bu(1)),
        ("p-1", p - 1u32),
        ("p", p.clone()),
        ("p+1", p + 1u32),
        ("2p", (p * 2u32) % &top),
        ("all-ff", &top - 1u32),
        ("top-bit", pow2(8 * cw as u32 - 1)),
    ];
    let mut panics = 0;
    for (n0, v0) in &vals {
        for (n1, v1) in &vals {
            if panics >= MAX_PANICS {
                return;
            }
            let mut bytes = to_le(v0, cw);
            bytes.extend(to_le(v1, cw));
            let canonical = v0 < p && v1 < p;
            let dd = || json!({"c0": n0, "c1": n1, "bytes": hex(&bytes), "canonical": canonical});
            let r = match vcore::catch(|| real(&bytes)) {
                Ok(r) => r,
                Err(pm) => {
                    panics += 1;
                    out.eval(&format!("{op}:panic"), true);
                    let kind = if canonical { "panic" } else { "panic-on-noncanonical" };
                    out.viol(Viol::new(tc.key(op, kind), format!("{op} panicked instead of returning a verdict: {pm}"), dd()));
                    continue;
                }
            };
            match (r, canonical) {
                (Some(x), true) => {
                    out.eval(&format!("{op}:accept"), true);
                    let e = M2(value_of(&tc.t.f, v0), value_of(&tc.t.f, v1));
                    tc.check(out, op, &x, &e, dd);
                }
                (None, false) => out.eval(&format!("{op}:reject"), true),
                (Some(_), false) => {
                    out.eval(&format!("{op}:accept-noncanonical"), true);
                    out.viol(Viol::new(tc.key(op, "accepts-noncanonical"), format!("{op} accepted a coefficient encoding >= p"), dd()));
                }
                (None, true) => {
                    out.eval(&format!("{op}:reject-canonical"), true);
                    out.viol(Viol::new(tc.key(op, "rejects-canonical"), format!("{op} rejected canonical coefficient encodings"), dd()));
                }
            }
        }
    }
}

fn json_roundtrip<R, M>(tc: &Arc<TCtx<R, M>>) -> (String, crate::prime::Case)
where
    R: Field + Debug + Send + Sync + serde::Serialize + serde::de::DeserializeOwned + 'static,
    M: ModelEl,
{
    tcs(tc, "serde-json-roundtrip", |tc, out| {
        let mut panics = 0;
        for i in &tc.rhs {
            let (_, a, x) = &tc.alpha[*i];
            if panics >= MAX_PANICS {
                break;
            }
            let Some(r) = tc.guard(out, "serde-json", &mut panics, || dm(a), || {
                let s = serde_json::to_string(x).ok()?;
                serde_json::from_str::<R>(&s).ok()
            }) else {
                continue;
            };
            out.eval("serde-json:roundtrip", nontrivial(a));
            if r != Some(*x) {
                out.viol(Viol::new(tc.key("serde-json", "roundtrip"), "deserialize(serialize(x)) != x", dm(a)));
            }
        }
    })
}

pub fn run_towers(cx: &mut Ctx) {
    bls_towers(cx);
    bn_towers(cx);
}

// ---------------------------------------------------------------------------------------------
// BLS12-381
// ---------------------------------------------------------------------------------------------

fn bls_towers(cx: &mut Ctx) {
    use midnight_curves::{
        bls12_381::{Fp12, Fp2, Fp6},
        Fp as BFp,
    };
    let f = Fp::new(big::parse_hex(BLS_P));
    let t = Tw { f: f.clone(), xi: M2(bu(1), bu(1)) };
    fn fp(v: &BigUint) -> midnight_curves::Fp {
        prime_el(v)
    }
    fn fp2(m: &M2) -> Fp2 {
        Fp2::new(fp(&m.0), fp(&m.1))
    }
    fn fp6(m: &M6) -> Fp6 {
        Fp6::new(fp2(&m.0[0]), fp2(&m.0[1]), fp2(&m.0[2]))
    }
    fn fp12(m: &M12) -> Fp12 {
        Fp12::new(fp6(&m.0[0]), fp6(&m.0[1]))
    }
    fn m2(x: &Fp2) -> M2 {
        M2(prime_big(&x.c0()), prime_big(&x.c1()))
    }
    fn m6(x: &Fp6) -> M6 {
        M6([m2(&x.c0()), m2(&x.c1()), m2(&x.c2())])
    }
    fn m12(x: &Fp12) -> M12 {
        M12([m6(&x.c0()), m6(&x.c1())])
    }
    let thorough = cx.tier.is_thorough();

    // ---- Fp2
    let tc = mk::<Fp2, M2>(cx, "bls12-381-Fp2", &t, Box::new(fp2), RhsMode::Full);
    let mut c = generic_tower_ops(&tc, true);
    c.extend(quad_extras::<Fp2, BFp>(&tc, m2, |x| x.norm(), |x| x.legendre(), <Fp2 as WithSmallOrderMulGroup<3>>::ZETA, 48));
    c.push(t_un(&tc, "mul_by_nonresidue", |a| {
        let mut t = *a;
        t.mul_by_nonresidue();
        t
    }, |tc, a| tc.t.mul_xi(a)));
    c.push(frobenius_case(&tc, 5, |x, k| {
        let mut t = *x;
        t.frobenius_map(k);
        t
    }));
    c.push(t_un(&tc, "mul3", |a| a.mul3(), |tc, a| M2::scale(&tc.t, a, &bu(3))));
    c.push(t_un(&tc, "mul8", |a| a.mul8(), |tc, a| M2::scale(&tc.t, a, &bu(8))));
    for k in [1usize, 2, 3, 64, 65] {
        let opn: &'static str = Box::leak(format!("shl({k})").into_boxed_str());
        c.push(t_un(&tc, opn, move |a| a.shl(k), move |tc, a| M2::scale(&tc.t, a, &tc.t.f.pow(&bu(2), &bu(k as u64)))));
    }
    c.push(t_un(&tc, "neg-ref", |a| -a, |tc, a| M2::neg(&tc.t, a)));
    c.push(t_bin(&tc, "ref-ops", vec![("(&a+&b)-&b", Box::new(|a: &Fp2, b: &Fp2| &(a + b) - b)), ("(&a*&b)+a-(a*b)", Box::new(|a: &Fp2, b: &Fp2| &(&(a * b) + a) - &(*a * *b)))], |_, a, _| a.clone()));
    c.push(tcs(&tc, "is_quad_res", |tc, out| {
        let mut panics = 0;
        for (_, a, x) in &tc.alpha {
            let Some(r) = tc.guard(out, "is_quad_res", &mut panics, || dm(a), || (x.is_quad_res(), bool::from(x.ct_quadratic_residue()), bool::from(x.ct_quadratic_non_residue()))) else { continue };
            let e = a.is_zero() || m2_is_square(&tc.t, a);
            out.eval(&format!("is_quad_res:{e}"), nontrivial(a));
            if r != (e, e, !e) {
                out.viol(Viol::new(tc.key("is_quad_res", "mismatch"), "quadratic-residue predicates disagree with the model", dm(a)));
            }
        }
    }));
    c.push(tcs(&tc, "embeddings", |tc, out| {
        let p = &tc.t.f.p;
        for v in [bu(0), bu(1), p - 1u32, pow2(64) - 1u32] {
            out.eval("embeddings:ok", true);
            tc.check(out, "from-Fp", &Fp2::from(fp(&v)), &M2(v.clone(), bu(0)), || json!({"v": hexs(&v)}));
        }
        for v in [0u64, 1, u64::MAX] {
            tc.check(out, "from-u64", &Fp2::from(v), &M2(BigUint::from(v), bu(0)), || json!({"v": v}));
        }
        tc.check(out, "default", &Fp2::default(), &M2::zero(), || json!({}));
    }));
    c.push(tcs(&tc, "write_raw", |tc, out| {
        let mut panics = 0;
        let r = pow2(384) % &tc.t.f.p;
        for (_, a, x) in &tc.alpha {
            let Some(w) = tc.guard(out, "write_raw", &mut panics, || dm(a), || {
                let mut v = vec![];
                x.write_raw(&mut v).unwrap();
                v
            }) else {
                continue;
            };
            out.eval("write_raw:ok", nontrivial(a));
            let mut e = to_le(&tc.t.f.mul(&a.0, &r), 48);
            e.extend(to_le(&tc.t.f.mul(&a.1, &r), 48));
            if w != e {
                out.viol(Viol::new(tc.key("write_raw", "mismatch"), "write_raw is not the Montgomery limbs of c0 || c1", dm(a)));
            }
        }
    }));
    c.push(json_roundtrip(&tc));
    c.push(tcs(&tc, "serde-json-deserialize", |tc, out| {
        let limb_doc = |v: &BigUint| {
            let l: Vec<String> = to_le(v, 48).chunks(8).map(|c| u64::from_le_bytes(c.try_into().unwrap()).to_string()).collect();
            format!("[{}]", l.join(","))
        };
        quad_decoder(tc, out, "serde-json-deserialize", 48, |b| {
            let doc = format!("{{\"c0\":{},\"c1\":{}}}", limb_doc(&from_le(&b[..48])), limb_doc(&from_le(&b[48..])));
            serde_json::from_str::<Fp2>(&doc).ok()
        }, |_, v| v.clone());
    }));
    cx.run_cases("bls12-381-Fp2", &c, |k| k());

    // ---- Fp6
    let tc = mk::<Fp6, M6>(cx, "bls12-381-Fp6", &t, Box::new(fp6), RhsMode::Full);
    let mut c = generic_tower_ops(&tc, false);
    c.push(t_un(&tc, "mul_by_nonresidue", |a| {
        let mut t = *a;
        t.mul_by_nonresidue();
        t
    }, |tc, a| tc.t.mul_v(a)));
    c.push(frobenius_case(&tc, 7, |x, k| {
        let mut t = *x;
        t.frobenius_map(k);
        t
    }));
    c.push(t_un(&tc, "neg-ref", |a| -a, |tc, a| M6::neg(&tc.t, a)));
    c.push(tcs(&tc, "accessors", |tc, out| {
        for (_, a, x) in &tc.alpha {
            out.eval("accessors:ok", nontrivial(a));
            if m6(x) != *a || Fp6::new(x.c0(), x.c1(), x.c2()) != *x {
                out.viol(Viol::new(tc.key("accessors", "mismatch"), "c0()/c1()/c2() do not return the coefficients", dm(a)));
            }
        }
    }));
    c.push(tcs(&tc, "embeddings", |tc, out| {
        let p = &tc.t.f.p;
        let z2 = M2::zero();
        for v in [bu(0), bu(1), p - 1u32] {
            out.eval("embeddings:ok", true);
            tc.check(out, "from-Fp", &Fp6::from(fp(&v)), &M6([M2(v.clone(), bu(0)), z2.clone(), z2.clone()]), || json!({"v": hexs(&v)}));
            let e2 = M2(v.clone(), p - 1u32);
            tc.check(out, "from-Fp2", &Fp6::from(fp2(&e2)), &M6([e2.clone(), z2.clone(), z2.clone()]), || json!({"v": hexs(&v)}));
        }
        tc.check(out, "from-u64", &Fp6::from(u64::MAX), &M6([M2(BigUint::from(u64::MAX), bu(0)), z2.clone(), z2.clone()]), || json!({}));
        tc.check(out, "default", &Fp6::default(), &M6::zero(), || json!({}));
    }));
    c.push(json_roundtrip(&tc));
    cx.run_cases("bls12-381-Fp6", &c, |k| k());

    // ---- Fp12
    let tc = mk::<Fp12, M12>(cx, "bls12-381-Fp12", &t, Box::new(fp12), if thorough { RhsMode::SparsePlusEvery(3) } else { RhsMode::SparsePlusEvery(25) });
    let mut c = generic_tower_ops(&tc, false);
    c.push(frobenius_case(&tc, 13, |x, k| {
        let mut t = *x;
        t.frobenius_map(k);
        t
    }));
    c.push(t_un(&tc, "conjugate", |a| {
        let mut t = *a;
        t.conjugate();
        t
    }, |tc, a| M12([a.0[0].clone(), M6::neg(&tc.t, &a.0[1])])));
    c.push(t_un(&tc, "neg-ref", |a| -a, |tc, a| M12::neg(&tc.t, a)));
    c.push(tcs(&tc, "accessors", |tc, out| {
        for (_, a, x) in &tc.alpha {
            out.eval("accessors:ok", nontrivial(a));
            if m12(x) != *a || Fp12::new(x.c0(), x.c1()) != *x {
                out.viol(Viol::new(tc.key("accessors", "mismatch"), "c0()/c1() do not return the coefficients", dm(a)));
            }
        }
    }));
    c.push(tcs(&tc, "embeddings", |tc, out| {
        let p = &tc.t.f.p;
        let z6 = M6::zero();
        let z2 = M2::zero();
        let v = p - 1u32;
        out.eval("embeddings:ok", true);
        tc.check(out, "from-Fp", &Fp12::from(fp(&v)), &M12([M6([M2(v.clone(), bu(0)), z2.clone(), z2.clone()]), z6.clone()]), || json!({}));
        let e2 = M2(bu(1), v.clone());
        tc.check(out, "from-Fp2", &Fp12::from(fp2(&e2)), &M12([M6([e2.clone(), z2.clone(), z2.clone()]), z6.clone()]), || json!({}));
        let e6 = M6([e2.clone(), z2.clone(), e2.clone()]);
        tc.check(out, "from-Fp6", &Fp12::from(fp6(&e6)), &M12([e6.clone(), z6.clone()]), || json!({}));
        tc.check(out, "default", &Fp12::default(), &M12::zero(), || json!({}));
    }));
    c.push(json_roundtrip(&tc));
    cx.run_cases("bls12-381-Fp12", &c, |k| k());
}

// ---------------------------------------------------------------------------------------------
// BN254
// ---------------------------------------------------------------------------------------------

fn bn_towers(cx: &mut Ctx) {
    use midnight_curves::bn256::{Fq, Fq12, Fq2, Fq6};
    let f = Fp::new(big::parse_hex(BN_Q));
    let t = Tw { f: f.clone(), xi: M2(bu(9), bu(1)) };
    fn fq(v: &BigUint) -> Fq {
        prime_el(v)
    }
    fn fq2(m: &M2) -> Fq2 {
        Fq2::new(fq(&m.0), fq(&m.1))
    }
    fn fq6(m: &M6) -> Fq6 {
        Fq6::new(fq2(&m.0[0]), fq2(&m.0[1]), fq2(&m.0[2]))
    }
    fn fq12(m: &M12) -> Fq12 {
        Fq12::new(fq6(&m.0[0]), fq6(&m.0[1]))
    }
    fn m2(x: &Fq2) -> M2 {
        let b = x.to_bytes();
        M2(from_le(&b[..32]), from_le(&b[32..]))
    }
    let thorough = cx.tier.is_thorough();
    let seed = cx.seed;

    // ---- Fq2
    let tc = mk::<Fq2, M2>(cx, "bn254-Fq2", &t, Box::new(fq2), RhsMode::Full);
    let mut c = generic_tower_ops(&tc, true);
    c.extend(quad_extras::<Fq2, Fq>(&tc, m2, |x| x.norm(), |x| x.legendre(), <Fq2 as WithSmallOrderMulGroup<3>>::ZETA, 32));
    c.push(t_un(&tc, "mul_by_nonresidue", |a| a.mul_by_nonresidue(), |tc, a| tc.t.mul_xi(a)));
    c.push(tcs(&tc, "NON_RESIDUE", |tc, out| {
        out.eval("NON_RESIDUE:ok", true);
        tc.check(out, "NON_RESIDUE", &<Fq2 as ExtField>::NON_RESIDUE, &tc.t.xi, || json!({}));
    }));
    c.push(frobenius_case(&tc, 5, |x, k| {
        let mut t = *x;
        t.frobenius_map(k);
        t
    }));
    c.push(t_bin(
        &tc,
        "inherent-arith",
        vec![
            ("add", Box::new(|a: &Fq2, b: &Fq2| Fq2::add(a, b))),
            ("sub+2b", Box::new(|a: &Fq2, b: &Fq2| Fq2::add(&Fq2::add(&Fq2::sub(a, b), b), b))),
            ("&a+&b", Box::new(|a: &Fq2, b: &Fq2| a + b)),
        ],
        |t, a, b| M2::add(t, a, b),
    ));
    c.push(t_bin(
        &tc,
        "inherent-mul",
        vec![
            ("mul", Box::new(|a: &Fq2, b: &Fq2| Fq2::mul(a, b))),
            ("mul_assign", Box::new(|a: &Fq2, b: &Fq2| {
                let mut t = *a;
                Fq2::mul_assign(&mut t, b);
                t
            })),
            ("&a*&b", Box::new(|a: &Fq2, b: &Fq2| a * b)),
        ],
        |t, a, b| M2::mul(t, a, b),
    ));
    c.push(t_un(&tc, "inherent-square", |a| {
        let mut t = *a;
        Fq2::square_assign(&mut t);
        assert!(t == Fq2::square(a), "square_assign != square");
        t
    }, |tc, a| M2::sqr(&tc.t, a)));
    c.push(t_un(&tc, "inherent-neg-double", |a| Fq2::double(&Fq2::neg(a)), |tc, a| M2::neg(&tc.t, &M2::add(&tc.t, a, a))));
    c.push(t_un(&tc, "conjugate", |a| {
        let mut t = *a;
        t.conjugate();
        t
    }, |tc, a| M2(a.0.clone(), tc.t.f.neg(&a.1))));
    c.push(tcs(&tc, "lexicographically_largest", |tc, out| {
        let half: BigUint = (&tc.t.f.p - 1u32) >> 1;
        let mut panics = 0;
        let edge = [bu(0), bu(1), half.clone(), &half + 1u32, &tc.t.f.p - 1u32];
        let mut els: Vec<(M2, Fq2)> = tc.alpha.iter().map(|a| (a.1.clone(), a.2)).collect();
        for c0 in &edge {
            for c1 in &edge {
                let m = M2(c0.clone(), c1.clone());
                let x = tc.el(&m);
                els.push((m, x));
            }
        }
        for (a, x) in &els {
            let Some(r) = tc.guard(out, "lexicographically_largest", &mut panics, || dm(a), || bool::from(x.lexicographically_largest())) else { continue };
            let e = a.1 > half || (a.1.is_zero() && a.0 > half);
            out.eval(&format!("lexicographically_largest:{e}"), nontrivial(a));
            if r != e {
                out.viol(Viol::new(tc.key("lexicographically_largest", "mismatch"), "lexicographically_largest disagrees with the model", dm(a)));
            }
        }
    }));
    c.push(tcs(&tc, "to_bytes", |tc, out| {
        for (_, a, x) in &tc.alpha {
            out.eval("to_bytes:ok", nontrivial(a));
            let mut e = to_le(&a.0, 32);
            e.extend(to_le(&a.1, 32));
            if x.to_bytes()[..] != e[..] {
                out.viol(Viol::new(tc.key("to_bytes", "mismatch"), "to_bytes is not c0 || c1 little-endian", dm(a)));
            }
        }
    }));
    c.push(tcs(&tc, "from_bytes", |tc, out| {
        quad_decoder(tc, out, "from_bytes", 32, |b| Option::from(Fq2::from_bytes(&<[u8; 64]>::try_from(b).unwrap())), |_, v| v.clone());
    }));
    c.push(tcs(&tc, "EndianRepr::from_bytes", |tc, out| {
        use midnight_curves::serde::endian::EndianRepr;
        quad_decoder(tc, out, "EndianRepr::from_bytes", 32, |b| Option::from(<Fq2 as EndianRepr>::from_bytes(b)), |_, v| v.clone());
        for (_, a, x) in &tc.alpha {
            let mut e = to_le(&a.0, 32);
            e.extend(to_le(&a.1, 32));
            if <Fq2 as EndianRepr>::to_bytes(x) != e {
                out.viol(Viol::new(tc.key("EndianRepr::to_bytes", "mismatch"), "EndianRepr::to_bytes is not c0 || c1 little-endian", dm(a)));
            }
        }
    }));
    c.push(tcs(&tc, "from_raw_bytes", |tc, out| {
        quad_decoder(tc, out, "from_raw_bytes", 32, |b| Fq2::from_raw_bytes(b), |m, v| mont_value(m, 4, v));
    }));
    c.push(tcs(&tc, "read_raw", |tc, out| {
        quad_decoder(tc, out, "read_raw", 32, |b| {
            let mut rd: &[u8] = b;
            Fq2::read_raw(&mut rd).ok()
        }, |m, v| mont_value(m, 4, v));
    }));
    c.push(tcs(&tc, "raw-roundtrip", |tc, out| {
        let mut panics = 0;
        let r = pow2(256) % &tc.t.f.p;
        for (_, a, x) in &tc.alpha {
            let Some(raw) = tc.guard(out, "to_raw_bytes", &mut panics, || dm(a), || x.to_raw_bytes()) else { continue };
            out.eval("raw:roundtrip", nontrivial(a));
            let mut e = to_le(&tc.t.f.mul(&a.0, &r), 32);
            e.extend(to_le(&tc.t.f.mul(&a.1, &r), 32));
            if raw != e {
                out.viol(Viol::new(tc.key("to_raw_bytes", "mismatch"), "to_raw_bytes is not the Montgomery limbs of c0 || c1", dm(a)));
            }
            let back = tc.guard(out, "raw-roundtrip", &mut panics, || dm(a), || {
                let mut r1: &[u8] = &raw;
                let mut w = vec![];
                x.write_raw(&mut w).unwrap();
                (Fq2::from_raw_bytes(&raw), Fq2::from_raw_bytes_unchecked(&raw), Fq2::read_raw_unchecked(&mut r1), w)
            });
            if let Some((b1, b2, b3, w)) = back {
                if b1 != Some(*x) || b2 != *x || b3 != *x || w != raw {
                    out.viol(Viol::new(tc.key("raw-roundtrip", "mismatch"), "a raw entry point does not invert to_raw_bytes", dm(a)));
                }
            }
        }
    }));
    c.push(tcs(&tc, "from_uniform_bytes<96>", |tc, out| {
        // as implemented: c0 = reduce_le(bytes[48..96]), c1 = reduce_le(bytes[0..48])
        let mut panics = 0;
        let mut inputs: Vec<(String, Vec<u8>)> = vec![("zero".into(), vec![0u8; 96]), ("all-ff".into(), vec![0xffu8; 96])];
        for bit in 0..(96 * 8) {
            let mut b = vec![0u8; 96];
            b[bit / 8] |= 1 << (bit % 8);
            inputs.push((format!("bit{bit}"), b));
        }
        let mut rng = vcore::rng_for(tc.seed, "c10-bn-fq2-uniform");
        for i in 0..8 {
            let mut b = vec![0u8; 96];
            rand_core::RngCore::fill_bytes(&mut rng, &mut b);
            inputs.push((format!("seeded{i}"), b));
        }
        for (label, b) in &inputs {
            if panics >= MAX_PANICS {
                break;
            }
            let dd = || json!({"input": label, "bytes": hex(b)});
            let Some(r) = tc.guard(out, "from_uniform_bytes<96>", &mut panics, dd, || <Fq2 as FromUniformBytes<96>>::from_uniform_bytes(&<[u8; 96]>::try_from(&b[..]).unwrap())) else { continue };
            out.eval("uniform:ok", true);
            let e = M2(tc.t.f.red(&from_le(&b[48..])), tc.t.f.red(&from_le(&b[..48])));
            tc.check(out, "from_uniform_bytes<96>", &r, &e, dd);
        }
    }));
    c.push(json_roundtrip(&tc));
    cx.run_cases("bn254-Fq2", &c, |k| k());

    // ---- Fq6
    let tc = mk::<Fq6, M6>(cx, "bn254-Fq6", &t, Box::new(fq6), RhsMode::Full);
    let mut c = generic_tower_ops(&tc, false);
    c.push(t_un(&tc, "mul_by_nonresidue", |a| a.mul_by_nonresidue(), |tc, a| tc.t.mul_v(a)));
    c.push(tcs(&tc, "NON_RESIDUE", |tc, out| {
        out.eval("NON_RESIDUE:ok", true);
        tc.check(out, "NON_RESIDUE", &<Fq6 as ExtField>::NON_RESIDUE, &M6::generator(), || json!({}));
    }));
    c.push(frobenius_case(&tc, 7, |x, k| {
        let mut t = *x;
        t.frobenius_map(k);
        t
    }));
    c.push(t_bin(
        &tc,
        "inherent-arith",
        vec![("add", Box::new(|a: &Fq6, b: &Fq6| Fq6::add(a, b))), ("sub+2b", Box::new(|a: &Fq6, b: &Fq6| Fq6::add(&Fq6::add(&Fq6::sub(a, b), b), b))), ("&a+&b", Box::new(|a: &Fq6, b: &Fq6| a + b))],
        |t, a, b| M6::add(t, a, b),
    ));
    c.push(t_bin(
        &tc,
        "inherent-mul",
        vec![
            ("mul", Box::new(|a: &Fq6, b: &Fq6| Fq6::mul(a, b))),
            ("mul_assign", Box::new(|a: &Fq6, b: &Fq6| {
                let mut t = *a;
                Fq6::mul_assign(&mut t, b);
                t
            })),
            ("&a*&b", Box::new(|a: &Fq6, b: &Fq6| a * b)),
        ],
        |t, a, b| M6::mul(t, a, b),
    ));
    c.push(t_un(&tc, "inherent-square", |a| {
        let mut t = *a;
        Fq6::square_assign(&mut t);
        assert!(t == Fq6::square(a), "square_assign != square");
        t
    }, |tc, a| M6::sqr(&tc.t, a)));
    c.push(t_un(&tc, "inherent-neg-double", |a| Fq6::double(&Fq6::neg(a)), |tc, a| M6::neg(&tc.t, &M6::add(&tc.t, a, a))));
    let sm = small_m2(&f, seed, "fq6");
    let sm1 = sm.clone();
    c.push(tcs(&tc, "mul_by_1", move |tc, out| {
        let mut panics = 0;
        'outer: for i in &tc.rhs {
            let (_, a, x) = &tc.alpha[*i];
            for c1 in &sm1 {
                if panics >= MAX_PANICS {
                    break 'outer;
                }
                let dd = || json!({"a": a.hex(), "c1": c1.hex()});
                let Some(r) = tc.guard(out, "mul_by_1", &mut panics, dd, || <Fq6 as CubicSparseMul>::mul_by_1(x, &fq2(c1))) else { continue };
                out.eval("mul_by_1:ok", nontrivial(a));
                let e = M6::mul(&tc.t, a, &M6([M2::zero(), c1.clone(), M2::zero()]));
                tc.check(out, "mul_by_1", &r, &e, dd);
            }
        }
    }));
    let sm2 = sm.clone();
    c.push(tcs(&tc, "mul_by_01", move |tc, out| {
        let mut panics = 0;
        'outer: for i in &tc.rhs {
            let (_, a, x) = &tc.alpha[*i];
            for c0 in &sm2 {
                for c1 in &sm2 {
                    if panics >= MAX_PANICS {
                        break 'outer;
                    }
                    let dd = || json!({"a": a.hex(), "c0": c0.hex(), "c1": c1.hex()});
                    let Some(r) = tc.guard(out, "mul_by_01", &mut panics, dd, || <Fq6 as CubicSparseMul>::mul_by_01(x, &fq2(c0), &fq2(c1))) else { continue };
                    out.eval("mul_by_01:ok", nontrivial(a));
                    let e = M6::mul(&tc.t, a, &M6([c0.clone(), c1.clone(), M2::zero()]));
                    tc.check(out, "mul_by_01", &r, &e, dd);
                }
            }
        }
    }));
    cx.run_cases("bn254-Fq6", &c, |k| k());

    // ---- Fq12
    let tc = mk::<Fq12, M12>(cx, "bn254-Fq12", &t, Box::new(fq12), if thorough { RhsMode::SparsePlusEvery(3) } else { RhsMode::SparsePlusEvery(25) });
    let mut c = generic_tower_ops(&tc, false);
    c.push(frobenius_case(&tc, 13, |x, k| {
        let mut t = *x;
        t.frobenius_map(k);
        t
    }));
    c.push(t_un(&tc, "conjugate", |a| {
        let mut t = *a;
        t.conjugate();
        t
    }, |tc, a| M12([a.0[0].clone(), M6::neg(&tc.t, &a.0[1])])));
    c.push(t_bin(
        &tc,
        "inherent-arith",
        vec![("add", Box::new(|a: &Fq12, b: &Fq12| Fq12::add(a, b))), ("sub+2b", Box::new(|a: &Fq12, b: &Fq12| Fq12::add(&Fq12::add(&Fq12::sub(a, b), b), b))), ("&a+&b", Box::new(|a: &Fq12, b: &Fq12| a + b))],
        |t, a, b| M12::add(t, a, b),
    ));
    c.push(t_bin(
        &tc,
        "inherent-mul",
        vec![
            ("mul", Box::new(|a: &Fq12, b: &Fq12| Fq12::mul(a, b))),
            ("&a*&b", Box::new(|a: &Fq12, b: &Fq12| a * b)),
        ],
        |t, a, b| M12::mul(t, a, b),
    ));
    c.push(t_un(&tc, "inherent-square", |a| {
        let mut t = *a;
        Fq12::square_assign(&mut t);
        assert!(t == Fq12::square(a), "square_assign != square");
        t
    }, |tc, a| M12::sqr(&tc.t, a)));
    c.push(t_un(&tc, "inherent-neg-double", |a| Fq12::double(&Fq12::neg(a)), |tc, a| M12::neg(&tc.t, &M12::add(&tc.t, a, a))));
    c.push(tcs(&tc, "norm", |tc, out| {
        let mut panics = 0;
        for (_, a, x) in &tc.alpha {
            let Some(r) = tc.guard(out, "norm", &mut panics, || dm(a), || x.norm()) else { continue };
            out.eval("norm:ok", nontrivial(a));
            // c0^2 - v c1^2
            let e = M6::sub(&tc.t, &M6::sqr(&tc.t, &a.0[0]), &tc.t.mul_v(&M6::sqr(&tc.t, &a.0[1])));
            if r != fq6(&e) {
                out.viol(Viol::new(tc.key("norm", "mismatch"), "norm != c0^2 - v c1^2", dm(a)));
            }
        }
    }));
    let sm3 = sm.clone();
    c.push(tcs(&tc, "mul_by_014", move |tc, out| {
        let mut panics = 0;
        let z = M2::zero();
        'outer: for i in tc.rhs.iter().step_by(2) {
            let (_, a, x) = &tc.alpha[*i];
            for c0 in &sm3 {
                for c1 in &sm3 {
                    for c4 in sm3.iter().step_by(2) {
                        if panics >= MAX_PANICS {
                            break 'outer;
                        }
                        let dd = || json!({"a": a.hex(), "c0": c0.hex(), "c1": c1.hex(), "c4": c4.hex()});
                        let Some(r) = tc.guard(out, "mul_by_014", &mut panics, dd, || {
                            let mut t = *x;
                            <Fq12 as QuadSparseMul>::mul_by_014(&mut t, &fq2(c0), &fq2(c1), &fq2(c4));
                            t
                        }) else {
                            continue;
                        };
                        out.eval("mul_by_014:ok", nontrivial(a));
                        let rhs = M12([M6([c0.clone(), c1.clone(), z.clone()]), M6([z.clone(), c4.clone(), z.clone()])]);
                        tc.check(out, "mul_by_014", &r, &M12::mul(&tc.t, a, &rhs), dd);
                    }
                }
            }
        }
    }));
    let sm4 = sm.clone();
    c.push(tcs(&tc, "mul_by_034", move |tc, out| {
        let mut panics = 0;
        let z = M2::zero();
        'outer: for i in tc.rhs.iter().step_by(2) {
            let (_, a, x) = &tc.alpha[*i];
            for c0 in &sm4 {
                for c3 in &sm4 {
                    for c4 in sm4.iter().step_by(2) {
                        if panics >= MAX_PANICS {
                            break 'outer;
                        }
                        let dd = || json!({"a": a.hex(), "c0": c0.hex(), "c3": c3.hex(), "c4": c4.hex()});
                        let Some(r) = tc.guard(out, "mul_by_034", &mut panics, dd, || {
                            let mut t = *x;
                            <Fq12 as QuadSparseMul>::mul_by_034(&mut t, &fq2(c0), &fq2(c3), &fq2(c4));
                            t
                        }) else {
                            continue;
                        };
                        out.eval("mul_by_034:ok", nontrivial(a));
                        let rhs = M12([M6([c0.clone(), z.clone(), z.clone()]), M6([c3.clone(), c4.clone(), z.clone()])]);
                        tc.check(out, "mul_by_034", &r, &M12::mul(&tc.t, a, &rhs), dd);
                    }
                }
            }
        }
    }));
    c.push(tcs(&tc, "cyclotomic_square", |tc, out| {
        // precondition: the element lies in the cyclotomic subgroup; map invertible alphabet
        // members there with x -> (conj(x)/x)^(p^2+1) in the model
        let mut panics = 0;
        let t = &tc.t;
        for i in tc.rhs.iter() {
            let (_, a, _) = &tc.alpha[*i];
            let Some(ai) = M12::inv(t, a) else { continue };
            let conj = M12([a.0[0].clone(), M6::neg(t, &a.0[1])]);
            let f1 = M12::mul(t, &conj, &ai);
            let g = M12::mul(t, &tc.frob.apply(t, &f1, 2), &f1);
            if panics >= MAX_PANICS {
                break;
            }
            let x = fq12(&g);
            let dd = || json!({"g": g.hex()});
            let Some(r) = tc.guard(out, "cyclotomic_square", &mut panics, dd, || {
                let mut t = x;
                t.cyclotomic_square();
                t
            }) else {
                continue;
            };
            out.eval("cyclotomic_square:ok", g != M12::one());
            tc.check(out, "cyclotomic_square", &r, &M12::sqr(t, &g), dd);
        }
    }));
    cx.run_cases("bn254-Fq12", &c, |k| k());
}
