//! C10 — every exported field type is the field it names.
//!
//! Complete enumeration of (field, operation) x operand alphabet against a big-integer model
//! (`vcore::big::Fp` for prime fields, coefficient vectors over it for the towers). One case per
//! (field, operation); the case body loops over the alphabet (unary) / alphabet^2 (binary).

mod prime;
mod probe;
mod tower;
mod towers;
mod types;

use vcore::{Ctx, Level};

fn main() {
    let args: Vec<String> = std::env::args().collect();
    if args.len() == 4 && args[1] == "--probe" {
        probe::child_main(&args[2], &args[3]);
    }
    let mut cx = Ctx::from_args("C10", Level::Exploration);
    cx.set_rule(
        "complete enumeration, per exported field type, of: every unary operation over the boundary \
         alphabet {0, 1, 2, p-1, p-2, (p+-1)/2, 2^(64k)-1 / 2^(64k) / 2^(64k)+1 for each limb boundary, R, R^2, \
         R^3 mod p, each limb all-ones, all limbs all-ones mod p, p-2^64, 2^(bits-1)-1, 3, 5, 7, 11, g, g^3, -g, seeded}; every \
         binary operation (all owned / by-reference / in-place spellings) over alphabet^2; checked \
         decoders on encodings of {0, 1, p-2, p-1, p, p+1, p+2^64, 2p-1, 2p, 2p+1, 2^bits-1, 2^bits, all-FF, \
         top bit, one limb of p replaced by ones / zero} and every single-bit flip of the canonical \
         encodings of {0, p-1, (p-1)/2, seeded}; uniform reduction on all single-bit inputs, all-zero, \
         all-FF, lo/hi halves in {0, 1, p-1, p, p+1, 2p, all-FF, R}^2 and seeded; published constants vs \
         their defining equations. Towers: coefficient vectors over {0, 1, -1, seeded} with <= 2 non-zero \
         coefficients + dense + all(-1) as left operands; right operands are that alphabet (Fp2, Fp6) or its \
         <= 1-non-zero part + dense + every 25th (quick) / 3rd (thorough) two-non-zero member (Fp12). \
         An elementary evaluation is non-trivial when no operand is 0 or 1; case keys are unique.",
    );
    cx.assume("the oracle is num-bigint integer arithmetic modulo the stated (well-known) modulus of each curve, written independently of the repository's constants");
    cx.assume("real elements are built with from_repr of the canonical encoding; that path is cross-checked against from_str_vartime, from_raw / from_u64s_le and the byte decoders (case conv-paths and the decoder cases)");
    cx.assume("tower Frobenius images are obtained in the model from the image of the tower generator under iterated p-th powering (square-and-multiply) using that x -> x^p is a ring homomorphism fixing Fp; the tables are self-checked against direct p-th powering of a dense element");
    cx.assume("seeded representatives come from VERIF_SEED; the enumeration over the alphabet is complete");
    cx.assume("blst shifts (shl/shr) are only exercised with count >= 1: the underlying blst loop is do-while, so count = 0 is outside its domain");
    cx.assume("release build without debug assertions: k256's debug-only magnitude/normalisation assertions (documented in curves/src/k256/base_field.rs) are not armed");

    // by-reference Sum / Product implementations are probed out of process first
    let probes = prime::probe_cases();
    cx.run_cases("iter-ref-probes", &probes, |c| c());
    cx.require(cx.counter_value("probe_machinery_failures") == 0, "child-process probes could be run");
    cx.require(cx.class_count("iter-ref-probes:sum-ref:probe-ok") > 0, "at least one by-reference Sum probe terminates (the probe mechanism works)");

    types::run_prime_fields(&mut cx);
    towers::run_towers(&mut cx);
    types::run_ff_ext(&mut cx);

    // ---- anti-vacuity
    for f in ["bls12-381-Fq", "bls12-381-Fp", "jubjub-Fr", "secp256k1-Fp", "secp256k1-Fq", "curve25519-Fp", "curve25519-Scalar", "bn254-Fq", "bn254-Fr"] {
        let g = format!("{f}-ops");
        cx.require(cx.class_count(&format!("{g}:sqrt:some")) > 0 && cx.class_count(&format!("{g}:sqrt:none")) > 0, &format!("{f}: sqrt must return both Some and None"));
        cx.require(cx.class_count(&format!("{g}:invert:some")) > 0 && cx.class_count(&format!("{g}:invert:none")) > 0, &format!("{f}: invert must return both Some and None"));
        cx.require(cx.class_count(&format!("{g}:mul:ok")) >= 400, &format!("{f}: multiplication evaluated on alphabet^2"));
        let d = format!("{f}-decoders");
        cx.require(cx.class_count(&format!("{d}:from_repr:accept")) > 0 && cx.class_count(&format!("{d}:from_repr:reject")) > 0, &format!("{f}: from_repr must both accept and reject"));
        cx.require(cx.class_count(&format!("{f}-constants:const:ROOT_OF_UNITY")) > 0, &format!("{f}: constants evaluated"));
    }
    for f in ["bls12-381-Fq", "curve25519-Fp", "curve25519-Scalar", "bn254-Fq", "bn254-Fr", "jubjub-Fr"] {
        cx.require(cx.class_count(&format!("{f}-uniform:uniform:reduced")) > 0, &format!("{f}: uniform reduction saw inputs >= p"));
    }
    for f in ["bls12-381-Fp2", "bn254-Fq2"] {
        cx.require(cx.class_count(&format!("{f}:sqrt:some")) > 0 && cx.class_count(&format!("{f}:sqrt:none")) > 0, &format!("{f}: sqrt must return both Some and None"));
    }
    for f in ["bls12-381-Fp2", "bls12-381-Fp6", "bls12-381-Fp12", "bn254-Fq2", "bn254-Fq6", "bn254-Fq12"] {
        cx.require(cx.class_count(&format!("{f}:mul:ok")) > 100, &format!("{f}: tower multiplication evaluated"));
        cx.require(cx.class_count(&format!("{f}:frobenius:k=1")) > 10, &format!("{f}: Frobenius evaluated"));
    }
    cx.finish()
}
