//! Per-type wiring of the prime fields: trait-generic cases plus every inherent public entry
//! point of each type.

use std::sync::Arc;

use ff::{Field, FromUniformBytes, PrimeField, PrimeFieldBits, WithSmallOrderMulGroup};
use midnight_curves::{
    ff_ext::Legendre,
    serde::{endian::EndianRepr, SerdeObject},
};
use num_bigint::BigUint;
use num_traits::{One, Zero};
use serde_json::json;
use vcore::{
    big::{bu, from_be, from_le, hexs, pow2, to_le, Fp},
    hex, CaseOut, Ctx, Viol,
};

use crate::prime::{self, cs, Cases, Enc, PCtx, MAX_PANICS};

pub const BLS_R: &str = "73eda753299d7d483339d80809a1d80553bda402fffe5bfeffffffff00000001";
pub const BLS_P: &str = "1a0111ea397fe69a4b1ba7b6434bacd764774b84f38512bf6730d2a0f6b0f6241eabfffeb153ffffb9feffffffffaaab";
pub const JUBJUB_R: &str = "0e7db4ea6533afa906673b0101343b00a6682093ccc81082d0970e5ed6f72cb7";
pub const SECP_P: &str = "fffffffffffffffffffffffffffffffffffffffffffffffffffffffefffffc2f";
pub const SECP_N: &str = "fffffffffffffffffffffffffffffffebaaedce6af48a03bbfd25e8cd0364141";
pub const C25519_P: &str = "7fffffffffffffffffffffffffffffffffffffffffffffffffffffffffffffed";
pub const C25519_L: &str = "1000000000000000000000000000000014def9dea2f79cd65812631a5cf5d3ed";
pub const BN_Q: &str = "30644e72e131a029b85045b68181585d97816a916871ca8d3c208c16d87cfd47";
pub const BN_R: &str = "30644e72e131a029b85045b68181585d2833e84879b9709143e1f593f0000001";

fn arr<const N: usize>(b: &[u8]) -> [u8; N] {
    b.try_into().expect("width")
}
fn limbs<const N: usize>(l: &[u64]) -> [u64; N] {
    l.try_into().expect("limbs")
}
fn bytes_to_limbs<const N: usize>(b: &[u8]) -> [u64; N] {
    let v: Vec<u64> = b.chunks(8).map(|c| u64::from_le_bytes(c.try_into().unwrap())).collect();
    v.try_into().expect("limbs")
}

fn run<F: PrimeField + Send + Sync>(cx: &mut Ctx, pc: &Arc<PCtx<F>>, ops: Cases, decoders: Cases, uniform: Cases, constants: Cases) {
    cx.run_cases(&format!("{}-ops", pc.name), &ops, |c| c());
    cx.run_cases(&format!("{}-decoders", pc.name), &decoders, |c| c());
    if !uniform.is_empty() {
        cx.run_cases(&format!("{}-uniform", pc.name), &uniform, |c| c());
    }
    cx.run_cases(&format!("{}-constants", pc.name), &constants, |c| c());
}

/// Legendre trait: symbol and the two constant-time predicates.
fn legendre_cases<F: PrimeField + Legendre + Send + Sync>(pc: &Arc<PCtx<F>>) -> Cases {
    vec![
        prime::un_int(pc, "legendre", |a| a.legendre(), |m, a| m.legendre(a) as i64),
        prime::un_bool(pc, "ct_quadratic_residue", |a| a.ct_quadratic_residue().into(), |m, a| m.is_square(a)),
        prime::un_bool(pc, "ct_quadratic_non_residue", |a| a.ct_quadratic_non_residue().into(), |m, a| !m.is_square(a)),
    ]
}

/// PrimeFieldBits: little-endian bits of the canonical integer and of the modulus.
fn bits_case<F: PrimeFieldBits + Send + Sync>(pc: &Arc<PCtx<F>>) -> (String, prime::Case) {
    cs(pc, "le_bits", |pc, out| {
        let mut panics = 0;
        let collect = |bits: &ff::FieldBits<F::ReprBits>| -> BigUint {
            let mut v = BigUint::zero();
            for (i, b) in bits.iter().enumerate() {
                if *b {
                    v |= BigUint::one() << i;
                }
            }
            v
        };
        for (_, a, x) in &pc.alpha {
            if panics >= MAX_PANICS {
                break;
            }
            let Some(b) = pc.guard(out, "to_le_bits", &mut panics, || json!({"a": hexs(a)}), || collect(&x.to_le_bits())) else { continue };
            out.eval("to_le_bits:ok", PCtx::<F>::nontrivial(a));
            if b != *a {
                out.viol(Viol::new(pc.key("to_le_bits", "mismatch"), "to_le_bits is not the binary expansion of the canonical integer", json!({"a": hexs(a), "got": hexs(&b)})));
            }
        }
        if let Some(c) = pc.guard(out, "char_le_bits", &mut panics, || json!({}), || collect(&F::char_le_bits())) {
            out.eval("char_le_bits:ok", true);
            if c != *pc.p() {
                out.viol(Viol::new(pc.key("char_le_bits", "mismatch"), "char_le_bits is not the modulus", json!({"got": hexs(&c)})));
            }
        }
    })
}

/// by-reference operator spellings (`&a + &b`, `&a + b`, `-&a`) for types that provide them.
macro_rules! ref_ops {
    ($pc:expr, $c:expr, $T:ty) => {{
        $c.push(prime::bin(&$pc, "add-ref", vec![("&a+&b", Box::new(|a: &$T, b: &$T| a + b)), ("&a+b", Box::new(|a: &$T, b: &$T| a + *b))], |m, a, b| m.add(a, b)));
        $c.push(prime::bin(&$pc, "sub-ref", vec![("&a-&b", Box::new(|a: &$T, b: &$T| a - b)), ("&a-b", Box::new(|a: &$T, b: &$T| a - *b))], |m, a, b| m.sub(a, b)));
        $c.push(prime::bin(&$pc, "mul-ref", vec![("&a*&b", Box::new(|a: &$T, b: &$T| a * b)), ("&a*b", Box::new(|a: &$T, b: &$T| a * *b))], |m, a, b| m.mul(a, b)));
        $c.push(prime::un(&$pc, "neg-ref", |a: &$T| -a, |m, a| m.neg(a)));
    }};
}

/// Inherent const-fn arithmetic shared by the jubjub / curve25519 / halo2derive field types.
macro_rules! inherent_arith {
    ($pc:expr, $c:expr, $T:ty) => {{
        $c.push(prime::bin(
            &$pc,
            "inherent-arith",
            vec![
                ("add", Box::new(|a: &$T, b: &$T| <$T>::add(a, b))),
                ("sub+2b", Box::new(|a: &$T, b: &$T| <$T>::add(&<$T>::add(&<$T>::sub(a, b), b), b))),
            ],
            |m, a, b| m.add(a, b),
        ));
        $c.push(prime::bin(&$pc, "inherent-sub", vec![("sub", Box::new(|a: &$T, b: &$T| <$T>::sub(a, b)))], |m, a, b| m.sub(a, b)));
        $c.push(prime::bin(&$pc, "inherent-mul", vec![("mul", Box::new(|a: &$T, b: &$T| <$T>::mul(a, b)))], |m, a, b| m.mul(a, b)));
        $c.push(prime::un(&$pc, "inherent-neg", |a: &$T| <$T>::neg(a), |m, a| m.neg(a)));
        $c.push(prime::un(&$pc, "inherent-square", |a: &$T| <$T>::square(a), |m, a| m.sqr(a)));
        $c.push(prime::un(&$pc, "inherent-double", |a: &$T| <$T>::double(a), |m, a| m.add(a, a)));
    }};
}

fn hex_doc(width: usize) -> impl Fn(&BigUint) -> String + Send + Sync + 'static {
    move |v| format!("\"{}\"", hex(&to_le(v, width)))
}

fn limb_doc(nlimbs: usize) -> impl Fn(&BigUint) -> String + Send + Sync + 'static {
    move |v| {
        let l: Vec<String> = to_le(v, nlimbs * 8).chunks(8).map(|c| u64::from_le_bytes(c.try_into().unwrap()).to_string()).collect();
        format!("[{}]", l.join(","))
    }
}

/// The family generated by `halo2derive::impl_field!` and its hand-written twin (curve25519 Fp):
/// 4 little-endian limbs, Montgomery form, public inner array.
macro_rules! derive_family {
    ($cx:expr, $T:ty, $name:expr, $modulus:expr, [$($un:literal),*], $extra:expr) => {{
        type T = $T;
        if let Some(pc) = PCtx::<T>::new($cx, $name, $modulus, false) {
            let mut ops = prime::generic_ops(&pc);
            ops.push(prime::ord_case(&pc));
            ops.extend(legendre_cases(&pc));
            ops.push(bits_case(&pc));
            ref_ops!(pc, ops, T);
            inherent_arith!(pc, ops, T);
            ops.push(prime::from_limbs(&pc, "from_raw", |l| T::from_raw(limbs::<4>(l))));
            ops.push(prime::encoder(&pc, "to_bytes", false, |x| x.to_bytes().to_vec()));
            ops.push(prime::encoder(&pc, "EndianRepr::to_bytes", false, |x| <T as EndianRepr>::to_bytes(x)));
            ops.push(prime::un_bool(&pc, "lexicographically_largest", |a| a.lexicographically_largest().into(), |m, a| *a > ((&m.p - 1u32) >> 1)));
            ops.push(cs(&pc, "from_bool", |pc, out| {
                for (b, e) in [(false, 0u64), (true, 1u64)] {
                    let mut panics = 0;
                    if let Some(r) = pc.guard(out, "from_bool", &mut panics, || json!({"b": b}), || T::from(b)) {
                        out.eval("from_bool:ok", true);
                        pc.check_val(out, "from_bool", &r, &bu(e), || json!({"b": b}));
                    }
                }
            }));
            // the public inner array is the Montgomery form a*R mod p, R = 2^256
            ops.push(cs(&pc, "inner-limbs", |pc, out| {
                let r = pow2(256) % pc.p();
                for (_, a, x) in &pc.alpha {
                    out.eval("inner-limbs:ok", PCtx::<T>::nontrivial(a));
                    let e = pc.limbs_of(&pc.m.mul(a, &r));
                    if x.0[..] != e[..] {
                        out.viol(Viol::new(pc.key("inner-limbs", "mismatch"), "public limb array is not a*R mod p", json!({"a": hexs(a)})));
                    }
                    let mut y = T::ZERO;
                    y.0 = limbs::<4>(&e);
                    if y != *x {
                        out.viol(Viol::new(pc.key("inner-limbs", "mismatch"), "constructing from Montgomery limbs does not give the element", json!({"a": hexs(a)})));
                    }
                }
            }));
            let extra: fn(&Arc<PCtx<T>>, &mut Cases) = $extra;
            extra(&pc, &mut ops);

            let mut dec = prime::generic_decoders(&pc);
            dec.push(prime::decoder(&pc, "from_bytes", Enc::Le, 32, |b| Option::from(T::from_bytes(&arr::<32>(b))), Some(Box::new(|x: &T| x.to_bytes().to_vec())), |_, v| v.clone()));
            dec.push(prime::decoder(&pc, "EndianRepr::from_bytes", Enc::Le, 32, |b| Option::from(<T as EndianRepr>::from_bytes(b)), Some(Box::new(|x: &T| <T as EndianRepr>::to_bytes(x))), |_, v| v.clone()));
            dec.extend(prime::serde_object_cases(&pc));
            dec.extend(prime::serde_json_cases(&pc, 32, hex_doc(32)));

            let mut uni: Cases = vec![];
            $(
                uni.push(prime::uniform(&pc, concat!("from_uniform_bytes<", $un, ">"), $un, |b| <T as FromUniformBytes<$un>>::from_uniform_bytes(&arr::<$un>(b)), |m, b| m.red(&from_le(b))));
            )*
            let cons = prime::constants(&pc, Some(<T as WithSmallOrderMulGroup<3>>::ZETA));
            run($cx, &pc, ops, dec, uni, cons);
        }
    }};
}

pub fn run_prime_fields(cx: &mut Ctx) {
    bls_fq(cx);
    bls_fp(cx);
    jubjub_fr(cx);
    secp_fp(cx);
    secp_fq(cx);
    derive_family!(cx, midnight_curves::curve25519::Fp, "curve25519-Fp", C25519_P, [48, 64], |_pc, _ops| {});
    c25519_scalar(cx);
    derive_family!(cx, midnight_curves::bn256::Fq, "bn254-Fq", BN_Q, [48, 64], |pc, ops| {
        use midnight_curves::{bn256::Fq, ff_ext::ExtField};
        ops.push(prime::un(pc, "mul_by_nonresidue", |a: &Fq| a.mul_by_nonresidue(), |m, a| m.neg(a)));
        ops.push(prime::un(pc, "frobenius_map", |a: &Fq| {
            let mut t = *a;
            t.frobenius_map(1);
            t
        }, |_, a| a.clone()));
        ops.push(cs(pc, "NON_RESIDUE", |pc, out| {
            out.eval("NON_RESIDUE:ok", true);
            pc.check_val(out, "NON_RESIDUE", &Fq::NON_RESIDUE, &(pc.p() - 1u32), || json!({}));
        }));
    });
    derive_family!(cx, midnight_curves::bn256::Fr, "bn254-Fr", BN_R, [48, 64], |_pc, _ops| {});
}

// ---------------------------------------------------------------------------------------------
// BLS12-381 scalar field
// ---------------------------------------------------------------------------------------------

fn bls_fq(cx: &mut Ctx) {
    use midnight_curves::Fq;
    let Some(pc) = PCtx::<Fq>::new(cx, "bls12-381-Fq", BLS_R, false) else { return };
    let mut ops = prime::generic_ops(&pc);
    ops.push(prime::ord_case(&pc));
    ops.extend(legendre_cases(&pc));
    ops.push(bits_case(&pc));
    ref_ops!(pc, ops, Fq);
    ops.push(prime::from_limbs(&pc, "from_raw", |l| Fq::from_raw(limbs::<4>(l))));
    ops.push(prime::encoder(&pc, "to_bytes_le", false, |x| x.to_bytes_le().to_vec()));
    ops.push(prime::encoder(&pc, "to_bytes_be", true, |x| x.to_bytes_be().to_vec()));
    ops.push(prime::un(&pc, "mul3", |a| a.mul3(), |m, a| m.mul(a, &bu(3))));
    ops.push(prime::un(&pc, "square_assign", |a| {
        let mut t = *a;
        t.square_assign();
        t
    }, |m, a| m.sqr(a)));
    for k in [1usize, 2, 3, 7, 64, 65, 255] {
        let opn: &'static str = Box::leak(format!("shl({k})").into_boxed_str());
        ops.push(prime::un(&pc, opn, move |a| a.shl(k), move |m, a| m.mul(a, &m.pow(&bu(2), &bu(k as u64)))));
        let opn: &'static str = Box::leak(format!("shr({k})").into_boxed_str());
        ops.push(prime::un(&pc, opn, move |a| a.shr(k), move |m, a| m.mul(a, &m.inv(&m.pow(&bu(2), &bu(k as u64))).unwrap())));
    }
    ops.push(prime::un_int(&pc, "num_bits", |a| a.num_bits() as i64, |_, a| a.bits() as i64));
    ops.push(cs(&pc, "char", |pc, out| {
        out.eval("char:ok", true);
        if from_le(&Fq::char()) != *pc.p() {
            out.viol(Viol::new(pc.key("char", "mismatch"), "char() is not the little-endian modulus", json!({"got": hex(&Fq::char())})));
        }
    }));
    // const-path multiplication on Montgomery limbs vs the runtime (blst) multiplication
    ops.push(prime::bin(
        &pc,
        "mul_const",
        vec![("mul_const(mont(a),mont(b))", Box::new(|a: &Fq, b: &Fq| Fq::mul_const(&bytes_to_limbs::<4>(&a.to_raw_bytes()), &bytes_to_limbs::<4>(&b.to_raw_bytes()))))],
        |m, a, b| m.mul(a, b),
    ));

    let mut dec = prime::generic_decoders(&pc);
    dec.push(prime::decoder(&pc, "from_bytes_le", Enc::Le, 32, |b| Option::from(Fq::from_bytes_le(&arr::<32>(b))), Some(Box::new(|x: &Fq| x.to_bytes_le().to_vec())), |_, v| v.clone()));
    dec.push(prime::decoder(&pc, "from_bytes_be", Enc::Be, 32, |b| Option::from(Fq::from_bytes_be(&arr::<32>(b))), Some(Box::new(|x: &Fq| x.to_bytes_be().to_vec())), |_, v| v.clone()));
    dec.push(prime::decoder(&pc, "from_u64s_le", Enc::Le, 32, |b| Option::from(Fq::from_u64s_le(&bytes_to_limbs::<4>(b))), Some(Box::new(|x: &Fq| x.to_bytes_le().to_vec())), |_, v| v.clone()));
    dec.extend(prime::serde_object_cases(&pc));
    dec.extend(prime::serde_json_cases(&pc, 32, limb_doc(4)));

    let uni = vec![prime::uniform(&pc, "from_uniform_bytes<64>", 64, |b| <Fq as FromUniformBytes<64>>::from_uniform_bytes(&arr::<64>(b)), |m, b| m.red(&from_le(b)))];
    let cons = prime::constants(&pc, Some(<Fq as WithSmallOrderMulGroup<3>>::ZETA));
    run(cx, &pc, ops, dec, uni, cons);
}

// ---------------------------------------------------------------------------------------------
// BLS12-381 base field
// ---------------------------------------------------------------------------------------------

fn bls_fp(cx: &mut Ctx) {
    use midnight_curves::Fp;
    let Some(pc) = PCtx::<Fp>::new(cx, "bls12-381-Fp", BLS_P, false) else { return };
    let mut ops = prime::generic_ops(&pc);
    ops.push(prime::ord_case(&pc));
    ops.extend(legendre_cases(&pc));
    ops.push(bits_case(&pc));
    ref_ops!(pc, ops, Fp);
    ops.push(prime::encoder(&pc, "to_bytes_le", false, |x| x.to_bytes_le().to_vec()));
    ops.push(prime::encoder(&pc, "to_bytes_be", true, |x| x.to_bytes_be().to_vec()));
    ops.push(prime::un(&pc, "mul3", |a| a.mul3(), |m, a| m.mul(a, &bu(3))));
    ops.push(prime::un(&pc, "mul8", |a| a.mul8(), |m, a| m.mul(a, &bu(8))));
    ops.push(prime::un(&pc, "square_assign", |a| {
        let mut t = *a;
        t.square_assign();
        t
    }, |m, a| m.sqr(a)));
    for k in [1usize, 2, 3, 7, 64, 65, 381] {
        let opn: &'static str = Box::leak(format!("shl({k})").into_boxed_str());
        ops.push(prime::un(&pc, opn, move |a| a.shl(k), move |m, a| m.mul(a, &m.pow(&bu(2), &bu(k as u64)))));
    }
    ops.push(prime::un_int(&pc, "num_bits", |a| a.num_bits() as i64, |_, a| a.bits() as i64));
    ops.push(cs(&pc, "char", |pc, out| {
        out.eval("char:ok", true);
        if from_le(&Fp::char()) != *pc.p() {
            out.viol(Viol::new(pc.key("char", "mismatch"), "char() is not the little-endian modulus", json!({"got": hex(&Fp::char())})));
        }
    }));

    let mut dec = prime::generic_decoders(&pc);
    dec.push(prime::decoder(&pc, "from_bytes_le", Enc::Le, 48, |b| Option::from(Fp::from_bytes_le(&arr::<48>(b))), Some(Box::new(|x: &Fp| x.to_bytes_le().to_vec())), |_, v| v.clone()));
    dec.push(prime::decoder(&pc, "from_bytes_be", Enc::Be, 48, |b| Option::from(Fp::from_bytes_be(&arr::<48>(b))), Some(Box::new(|x: &Fp| x.to_bytes_be().to_vec())), |_, v| v.clone()));
    dec.push(prime::decoder(&pc, "from_u64s_le", Enc::Le, 48, |b| Option::from(Fp::from_u64s_le(&bytes_to_limbs::<6>(b))), Some(Box::new(|x: &Fp| x.to_bytes_le().to_vec())), |_, v| v.clone()));
    dec.extend(prime::serde_object_cases(&pc));
    dec.extend(prime::serde_json_cases(&pc, 48, limb_doc(6)));

    let cons = prime::constants(&pc, Some(<Fp as WithSmallOrderMulGroup<3>>::ZETA));
    run(cx, &pc, ops, dec, vec![], cons);
}

// ---------------------------------------------------------------------------------------------
// Jubjub scalar field
// ---------------------------------------------------------------------------------------------

fn jubjub_fr(cx: &mut Ctx) {
    use midnight_curves::Fr;
    let Some(pc) = PCtx::<Fr>::new(cx, "jubjub-Fr", JUBJUB_R, false) else { return };
    let mut ops = prime::generic_ops(&pc);
    ops.push(prime::ord_case(&pc));
    ops.push(bits_case(&pc));
    ref_ops!(pc, ops, Fr);
    ops.push(prime::bin(
        &pc,
        "inherent-arith",
        vec![("add", Box::new(|a: &Fr, b: &Fr| Fr::add(a, b))), ("sub+2b", Box::new(|a: &Fr, b: &Fr| Fr::add(&Fr::add(&Fr::sub(*a, b), b), b)))],
        |m, a, b| m.add(a, b),
    ));
    ops.push(prime::bin(&pc, "inherent-sub", vec![("sub", Box::new(|a: &Fr, b: &Fr| Fr::sub(*a, b)))], |m, a, b| m.sub(a, b)));
    ops.push(prime::bin(&pc, "inherent-mul", vec![("mul", Box::new(|a: &Fr, b: &Fr| Fr::mul(*a, b)))], |m, a, b| m.mul(a, b)));
    ops.push(prime::un(&pc, "inherent-neg", |a: &Fr| Fr::neg(a), |m, a| m.neg(a)));
    ops.push(prime::un(&pc, "inherent-square", |a: &Fr| Fr::square(a), |m, a| m.sqr(a)));
    ops.push(prime::un(&pc, "inherent-double", |a: &Fr| Fr::double(a), |m, a| m.add(a, a)));
    ops.push(prime::bin(&pc, "inherent-ref-arith", vec![("mul_ref", Box::new(|a: &Fr, b: &Fr| a.mul_ref(b)))], |m, a, b| m.mul(a, b)));
    ops.push(prime::bin(&pc, "inherent-sub_ref", vec![("sub_ref", Box::new(|a: &Fr, b: &Fr| a.sub_ref(b)))], |m, a, b| m.sub(a, b)));
    ops.push(prime::from_limbs(&pc, "from_raw", |l| Fr::from_raw(limbs::<4>(l))));
    ops.push(prime::encoder(&pc, "to_bytes", false, |x| x.to_bytes().to_vec()));
    ops.push(prime::encoder(&pc, "into-[u8;32]", false, |x| <[u8; 32]>::from(*x).to_vec()));
    ops.push(prime::encoder(&pc, "into-[u8;32]-ref", false, |x| <[u8; 32]>::from(x).to_vec()));
    ops.push(prime::un_opt(&pc, "inherent-invert", |a| Fr::invert(a).into(), |m, a| m.inv(a)));
    ops.push(cs(&pc, "inherent-sqrt", |pc, out| {
        let mut panics = 0;
        for (_, a, x) in &pc.alpha {
            let Some(r) = pc.guard(out, "inherent-sqrt", &mut panics, || json!({"a": hexs(a)}), || Option::<Fr>::from(Fr::sqrt(x))) else { continue };
            let sq = pc.m.is_square(a);
            out.eval(if r.is_some() { "inherent-sqrt:some" } else { "inherent-sqrt:none" }, PCtx::<Fr>::nontrivial(a));
            let ok = match r {
                Some(r) => sq && pc.m.sqr(&pc.big(&r)) == *a,
                None => !sq,
            };
            if !ok {
                out.viol(Viol::new(pc.key("inherent-sqrt", "mismatch"), "inherent sqrt disagrees with the model", json!({"a": hexs(a)})));
            }
        }
    }));
    ops.push(cs(&pc, "inherent-pow", |pc, out| {
        let mut panics = 0;
        let p = pc.p();
        let es = [bu(0), bu(1), bu(2), p - 1u32, p - 2u32, (p - 1u32) >> 1, pow2(64), pow2(256) - 1u32];
        'outer: for (_, a, x) in &pc.alpha {
            for e in &es {
                if panics >= MAX_PANICS {
                    break 'outer;
                }
                let l = limbs::<4>(&pc.limbs_of(e));
                let dd = || json!({"a": hexs(a), "e": hexs(e)});
                let expect = pc.m.pow(a, e);
                if let Some(r) = pc.guard(out, "inherent-pow", &mut panics, dd, || (Fr::pow(x, &l), Fr::pow_vartime(x, &l))) {
                    out.eval("inherent-pow:ok", PCtx::<Fr>::nontrivial(a));
                    pc.check_val(out, "inherent-pow", &r.0, &expect, dd);
                    pc.check_val(out, "inherent-pow_vartime", &r.1, &expect, dd);
                }
            }
        }
    }));
    ops.push(cs(&pc, "zero-one", |pc, out| {
        out.eval("zero-one:ok", true);
        pc.check_val(out, "zero()", &Fr::zero(), &bu(0), || json!({}));
        pc.check_val(out, "one()", &Fr::one(), &bu(1), || json!({}));
        pc.check_val(out, "default()", &Fr::default(), &bu(0), || json!({}));
    }));

    let mut dec = prime::generic_decoders(&pc);
    dec.push(prime::decoder(&pc, "from_bytes", Enc::Le, 32, |b| Option::from(Fr::from_bytes(&arr::<32>(b))), Some(Box::new(|x: &Fr| x.to_bytes().to_vec())), |_, v| v.clone()));

    let uni = vec![prime::uniform(&pc, "from_bytes_wide", 64, |b| Fr::from_bytes_wide(&arr::<64>(b)), |m, b| m.red(&from_le(b)))];
    let cons = prime::constants(&pc, None);
    run(cx, &pc, ops, dec, uni, cons);
}

// ---------------------------------------------------------------------------------------------
// secp256k1 (k256 wrappers)
// ---------------------------------------------------------------------------------------------

fn secp_fp(cx: &mut Ctx) {
    use midnight_curves::k256::Fp;
    let Some(pc) = PCtx::<Fp>::new(cx, "secp256k1-Fp", SECP_P, true) else { return };
    let mut ops = prime::generic_ops(&pc);
    ops.push(prime::un(&pc, "neg-ref", |a: &Fp| -a, |m, a| m.neg(a)));
    ops.push(prime::un_bool(&pc, "inherent-is_zero", |a| Fp::is_zero(a).into(), |_, a| a.is_zero()));
    ops.push(prime::un_bool(&pc, "inherent-is_odd", |a| Fp::is_odd(a).into(), |_, a| a.bit(0)));
    ops.push(prime::un_bool(&pc, "inherent-is_even", |a| Fp::is_even(a).into(), |_, a| !a.bit(0)));
    ops.push(prime::un(&pc, "normalize", |a| {
        let mut t = a.normalize();
        t.normalize_mut();
        t
    }, |_, a| a.clone()));
    ops.push(prime::un(&pc, "inner-roundtrip", |a| Fp::from(k256::FieldElement::from(*a)).normalize(), |_, a| a.clone()));
    ops.push(prime::un(&pc, "into_inner-roundtrip", |a| Fp::from(*a.inner()) + Fp::from(a.into_inner()) - *a, |_, a| a.clone()));
    ops.push(prime::encoder(&pc, "to_bytes", true, |x| x.to_bytes().to_vec()));
    // predicates on results of every arithmetic entry point (the wrapper's reason to exist):
    // the result of a subtraction / inversion / square root must answer is_zero / is_odd correctly
    ops.push(cs(&pc, "predicates-after-arith", |pc, out| {
        let mut panics = 0;
        'outer: for (_, a, x) in &pc.alpha {
            for (_, b, y) in &pc.alpha {
                if panics >= MAX_PANICS {
                    break 'outer;
                }
                let dd = || json!({"a": hexs(a), "b": hexs(b)});
                let Some(r) = pc.guard(out, "predicates-after-arith", &mut panics, dd, || {
                    let d = *x - *y;
                    let s = *x + *y;
                    let m = *x * *y;
                    let q = y.invert().map(|yi| *x * yi);
                    (
                        [bool::from(Fp::is_zero(&d)), bool::from(Fp::is_zero(&s)), bool::from(Fp::is_zero(&m))],
                        [bool::from(Fp::is_odd(&d)), bool::from(Fp::is_odd(&s)), bool::from(Fp::is_odd(&m))],
                        Option::<Fp>::from(q).map(|q| (bool::from(Fp::is_odd(&q)), bool::from(Fp::is_zero(&q)))),
                        Option::<Fp>::from(y.invert()).map(|i| (bool::from(Fp::is_odd(&i)), bool::from(<Fp as PrimeField>::is_odd(&i)))),
                        Option::<Fp>::from(x.sqrt()).map(|r| bool::from(Fp::is_odd(&r)) == pc.big(&r).bit(0)),
                    )
                }) else {
                    continue;
                };
                out.eval("predicates-after-arith:ok", PCtx::<Fp>::nontrivial(a) && PCtx::<Fp>::nontrivial(b));
                let (d, s, m) = (pc.m.sub(a, b), pc.m.add(a, b), pc.m.mul(a, b));
                let mut ok = r.0 == [d.is_zero(), s.is_zero(), m.is_zero()] && r.1 == [d.bit(0), s.bit(0), m.bit(0)];
                if let Some(q) = pc.m.div(a, b) {
                    ok &= r.2 == Some((q.bit(0), q.is_zero()));
                    let i = pc.m.inv(b).unwrap();
                    ok &= r.3 == Some((i.bit(0), i.bit(0)));
                } else {
                    ok &= r.2.is_none() && r.3.is_none();
                }
                ok &= r.4 != Some(false);
                if !ok {
                    out.viol(Viol::new(pc.key("predicates-after-arith", "mismatch"), "is_zero / is_odd of an arithmetic result disagrees with the integer model", dd()));
                }
            }
        }
    }));
    ops.push(cs(&pc, "from_u64-const", |pc, out| {
        for v in [0u64, 1, 2, u32::MAX as u64, u64::MAX, 0x1234_5678_9abc_def0] {
            let mut panics = 0;
            if let Some(r) = pc.guard(out, "from_u64-const", &mut panics, || json!({"v": v}), || Fp::from_u64(v)) {
                out.eval("from_u64-const:ok", v > 1);
                pc.check_val(out, "from_u64-const", &r, &BigUint::from(v), || json!({"v": v}));
            }
        }
        pc.check_val(out, "ZERO", &Fp::ZERO, &bu(0), || json!({}));
        pc.check_val(out, "ONE", &Fp::ONE, &bu(1), || json!({}));
    }));

    let mut dec = prime::generic_decoders(&pc);
    dec.push(prime::decoder(
        &pc,
        "from_bytes",
        Enc::Be,
        32,
        |b| Option::from(Fp::from_bytes(&k256::FieldBytes::from(arr::<32>(b)))),
        Some(Box::new(|x: &Fp| x.to_bytes().to_vec())),
        |_, v| v.clone(),
    ));
    let cons = prime::constants(&pc, None);
    run(cx, &pc, ops, dec, vec![], cons);
}

fn secp_fq(cx: &mut Ctx) {
    use k256::elliptic_curve::ops::Reduce;
    use midnight_curves::k256::Fq;
    let Some(pc) = PCtx::<Fq>::new(cx, "secp256k1-Fq", SECP_N, true) else { return };
    let mut ops = prime::generic_ops(&pc);
    ops.push(bits_case(&pc));
    ops.push(prime::encoder(&pc, "to_bytes", true, |x| x.to_bytes().to_vec()));
    let dec = prime::generic_decoders(&pc);
    let uni = vec![prime::uniform(
        &pc,
        "reduce_bytes<U256>",
        32,
        |b| <Fq as Reduce<k256::U256>>::reduce_bytes(&k256::FieldBytes::from(arr::<32>(b))),
        |m, b| m.red(&from_be(b)),
    )];
    let cons = prime::constants(&pc, None);
    run(cx, &pc, ops, dec, uni, cons);
}

// ---------------------------------------------------------------------------------------------
// Curve25519 scalar field (re-exported curve25519-dalek type)
// ---------------------------------------------------------------------------------------------

fn c25519_scalar(cx: &mut Ctx) {
    use midnight_curves::curve25519::Scalar;
    let Some(pc) = PCtx::<Scalar>::new(cx, "curve25519-Scalar", C25519_L, false) else { return };
    let mut ops = prime::generic_ops(&pc);
    ref_ops!(pc, ops, Scalar);
    ops.push(prime::encoder(&pc, "to_bytes", false, |x| x.to_bytes().to_vec()));
    ops.push(prime::encoder(&pc, "as_bytes", false, |x| x.as_bytes().to_vec()));
    let mut dec = prime::generic_decoders(&pc);
    dec.push(prime::decoder(&pc, "from_canonical_bytes", Enc::Le, 32, |b| Option::from(Scalar::from_canonical_bytes(arr::<32>(b))), Some(Box::new(|x: &Scalar| x.to_bytes().to_vec())), |_, v| v.clone()));
    let uni = vec![
        prime::uniform(&pc, "from_uniform_bytes<64>", 64, |b| <Scalar as FromUniformBytes<64>>::from_uniform_bytes(&arr::<64>(b)), |m, b| m.red(&from_le(b))),
        prime::uniform(&pc, "from_bytes_mod_order_wide", 64, |b| Scalar::from_bytes_mod_order_wide(&arr::<64>(b)), |m, b| m.red(&from_le(b))),
        prime::uniform(&pc, "from_bytes_mod_order", 32, |b| Scalar::from_bytes_mod_order(arr::<32>(b)), |m, b| m.red(&from_le(b))),
    ];
    let cons = prime::constants(&pc, None);
    run(cx, &pc, ops, dec, uni, cons);
}

// ---------------------------------------------------------------------------------------------
// ff_ext::jacobi and ff_ext::inverse used directly
// ---------------------------------------------------------------------------------------------

pub fn run_ff_ext(cx: &mut Ctx) {
    use midnight_curves::ff_ext::{inverse::BYInverter, jacobi::jacobi};
    let seed = cx.seed;
    let thorough = cx.tier.is_thorough();
    // moduli: the field primes plus odd composites (Jacobi, not Legendre)
    let mods: Vec<(&'static str, BigUint, usize)> = vec![
        ("bls-r", vcore::big::parse_hex(BLS_R), 4),
        ("jubjub-r", vcore::big::parse_hex(JUBJUB_R), 4),
        ("c25519-p", vcore::big::parse_hex(C25519_P), 4),
        ("bn-q", vcore::big::parse_hex(BN_Q), 4),
        ("bls-p", vcore::big::parse_hex(BLS_P), 6),
        ("composite-3*5*7*(2^127-1)", bu(105) * (pow2(127) - 1u32), 4),
        ("composite-(2^61-1)^2*9", (pow2(61) - 1u32) * (pow2(61) - 1u32) * 9u32, 4),
        ("small-15", bu(15), 4),
        ("small-9", bu(9), 4),
    ];
    let mut cases: Cases = vec![];
    for (mn, n, nl) in mods {
        let key = format!("ff_ext:jacobi:{mn}");
        let n2 = n.clone();
        cases.push((
            key,
            Box::new(move || {
                let mut out = CaseOut::batch();
                let n = &n2;
                let f = Fp::new(n.clone());
                let mut rng = vcore::rng_for(seed, &format!("c10-jacobi-{mn}"));
                let mut alpha: Vec<BigUint> = if n.bits() > 128 { f.alphabet(if thorough { 16 } else { 4 }, &mut rng).into_iter().map(|x| x.1).collect() } else { vec![] };
                alpha.extend((0u64..40).map(bu).map(|x| x % n));
                let to_limbs = |v: &BigUint| -> Vec<u64> { to_le(v, nl * 8).chunks(8).map(|c| u64::from_le_bytes(c.try_into().unwrap())).collect() };
                let dl = to_limbs(n);
                let mut panics = 0u32;
                for a in &alpha {
                    if panics >= MAX_PANICS {
                        break;
                    }
                    let al = to_limbs(a);
                    let r = vcore::catch(|| if nl == 4 { jacobi::<5>(&al, &dl) } else { jacobi::<7>(&al, &dl) });
                    let e = prime::jacobi_model(a, n);
                    match r {
                        Err(p) => {
                            panics += 1;
                            out.eval("jacobi:panic", true);
                            out.viol(Viol::new("ff_ext:jacobi:panic", format!("jacobi panicked: {p}"), json!({"n": hexs(a), "d": hexs(n)})));
                        }
                        Ok(r) => {
                            out.eval(&format!("jacobi:{e}"), !a.is_zero() && !a.is_one());
                            if r != e {
                                out.viol(Viol::new("ff_ext:jacobi:mismatch", format!("jacobi = {r}, integer algorithm says {e}"), json!({"n": hexs(a), "d": hexs(n)})));
                            }
                        }
                    }
                }
                out.sample = Some(json!({"modulus": hexs(n), "numerators": alpha.len()}));
                out
            }),
        ));
    }
    // Bernstein-Yang inverter with adjuster 1 (plain integers in, plain inverse out)
    let inv_mods: Vec<(&'static str, BigUint, usize)> = vec![
        ("bls-r", vcore::big::parse_hex(BLS_R), 4),
        ("c25519-p", vcore::big::parse_hex(C25519_P), 4),
        ("secp-p", vcore::big::parse_hex(SECP_P), 4),
        ("bls-p", vcore::big::parse_hex(BLS_P), 6),
        ("composite-3*5*7*(2^127-1)", bu(105) * (pow2(127) - 1u32), 4),
    ];
    for (mn, n, nl) in inv_mods {
        let key = format!("ff_ext:by_inverter:{mn}");
        cases.push((
            key,
            Box::new(move || {
                let mut out = CaseOut::batch();
                let f = Fp::new(n.clone());
                let mut rng = vcore::rng_for(seed, &format!("c10-byinv-{mn}"));
                let mut alpha: Vec<BigUint> = f.alphabet(if thorough { 16 } else { 4 }, &mut rng).into_iter().map(|x| x.1).collect();
                alpha.extend((0u64..40).map(bu).map(|x| x % &n));
                let to_limbs = |v: &BigUint| -> Vec<u64> { to_le(v, nl * 8).chunks(8).map(|c| u64::from_le_bytes(c.try_into().unwrap())).collect() };
                let ml = to_limbs(&n);
                let one = to_limbs(&bu(1));
                let mut panics = 0u32;
                for a in &alpha {
                    if panics >= MAX_PANICS {
                        break;
                    }
                    let al = to_limbs(a);
                    let r = vcore::catch(|| {
                        if nl == 4 {
                            BYInverter::<6>::new(&ml, &one).invert::<4>(&al).map(|x| x.to_vec())
                        } else {
                            BYInverter::<8>::new(&ml, &one).invert::<6>(&al).map(|x| x.to_vec())
                        }
                    });
                    // model: inverse exists iff gcd(a, n) = 1
                    let e = {
                        use num_integer::Integer;
                        if a.gcd(&n).is_one() && !a.is_zero() {
                            // extended Euclid through the prime-field helper is only valid for
                            // coprime operands, which is the case here
                            f.inv(a)
                        } else {
                            None
                        }
                    };
                    match r {
                        Err(p) => {
                            panics += 1;
                            out.eval("by_inverter:panic", true);
                            out.viol(Viol::new("ff_ext:by_inverter:panic", format!("BYInverter::invert panicked: {p}"), json!({"value": hexs(a), "modulus": hexs(&n)})));
                        }
                        Ok(r) => {
                            let rb = r.map(|l| from_le(&l.iter().flat_map(|x| x.to_le_bytes()).collect::<Vec<u8>>()));
                            out.eval(if e.is_some() { "by_inverter:some" } else { "by_inverter:none" }, !a.is_zero() && !a.is_one());
                            if rb != e {
                                out.viol(Viol::new("ff_ext:by_inverter:mismatch", "BYInverter::invert differs from the extended-Euclid inverse", json!({"value": hexs(a), "modulus": hexs(&n), "got": rb.as_ref().map(hexs), "expected": e.as_ref().map(hexs)})));
                            }
                        }
                    }
                }
                out
            }),
        ));
    }
    cx.run_cases("ff_ext", &cases, |c| c());
}
