//! Out-of-process probes for entry points that may not terminate (or may exhaust the stack):
//! the checker re-invokes itself with `--probe <field> <op>`, waits with a timeout and classifies
//! the child's fate. Used for the by-reference `Sum` / `Product` implementations.

use std::{
    process::{Command, Stdio},
    time::{Duration, Instant},
};

use ff::Field;

#[derive(Debug, Clone, PartialEq, Eq)]
pub enum Probe {
    Ok,
    Wrong(String),
    Timeout,
    Crashed(String),
    Machinery(String),
}

/// 1 + 2 + 3 = 1 * 2 * 3 = 6, summed / multiplied through the `&F` iterator implementations.
fn small<F: Field>(op: &str) -> bool {
    let one = F::ONE;
    let two = one.double();
    let three = two + one;
    let six = three.double();
    let v = [one, two, three];
    match op {
        "sum-ref" => v.iter().sum::<F>() == six,
        "product-ref" => v.iter().product::<F>() == six,
        "sum-owned" => v.iter().copied().sum::<F>() == six,
        "product-owned" => v.iter().copied().product::<F>() == six,
        _ => std::process::exit(3),
    }
}

pub const FIELDS: &[&str] = &[
    "bls12-381-Fq",
    "bls12-381-Fp",
    "jubjub-Fr",
    "secp256k1-Fp",
    "secp256k1-Fq",
    "curve25519-Fp",
    "curve25519-Scalar",
    "bn254-Fq",
    "bn254-Fr",
    "bls12-381-Fp2",
    "bls12-381-Fp6",
    "bls12-381-Fp12",
    "bn254-Fq2",
    "bn254-Fq6",
    "bn254-Fq12",
];

/// Entry point of the child process.
pub fn child_main(field: &str, op: &str) -> ! {
    use std::io::Write;

    use midnight_curves::{bls12_381, bn256, curve25519, k256};
    if !FIELDS.contains(&field) {
        std::process::exit(3);
    }
    println!("started");
    let _ = std::io::stdout().flush();
    let ok = match field {
        "bls12-381-Fq" => small::<midnight_curves::Fq>(op),
        "bls12-381-Fp" => small::<midnight_curves::Fp>(op),
        "jubjub-Fr" => small::<midnight_curves::Fr>(op),
        "secp256k1-Fp" => small::<k256::Fp>(op),
        "secp256k1-Fq" => small::<k256::Fq>(op),
        "curve25519-Fp" => small::<curve25519::Fp>(op),
        "curve25519-Scalar" => small::<curve25519::Scalar>(op),
        "bn254-Fq" => small::<bn256::Fq>(op),
        "bn254-Fr" => small::<bn256::Fr>(op),
        "bls12-381-Fp2" => small::<bls12_381::Fp2>(op),
        "bls12-381-Fp6" => small::<bls12_381::Fp6>(op),
        "bls12-381-Fp12" => small::<bls12_381::Fp12>(op),
        "bn254-Fq2" => small::<bn256::Fq2>(op),
        "bn254-Fq6" => small::<bn256::Fq6>(op),
        "bn254-Fq12" => small::<bn256::Fq12>(op),
        _ => std::process::exit(3),
    };
    println!("{}", if ok { "ok" } else { "wrong" });
    std::process::exit(0)
}

/// Runs the probe in a child process. The child announces itself with a `started` line before
/// it evaluates the expression, so process start-up time (which depends on machine load) is not
/// counted against `limit`.
pub fn run_child(field: &str, op: &str, limit: Duration) -> Probe {
    use std::{io::BufRead, sync::mpsc};
    let exe = match std::env::current_exe() {
        Ok(e) => e,
        Err(e) => return Probe::Machinery(format!("current_exe: {e}")),
    };
    let mut child = match Command::new(exe).args(["--probe", field, op]).stdin(Stdio::null()).stdout(Stdio::piped()).stderr(Stdio::null()).spawn() {
        Ok(c) => c,
        Err(e) => return Probe::Machinery(format!("spawn: {e}")),
    };
    let stdout = child.stdout.take().expect("piped stdout");
    let (tx, rx) = mpsc::channel::<String>();
    std::thread::spawn(move || {
        for line in std::io::BufReader::new(stdout).lines() {
            match line {
                Ok(l) => {
                    if tx.send(l).is_err() {
                        break;
                    }
                }
                Err(_) => break,
            }
        }
    });
    let finish = |child: &mut std::process::Child| {
        let _ = child.kill();
        child.wait().map(|s| format!("{s}")).unwrap_or_else(|e| format!("wait: {e}"))
    };
    match rx.recv_timeout(Duration::from_secs(20)) {
        Ok(l) if l.trim() == "started" => {}
        Ok(other) => {
            finish(&mut child);
            return Probe::Machinery(format!("unexpected first line {other:?}"));
        }
        Err(_) => {
            let st = finish(&mut child);
            return Probe::Machinery(format!("child did not start ({st})"));
        }
    }
    let t0 = Instant::now();
    match rx.recv_timeout(limit) {
        Ok(l) => {
            let _ = child.wait();
            match l.trim() {
                "ok" => Probe::Ok,
                other => Probe::Wrong(other.to_string()),
            }
        }
        Err(mpsc::RecvTimeoutError::Timeout) => {
            finish(&mut child);
            Probe::Timeout
        }
        Err(mpsc::RecvTimeoutError::Disconnected) => {
            // stdout closed without a result: the child died while evaluating
            let st = child.wait().map(|s| format!("{s}")).unwrap_or_else(|e| format!("wait: {e}"));
            let _ = t0;
            Probe::Crashed(st)
        }
    }
}
