//! Out-of-process probes for entry points that may not terminate (or may exhaust the stack):
//! the checker re-invokes itself with `--probe <field> <op>`, waits with a timeout and classifies
//! the child's fate. Used for the by-reference `Sum` / `Product` implementations.

use std::{
    io::Read,
    process::{Command, Stdio},
    time::{Duration, Instant},
};

use ff::Field;

#[derive(Debug, Clone, PartialEq, Eq)]
pub enum Probe {
    Ok,
    Wrong(String),
    Timeout,
    Crashed(String),
    Machinery(String),
}

/// 1 + 2 + 3 = 1 * 2 * 3 = 6, summed / multiplied through the `&F` iterator implementations.
fn small<F: Field>(op: &str) -> bool {
    let one = F::ONE;
    let two = one.double();
    let three = two + one;
    let six = three.double();
    let v = [one, two, three];
    match op {
        "sum-ref" => v.iter().sum::<F>() == six,
        "product-ref" => v.iter().product::<F>() == six,
        "sum-owned" => v.iter().copied().sum::<F>() == six,
        "product-owned" => v.iter().copied().product::<F>() == six,
        _ => std::process::exit(3),
    }
}

pub const FIELDS: &[&str] = &[
    "bls12-381-Fq",
    "bls12-381-Fp",
    "jubjub-Fr",
    "secp256k1-Fp",
    "secp256k1-Fq",
    "curve25519-Fp",
    "curve25519-Scalar",
    "bn254-Fq",
    "bn254-Fr",
    "bls12-381-Fp2",
    "bls12-381-Fp6",
    "bls12-381-Fp12",
    "bn254-Fq2",
    "bn254-Fq6",
    "bn254-Fq12",
];

/// Entry point of the child process.
pub fn child_main(field: &str, op: &str) -> ! {
    use midnight_curves::{bls12_381, bn256, curve25519, k256};
    let ok = match field {
        "bls12-381-Fq" => small::<midnight_curves::Fq>(op),
        "bls12-381-Fp" => small::<midnight_curves::Fp>(op),
        "jubjub-Fr" => small::<midnight_curves::Fr>(op),
        "secp256k1-Fp" => small::<k256::Fp>(op),
        "secp256k1-Fq" => small::<k256::Fq>(op),
        "curve25519-Fp" => small::<curve25519::Fp>(op),
        "curve25519-Scalar" => small::<curve25519::Scalar>(op),
        "bn254-Fq" => small::<bn256::Fq>(op),
        "bn254-Fr" => small::<bn256::Fr>(op),
        "bls12-381-Fp2" => small::<bls12_381::Fp2>(op),
        "bls12-381-Fp6" => small::<bls12_381::Fp6>(op),
        "bls12-381-Fp12" => small::<bls12_381::Fp12>(op),
        "bn254-Fq2" => small::<bn256::Fq2>(op),
        "bn254-Fq6" => small::<bn256::Fq6>(op),
        "bn254-Fq12" => small::<bn256::Fq12>(op),
        _ => std::process::exit(3),
    };
    println!("{}", if ok { "ok" } else { "wrong" });
    std::process::exit(0)
}

/// Runs the probe in a child process with a wall-clock limit.
pub fn run_child(field: &str, op: &str, limit: Duration) -> Probe {
    let exe = match std::env::current_exe() {
        Ok(e) => e,
        Err(e) => return Probe::Machinery(format!("current_exe: {e}")),
    };
    let mut child = match Command::new(exe).args(["--probe", field, op]).stdin(Stdio::null()).stdout(Stdio::piped()).stderr(Stdio::null()).spawn() {
        Ok(c) => c,
        Err(e) => return Probe::Machinery(format!("spawn: {e}")),
    };
    let t0 = Instant::now();
    loop {
        match child.try_wait() {
            Ok(Some(status)) => {
                let mut s = String::new();
                if let Some(mut o) = child.stdout.take() {
                    let _ = o.read_to_string(&mut s);
                }
                return if status.success() {
                    match s.trim() {
                        "ok" => Probe::Ok,
                        other => Probe::Wrong(other.to_string()),
                    }
                } else if status.code() == Some(3) {
                    Probe::Machinery("unknown probe".into())
                } else {
                    Probe::Crashed(format!("{status}"))
                };
            }
            Ok(None) => {
                if t0.elapsed() > limit {
                    let _ = child.kill();
                    let _ = child.wait();
                    return Probe::Timeout;
                }
                std::thread::sleep(Duration::from_millis(10));
            }
            Err(e) => return Probe::Machinery(format!("wait: {e}")),
        }
    }
}
