//! Extension-tower model (coefficient vectors over `big::Fp`) and tower case builders.
//!
//! Tower shape shared by BLS12-381 and BN254:
//!   Fp2  = Fp[u]  / (u^2 + 1)
//!   Fp6  = Fp2[v] / (v^3 - xi)     xi = 1 + u (BLS12-381), 9 + u (BN254)
//!   Fp12 = Fp6[w] / (w^2 - v)
//! Coefficient order of a degree-d element is the nesting order of the real types:
//!   Fp2: [c0, c1]; Fp6: [c0.c0, c0.c1, c1.c0, c1.c1, c2.c0, c2.c1]; Fp12: [c0 (6), c1 (6)].

use std::{fmt::Debug, sync::Arc};

use ff::Field;
use num_bigint::BigUint;
use num_traits::{One, Zero};
use serde_json::{json, Value};
use subtle::Choice;
use vcore::{
    big::{bu, hexs, Fp},
    catch, CaseOut, Viol,
};

use crate::prime::{Case, Cases, MAX_PANICS};

#[derive(Clone, Debug, PartialEq, Eq)]
pub struct M2(pub BigUint, pub BigUint);
#[derive(Clone, Debug, PartialEq, Eq)]
pub struct M6(pub [M2; 3]);
#[derive(Clone, Debug, PartialEq, Eq)]
pub struct M12(pub [M6; 2]);

/// Tower parameters.
#[derive(Clone, Debug)]
pub struct Tw {
    pub f: Fp,
    /// v^3 = xi
    pub xi: M2,
}

pub trait ModelEl: Clone + PartialEq + Debug + Send + Sync + 'static {
    const DEG: usize;
    fn from_coeffs(c: &[BigUint]) -> Self;
    fn coeffs(&self) -> Vec<BigUint>;
    fn add(t: &Tw, a: &Self, b: &Self) -> Self;
    fn sub(t: &Tw, a: &Self, b: &Self) -> Self;
    fn neg(t: &Tw, a: &Self) -> Self;
    fn mul(t: &Tw, a: &Self, b: &Self) -> Self;
    fn inv(t: &Tw, a: &Self) -> Option<Self>;
    /// The generator of this level over the prime field as an element (u, v, w) and the way the
    /// lower generators are expressed in it; used for the Frobenius tables.
    fn basis_images(t: &Tw, gen_image: &Self) -> Vec<Self>;
    fn generator() -> Self;

    fn zero() -> Self {
        Self::from_coeffs(&vec![bu(0); Self::DEG])
    }
    fn one() -> Self {
        let mut c = vec![bu(0); Self::DEG];
        c[0] = bu(1);
        Self::from_coeffs(&c)
    }
    fn is_zero(&self) -> bool {
        self.coeffs().iter().all(|c| c.is_zero())
    }
    fn sqr(t: &Tw, a: &Self) -> Self {
        Self::mul(t, a, a)
    }
    fn scale(t: &Tw, a: &Self, k: &BigUint) -> Self {
        Self::from_coeffs(&a.coeffs().iter().map(|c| t.f.mul(c, k)).collect::<Vec<_>>())
    }
    fn pow(t: &Tw, a: &Self, e: &BigUint) -> Self {
        let mut r = Self::one();
        for i in (0..e.bits()).rev() {
            r = Self::sqr(t, &r);
            if e.bit(i) {
                r = Self::mul(t, &r, a);
            }
        }
        r
    }
    fn hex(&self) -> Value {
        json!(self.coeffs().iter().map(hexs).collect::<Vec<_>>())
    }
}

impl Tw {
    pub fn mul_xi(&self, a: &M2) -> M2 {
        M2::mul(self, a, &self.xi)
    }
    /// multiplication of an Fp6 element by v
    pub fn mul_v(&self, a: &M6) -> M6 {
        M6([self.mul_xi(&a.0[2]), a.0[0].clone(), a.0[1].clone()])
    }
}

impl ModelEl for M2 {
    const DEG: usize = 2;
    fn from_coeffs(c: &[BigUint]) -> Self {
        M2(c[0].clone(), c[1].clone())
    }
    fn coeffs(&self) -> Vec<BigUint> {
        vec![self.0.clone(), self.1.clone()]
    }
    fn add(t: &Tw, a: &Self, b: &Self) -> Self {
        M2(t.f.add(&a.0, &b.0), t.f.add(&a.1, &b.1))
    }
    fn sub(t: &Tw, a: &Self, b: &Self) -> Self {
        M2(t.f.sub(&a.0, &b.0), t.f.sub(&a.1, &b.1))
    }
    fn neg(t: &Tw, a: &Self) -> Self {
        M2(t.f.neg(&a.0), t.f.neg(&a.1))
    }
    fn mul(t: &Tw, a: &Self, b: &Self) -> Self {
        // (a0 + a1 u)(b0 + b1 u), u^2 = -1
        let f = &t.f;
        M2(f.sub(&f.mul(&a.0, &b.0), &f.mul(&a.1, &b.1)), f.add(&f.mul(&a.0, &b.1), &f.mul(&a.1, &b.0)))
    }
    fn inv(t: &Tw, a: &Self) -> Option<Self> {
        let f = &t.f;
        let n = f.add(&f.sqr(&a.0), &f.sqr(&a.1));
        let ni = f.inv(&n)?;
        Some(M2(f.mul(&a.0, &ni), f.mul(&f.neg(&a.1), &ni)))
    }
    fn generator() -> Self {
        M2(bu(0), bu(1))
    }
    fn basis_images(_t: &Tw, g: &Self) -> Vec<Self> {
        vec![Self::one(), g.clone()]
    }
}

impl ModelEl for M6 {
    const DEG: usize = 6;
    fn from_coeffs(c: &[BigUint]) -> Self {
        M6([M2::from_coeffs(&c[0..2]), M2::from_coeffs(&c[2..4]), M2::from_coeffs(&c[4..6])])
    }
    fn coeffs(&self) -> Vec<BigUint> {
        self.0.iter().flat_map(|x| x.coeffs()).collect()
    }
    fn add(t: &Tw, a: &Self, b: &Self) -> Self {
        M6([M2::add(t, &a.0[0], &b.0[0]), M2::add(t, &a.0[1], &b.0[1]), M2::add(t, &a.0[2], &b.0[2])])
    }
    fn sub(t: &Tw, a: &Self, b: &Self) -> Self {
        M6([M2::sub(t, &a.0[0], &b.0[0]), M2::sub(t, &a.0[1], &b.0[1]), M2::sub(t, &a.0[2], &b.0[2])])
    }
    fn neg(t: &Tw, a: &Self) -> Self {
        M6([M2::neg(t, &a.0[0]), M2::neg(t, &a.0[1]), M2::neg(t, &a.0[2])])
    }
    fn mul(t: &Tw, a: &Self, b: &Self) -> Self {
        // schoolbook, v^3 = xi
        let m = |i: usize, j: usize| M2::mul(t, &a.0[i], &b.0[j]);
        let c0 = M2::add(t, &m(0, 0), &t.mul_xi(&M2::add(t, &m(1, 2), &m(2, 1))));
        let c1 = M2::add(t, &M2::add(t, &m(0, 1), &m(1, 0)), &t.mul_xi(&m(2, 2)));
        let c2 = M2::add(t, &M2::add(t, &m(0, 2), &m(1, 1)), &m(2, 0));
        M6([c0, c1, c2])
    }
    fn inv(t: &Tw, a: &Self) -> Option<Self> {
        let (a0, a1, a2) = (&a.0[0], &a.0[1], &a.0[2]);
        let t0 = M2::sub(t, &M2::sqr(t, a0), &t.mul_xi(&M2::mul(t, a1, a2)));
        let t1 = M2::sub(t, &t.mul_xi(&M2::sqr(t, a2)), &M2::mul(t, a0, a1));
        let t2 = M2::sub(t, &M2::sqr(t, a1), &M2::mul(t, a0, a2));
        let d = M2::add(t, &M2::mul(t, a0, &t0), &t.mul_xi(&M2::add(t, &M2::mul(t, a2, &t1), &M2::mul(t, a1, &t2))));
        let di = M2::inv(t, &d)?;
        Some(M6([M2::mul(t, &t0, &di), M2::mul(t, &t1, &di), M2::mul(t, &t2, &di)]))
    }
    fn generator() -> Self {
        let mut c = vec![bu(0); 6];
        c[2] = bu(1);
        Self::from_coeffs(&c)
    }
    fn basis_images(t: &Tw, vimg: &Self) -> Vec<Self> {
        // u = v^3 - xi0 where xi = xi0 + u
        let v2 = Self::sqr(t, vimg);
        let v3 = Self::mul(t, &v2, vimg);
        let xi0 = Self::scale(t, &Self::one(), &t.xi.0);
        debug_assert!(t.xi.1.is_one());
        let uimg = Self::sub(t, &v3, &xi0);
        let vs = [Self::one(), vimg.clone(), v2];
        let us = [Self::one(), uimg];
        let mut out = vec![];
        for vj in &vs {
            for ui in &us {
                out.push(Self::mul(t, vj, ui));
            }
        }
        out
    }
}

impl ModelEl for M12 {
    const DEG: usize = 12;
    fn from_coeffs(c: &[BigUint]) -> Self {
        M12([M6::from_coeffs(&c[0..6]), M6::from_coeffs(&c[6..12])])
    }
    fn coeffs(&self) -> Vec<BigUint> {
        self.0.iter().flat_map(|x| x.coeffs()).collect()
    }
    fn add(t: &Tw, a: &Self, b: &Self) -> Self {
        M12([M6::add(t, &a.0[0], &b.0[0]), M6::add(t, &a.0[1], &b.0[1])])
    }
    fn sub(t: &Tw, a: &Self, b: &Self) -> Self {
        M12([M6::sub(t, &a.0[0], &b.0[0]), M6::sub(t, &a.0[1], &b.0[1])])
    }
    fn neg(t: &Tw, a: &Self) -> Self {
        M12([M6::neg(t, &a.0[0]), M6::neg(t, &a.0[1])])
    }
    fn mul(t: &Tw, a: &Self, b: &Self) -> Self {
        // (a0 + a1 w)(b0 + b1 w), w^2 = v
        let c0 = M6::add(t, &M6::mul(t, &a.0[0], &b.0[0]), &t.mul_v(&M6::mul(t, &a.0[1], &b.0[1])));
        let c1 = M6::add(t, &M6::mul(t, &a.0[0], &b.0[1]), &M6::mul(t, &a.0[1], &b.0[0]));
        M12([c0, c1])
    }
    fn inv(t: &Tw, a: &Self) -> Option<Self> {
        let d = M6::sub(t, &M6::sqr(t, &a.0[0]), &t.mul_v(&M6::sqr(t, &a.0[1])));
        let di = M6::inv(t, &d)?;
        Some(M12([M6::mul(t, &a.0[0], &di), M6::neg(t, &M6::mul(t, &a.0[1], &di))]))
    }
    fn generator() -> Self {
        let mut c = vec![bu(0); 12];
        c[6] = bu(1);
        Self::from_coeffs(&c)
    }
    fn basis_images(t: &Tw, wimg: &Self) -> Vec<Self> {
        let vimg = Self::sqr(t, wimg);
        let v2 = Self::sqr(t, &vimg);
        let v3 = Self::mul(t, &v2, &vimg);
        let xi0 = Self::scale(t, &Self::one(), &t.xi.0);
        let uimg = Self::sub(t, &v3, &xi0);
        let ws = [Self::one(), wimg.clone()];
        let vs = [Self::one(), vimg, v2];
        let us = [Self::one(), uimg];
        let mut out = vec![];
        for wl in &ws {
            for vj in &vs {
                for ui in &us {
                    out.push(Self::mul(t, &Self::mul(t, wl, vj), ui));
                }
            }
        }
        out
    }
}

/// Frobenius tables: `table[k][i]` = image of the i-th basis monomial under x -> x^(p^k),
/// obtained from the image of the level's generator, which is computed by iterated p-th powering
/// (square-and-multiply) in the model. The Frobenius map is a ring homomorphism fixing Fp, so the
/// image of any element is the Fp-linear combination of these.
pub struct Frob<M: ModelEl> {
    pub table: Vec<Vec<M>>,
}

impl<M: ModelEl> Frob<M> {
    pub fn new(t: &Tw, max_k: usize) -> Self {
        let mut table = vec![];
        let mut g = M::generator();
        for k in 0..=max_k {
            if k > 0 {
                g = M::pow(t, &g, &t.f.p);
            }
            table.push(M::basis_images(t, &g));
        }
        Frob { table }
    }
    pub fn apply(&self, t: &Tw, a: &M, k: usize) -> M {
        let period = self.table.len() - 1; // table[period] == table[0] is checked by the self-check
        let k = k % period;
        let mut r = M::zero();
        for (c, b) in a.coeffs().iter().zip(&self.table[k]) {
            if !c.is_zero() {
                r = M::add(t, &r, &M::scale(t, b, c));
            }
        }
        r
    }
}

// ---------------------------------------------------------------------------------------------
// Real side
// ---------------------------------------------------------------------------------------------

pub struct TCtx<R: Field, M: ModelEl> {
    pub name: &'static str,
    pub t: Tw,
    pub alpha: Vec<(String, M, R)>,
    /// the second operands of binary operations (a subset in the quick tier)
    pub rhs: Vec<usize>,
    pub frob: Frob<M>,
    pub build: Box<dyn Fn(&M) -> R + Send + Sync>,
    pub thorough: bool,
    pub seed: u64,
}

impl<R: Field + Debug + Send + Sync, M: ModelEl> TCtx<R, M> {
    pub fn key(&self, op: &str, kind: &str) -> String {
        format!("{}:{}:{}", self.name, op, kind)
    }
    pub fn el(&self, m: &M) -> R {
        (self.build)(m)
    }
    pub fn guard<T>(&self, out: &mut CaseOut, op: &str, panics: &mut u32, detail: impl FnOnce() -> Value, f: impl FnOnce() -> T) -> Option<T> {
        match catch(f) {
            Ok(v) => Some(v),
            Err(p) => {
                *panics += 1;
                out.eval(&format!("{op}:panic"), true);
                out.viol(Viol::new(self.key(op, "panic"), format!("{op} panicked: {p}"), detail()));
                None
            }
        }
    }
    pub fn check(&self, out: &mut CaseOut, op: &str, got: &R, exp: &M, detail: impl Fn() -> Value) -> bool {
        let e = self.el(exp);
        if *got != e {
            let mut d = detail();
            d["got"] = json!(format!("{got:?}"));
            d["expected"] = exp.hex();
            out.viol(Viol::new(self.key(op, "mismatch"), format!("{op}: real result differs from the tower model"), d));
            false
        } else {
            true
        }
    }
}

pub fn nontrivial<M: ModelEl>(a: &M) -> bool {
    *a != M::zero() && *a != M::one()
}

pub fn tcs<R, M, T>(tc: &Arc<TCtx<R, M>>, op: &str, f: impl Fn(&TCtx<R, M>, &mut CaseOut) -> T + Send + Sync + 'static) -> (String, Case)
where
    R: Field + Send + Sync + 'static,
    M: ModelEl,
{
    let tc = tc.clone();
    let key = format!("{}:{}", tc.name, op);
    (
        key,
        Box::new(move || {
            let mut out = CaseOut::batch();
            let _ = f(&tc, &mut out);
            out
        }),
    )
}

/// Tower alphabet: all coefficient vectors over {0, 1, -1, seeded_i} with at most two non-zero
/// coefficients, plus dense elements.
pub fn tower_alphabet<M: ModelEl>(f: &Fp, seed: u64, tag: &str, n_dense: usize) -> Vec<(String, M)> {
    let mut rng = vcore::rng_for(seed, &format!("c10-tower-{tag}"));
    let d = M::DEG;
    let seeded: Vec<BigUint> = (0..d).map(|_| vcore::big::random_below(&mut rng, &f.p)).collect();
    let vals = |i: usize| -> Vec<(&'static str, BigUint)> { vec![("1", bu(1)), ("-1", &f.p - 1u32), ("s", seeded[i].clone())] };
    let mut out: Vec<(String, M)> = vec![("0".into(), M::zero())];
    for i in 0..d {
        for (n, v) in vals(i) {
            let mut c = vec![bu(0); d];
            c[i] = v;
            out.push((format!("{n}*e{i}"), M::from_coeffs(&c)));
        }
    }
    for i in 0..d {
        for j in (i + 1)..d {
            for (ni, vi) in vals(i) {
                for (nj, vj) in vals(j) {
                    let mut c = vec![bu(0); d];
                    c[i] = vi.clone();
                    c[j] = vj;
                    out.push((format!("{ni}*e{i}+{nj}*e{j}"), M::from_coeffs(&c)));
                }
            }
        }
    }
    for k in 0..n_dense {
        let c: Vec<BigUint> = (0..d).map(|_| vcore::big::random_below(&mut rng, &f.p)).collect();
        out.push((format!("dense{k}"), M::from_coeffs(&c)));
    }
    // all coefficients p-1 (every limb boundary of every coefficient at once)
    out.push(("all(-1)".into(), M::from_coeffs(&vec![&f.p - 1u32; d])));
    out
}

fn dm<M: ModelEl>(a: &M) -> Value {
    json!({"a": a.hex()})
}
fn dm2<M: ModelEl>(a: &M, b: &M) -> Value {
    json!({"a": a.hex(), "b": b.hex()})
}

pub fn t_un<R, M>(
    tc: &Arc<TCtx<R, M>>,
    op: &'static str,
    real: impl Fn(&R) -> R + Send + Sync + 'static,
    model: impl Fn(&TCtx<R, M>, &M) -> M + Send + Sync + 'static,
) -> (String, Case)
where
    R: Field + Debug + Send + Sync + 'static,
    M: ModelEl,
{
    tcs(tc, op, move |tc, out| {
        let mut panics = 0;
        for (_, a, x) in &tc.alpha {
            if panics >= MAX_PANICS {
                break;
            }
            let Some(r) = tc.guard(out, op, &mut panics, || dm(a), || real(x)) else { continue };
            out.eval(&format!("{op}:ok"), nontrivial(a));
            let mut e = model(tc, a);
            if crate::prime::model_broken(op) {
                e = M::add(&tc.t, &e, &M::one());
            }
            tc.check(out, op, &r, &e, || dm(a));
        }
        out.sample = Some(json!({"op": op, "operands": tc.alpha.len()}));
    })
}

pub fn t_bin<R, M>(
    tc: &Arc<TCtx<R, M>>,
    op: &'static str,
    variants: Vec<(&'static str, Box<dyn Fn(&R, &R) -> R + Send + Sync>)>,
    model: impl Fn(&Tw, &M, &M) -> M + Send + Sync + 'static,
) -> (String, Case)
where
    R: Field + Debug + Send + Sync + 'static,
    M: ModelEl,
{
    tcs(tc, op, move |tc, out| {
        let mut panics = 0;
        'outer: for (_, a, x) in &tc.alpha {
            for j in &tc.rhs {
                let (_, b, y) = &tc.alpha[*j];
                let mut e = model(&tc.t, a, b);
                if crate::prime::model_broken(op) {
                    e = M::add(&tc.t, &e, &M::one());
                }
                for (vn, f) in &variants {
                    if panics >= MAX_PANICS {
                        break 'outer;
                    }
                    let dd = || {
                        let mut d = dm2(a, b);
                        d["variant"] = json!(vn);
                        d
                    };
                    let Some(r) = tc.guard(out, op, &mut panics, dd, || f(x, y)) else { continue };
                    out.eval(&format!("{op}:ok"), nontrivial(a) && nontrivial(b));
                    tc.check(out, op, &r, &e, dd);
                }
            }
        }
        out.sample = Some(json!({"op": op, "lhs": tc.alpha.len(), "rhs": tc.rhs.len()}));
    })
}

/// Everything reachable through `ff::Field` + `ConditionallySelectable`/`ConstantTimeEq`.
pub fn generic_tower_ops<R, M>(tc: &Arc<TCtx<R, M>>, has_sqrt: bool) -> Cases
where
    R: Field + Debug + Send + Sync + 'static,
    M: ModelEl,
{
    let mut c: Cases = vec![];
    c.push(t_bin(
        tc,
        "add",
        vec![
            ("a+b", Box::new(|a: &R, b: &R| *a + *b)),
            ("a+&b", Box::new(|a: &R, b: &R| *a + b)),
            ("a+=b", Box::new(|a: &R, b: &R| {
                let mut t = *a;
                t += *b;
                t
            })),
            ("a+=&b", Box::new(|a: &R, b: &R| {
                let mut t = *a;
                t += b;
                t
            })),
        ],
        |t, a, b| M::add(t, a, b),
    ));
    c.push(t_bin(
        tc,
        "sub",
        vec![
            ("a-b", Box::new(|a: &R, b: &R| *a - *b)),
            ("a-&b", Box::new(|a: &R, b: &R| *a - b)),
            ("a-=b", Box::new(|a: &R, b: &R| {
                let mut t = *a;
                t -= *b;
                t
            })),
            ("a-=&b", Box::new(|a: &R, b: &R| {
                let mut t = *a;
                t -= b;
                t
            })),
        ],
        |t, a, b| M::sub(t, a, b),
    ));
    c.push(t_bin(
        tc,
        "mul",
        vec![
            ("a*b", Box::new(|a: &R, b: &R| *a * *b)),
            ("a*&b", Box::new(|a: &R, b: &R| *a * b)),
            ("a*=b", Box::new(|a: &R, b: &R| {
                let mut t = *a;
                t *= *b;
                t
            })),
            ("a*=&b", Box::new(|a: &R, b: &R| {
                let mut t = *a;
                t *= b;
                t
            })),
        ],
        |t, a, b| M::mul(t, a, b),
    ));
    c.push(t_un(tc, "neg", |a| -*a, |tc, a| M::neg(&tc.t, a)));
    c.push(t_un(tc, "square", |a| a.square(), |tc, a| M::sqr(&tc.t, a)));
    c.push(t_un(tc, "double", |a| a.double(), |tc, a| M::add(&tc.t, a, a)));
    c.push(t_un(tc, "cube", |a| a.cube(), |tc, a| M::mul(&tc.t, &M::sqr(&tc.t, a), a)));
    c.push(tcs(tc, "invert", |tc, out| {
        let mut panics = 0;
        for (_, a, x) in &tc.alpha {
            if panics >= MAX_PANICS {
                break;
            }
            let Some(r) = tc.guard(out, "invert", &mut panics, || dm(a), || Option::<R>::from(x.invert())) else { continue };
            let e = M::inv(&tc.t, a);
            match (r, e) {
                (Some(r), Some(e)) => {
                    out.eval("invert:some", nontrivial(a));
                    tc.check(out, "invert", &r, &e, || dm(a));
                }
                (None, None) => out.eval("invert:none", true),
                (Some(_), None) => {
                    out.eval("invert:some", true);
                    out.viol(Viol::new(tc.key("invert", "some-for-undefined"), "invert returned Some for zero", dm(a)));
                }
                (None, Some(_)) => {
                    out.eval("invert:none", true);
                    out.viol(Viol::new(tc.key("invert", "none-for-defined"), "invert returned None for a non-zero element", dm(a)));
                }
            }
        }
    }));
    c.push(tcs(tc, "is_zero", |tc, out| {
        let mut panics = 0;
        for (_, a, x) in &tc.alpha {
            if panics >= MAX_PANICS {
                break;
            }
            let Some(r) = tc.guard(out, "is_zero", &mut panics, || dm(a), || (bool::from(x.is_zero()), x.is_zero_vartime())) else { continue };
            let e = a.is_zero();
            out.eval(&format!("is_zero:{e}"), nontrivial(a));
            if r.0 != e || r.1 != e {
                out.viol(Viol::new(tc.key("is_zero", "mismatch"), format!("is_zero = {}, is_zero_vartime = {}, model says {e}", r.0, r.1), dm(a)));
            }
        }
    }));
    c.push(tcs(tc, "eq-select", |tc, out| {
        let mut panics = 0;
        'outer: for (_, a, x) in &tc.alpha {
            for j in &tc.rhs {
                let (_, b, y) = &tc.alpha[*j];
                if panics >= MAX_PANICS {
                    break 'outer;
                }
                let Some(r) = tc.guard(out, "eq-select", &mut panics, || dm2(a, b), || {
                    let mut t0 = *x;
                    t0.conditional_assign(y, Choice::from(1));
                    (bool::from(x.ct_eq(y)), x == y, R::conditional_select(x, y, Choice::from(0)), R::conditional_select(x, y, Choice::from(1)), t0)
                }) else {
                    continue;
                };
                let e = a == b;
                out.eval(&format!("eq:{e}"), a != b);
                if r.0 != e || r.1 != e {
                    out.viol(Viol::new(tc.key("eq", "mismatch"), format!("ct_eq = {}, == is {}, model says {e}", r.0, r.1), dm2(a, b)));
                }
                if r.2 != *x || r.3 != *y || r.4 != *y {
                    out.viol(Viol::new(tc.key("conditional_select", "mismatch"), "conditional_select / conditional_assign picked the wrong operand", dm2(a, b)));
                }
            }
        }
    }));
    c.push(tcs(tc, "sum-product", |tc, out| {
        let mut panics = 0;
        let sum_ref_ok = crate::prime::ref_iter_ok(tc.name, "sum-ref");
        let prod_ref_ok = crate::prime::ref_iter_ok(tc.name, "product-ref");
        out.counter("by_ref_iterator_impls_skipped_in_process", (!sum_ref_ok) as u64 + (!prod_ref_ok) as u64);
        // short runs keep the model cost bounded
        let idx: Vec<usize> = tc.rhs.clone();
        let xs: Vec<R> = idx.iter().map(|i| tc.alpha[*i].2).collect();
        let ms: Vec<&M> = idx.iter().map(|i| &tc.alpha[*i].1).collect();
        let mut acc_s = M::zero();
        let mut acc_p = M::one();
        let mut acc_pnz = M::one();
        let mut nzs: Vec<R> = vec![];
        for n in 0..=xs.len() {
            if panics >= MAX_PANICS {
                break;
            }
            if n > 0 {
                acc_s = M::add(&tc.t, &acc_s, ms[n - 1]);
                acc_p = M::mul(&tc.t, &acc_p, ms[n - 1]);
                if !ms[n - 1].is_zero() {
                    acc_pnz = M::mul(&tc.t, &acc_pnz, ms[n - 1]);
                    nzs.push(xs[n - 1]);
                }
            }
            let dd = || json!({"prefix_len": n});
            if let Some(r) = tc.guard(out, "sum", &mut panics, dd, || xs[..n].iter().copied().sum::<R>()) {
                out.eval("sum:ok", n >= 2);
                tc.check(out, "sum", &r, &acc_s, dd);
            }
            if sum_ref_ok {
                if let Some(r) = tc.guard(out, "sum-ref", &mut panics, dd, || xs[..n].iter().sum::<R>()) {
                    out.eval("sum-ref:ok", n >= 2);
                    tc.check(out, "sum-ref", &r, &acc_s, dd);
                }
            }
            if let Some(r) = tc.guard(out, "product", &mut panics, dd, || (xs[..n].iter().copied().product::<R>(), nzs.iter().copied().product::<R>())) {
                out.eval("product:ok", n >= 2);
                tc.check(out, "product", &r.0, &acc_p, dd);
                tc.check(out, "product", &r.1, &acc_pnz, dd);
            }
            if prod_ref_ok {
                if let Some(r) = tc.guard(out, "product-ref", &mut panics, dd, || (xs[..n].iter().product::<R>(), nzs.iter().product::<R>())) {
                    out.eval("product-ref:ok", n >= 2);
                    tc.check(out, "product-ref", &r.0, &acc_p, dd);
                    tc.check(out, "product-ref", &r.1, &acc_pnz, dd);
                }
            }
        }
    }));
    c.push(tcs(tc, "pow", |tc, out| {
        let mut panics = 0;
        let mut rng = vcore::rng_for(tc.seed, &format!("c10-tower-exps-{}", tc.name));
        let p = &tc.t.f.p;
        let mut es: Vec<(String, BigUint)> = vec![("0".into(), bu(0)), ("1".into(), bu(1)), ("2".into(), bu(2)), ("3".into(), bu(3)), ("2^64".into(), BigUint::one() << 64), ("p".into(), p.clone())];
        es.push(("seeded".into(), vcore::big::random_below(&mut rng, p)));
        // a sub-alphabet: the p-th power costs ~600 model multiplications
        let idx: Vec<usize> = tc.rhs.iter().copied().step_by(if tc.thorough { 1 } else { 3 }).collect();
        'outer: for i in idx {
            let (_, a, x) = &tc.alpha[i];
            for (en, e) in &es {
                if panics >= MAX_PANICS {
                    break 'outer;
                }
                let nl = ((e.bits() as usize) + 63) / 64;
                let limbs: Vec<u64> = vcore::big::to_le(e, nl.max(1) * 8).chunks(8).map(|c| u64::from_le_bytes(c.try_into().unwrap())).collect();
                let dd = || json!({"a": a.hex(), "e": en});
                let expect = M::pow(&tc.t, a, e);
                if let Some(r) = tc.guard(out, "pow", &mut panics, dd, || (x.pow(&limbs), x.pow_vartime(&limbs))) {
                    out.eval("pow:ok", nontrivial(a) && !e.is_zero());
                    tc.check(out, "pow", &r.0, &expect, dd);
                    tc.check(out, "pow_vartime", &r.1, &expect, dd);
                }
            }
        }
    }));
    if !has_sqrt {
        // sqrt / sqrt_ratio exist on the trait; record what they do on one non-trivial input
        c.push(tcs(tc, "sqrt", |tc, out| {
            let mut panics = 0;
            let (_, a, x) = &tc.alpha[tc.alpha.len() - 2];
            let sq = x.square();
            if let Some(r) = tc.guard(out, "sqrt", &mut panics, || dm(a), || Option::<R>::from(sq.sqrt())) {
                out.eval("sqrt:some", true);
                match r {
                    Some(r) if r == *x || r == -*x => {}
                    _ => out.viol(Viol::new(tc.key("sqrt", "mismatch"), "sqrt(a^2) is neither a nor -a", dm(a))),
                }
            }
        }));
    }
    c.push(tcs(tc, "sqrt_ratio", |tc, out| {
        let mut panics = 0;
        let (_, a, x) = &tc.alpha[tc.alpha.len() - 2];
        let sq = x.square();
        if let Some((flag, r)) = tc.guard(out, "sqrt_ratio", &mut panics, || dm(a), || {
            let (c, r) = R::sqrt_ratio(&sq, &R::ONE);
            (bool::from(c), r)
        }) {
            out.eval("sqrt_ratio:square", true);
            if !flag || !(r == *x || r == -*x) {
                out.viol(Viol::new(tc.key("sqrt_ratio", "mismatch"), "sqrt_ratio(a^2, 1) is not (true, +-a)", dm(a)));
            }
        }
    }));
    c
}

/// Frobenius map of the real type vs the model tables, for powers 0..=max_power.
pub fn frobenius_case<R, M>(tc: &Arc<TCtx<R, M>>, max_power: usize, real: impl Fn(&R, usize) -> R + Send + Sync + 'static) -> (String, Case)
where
    R: Field + Debug + Send + Sync + 'static,
    M: ModelEl,
{
    tcs(tc, "frobenius_map", move |tc, out| {
        let mut panics = 0;
        'outer: for (_, a, x) in &tc.alpha {
            for k in 0..=max_power {
                if panics >= MAX_PANICS {
                    break 'outer;
                }
                let dd = || json!({"a": a.hex(), "power": k});
                let Some(r) = tc.guard(out, "frobenius_map", &mut panics, dd, || real(x, k)) else { continue };
                out.eval(&format!("frobenius:k={}", k.min(12)), nontrivial(a) && k > 0);
                let e = tc.frob.apply(&tc.t, a, k);
                if r != tc.el(&e) {
                    let mut d = dd();
                    d["got"] = json!(format!("{r:?}"));
                    d["expected"] = e.hex();
                    out.viol(Viol::new(tc.key("frobenius_map", "mismatch"), format!("frobenius_map({k}) != x^(p^{k})"), d));
                }
            }
        }
        out.sample = Some(json!({"operands": tc.alpha.len(), "powers": max_power + 1}));
    })
}

/// Model Legendre symbol in Fp2: chi(a) = chi_p(norm(a)).
pub fn m2_is_square(t: &Tw, a: &M2) -> bool {
    let n = t.f.add(&t.f.sqr(&a.0), &t.f.sqr(&a.1));
    t.f.is_square(&n)
}

/// Self-checks of the model itself; returns a list of failed check names (empty = fine).
pub fn model_selfcheck<M: ModelEl>(t: &Tw, frob: &Frob<M>, dense: &[M]) -> Vec<String> {
    let mut bad = vec![];
    let g = M::generator();
    // defining relations
    match M::DEG {
        2 => {
            if M::sqr(t, &g) != M::neg(t, &M::one()) {
                bad.push("u^2 != -1".into());
            }
        }
        6 => {
            let v3 = M::mul(t, &M::sqr(t, &g), &g);
            let mut c = vec![bu(0); 6];
            c[0] = t.xi.0.clone();
            c[1] = t.xi.1.clone();
            if v3 != M::from_coeffs(&c) {
                bad.push("v^3 != xi".into());
            }
        }
        _ => {
            let mut c = vec![bu(0); 12];
            c[2] = bu(1);
            if M::sqr(t, &g) != M::from_coeffs(&c) {
                bad.push("w^2 != v".into());
            }
        }
    }
    for (i, a) in dense.iter().enumerate() {
        for b in dense {
            for c in dense {
                if M::mul(t, &M::mul(t, a, b), c) != M::mul(t, a, &M::mul(t, b, c)) {
                    bad.push("associativity".into());
                }
                if M::mul(t, a, &M::add(t, b, c)) != M::add(t, &M::mul(t, a, b), &M::mul(t, a, c)) {
                    bad.push("distributivity".into());
                }
            }
            if M::mul(t, a, b) != M::mul(t, b, a) {
                bad.push("commutativity".into());
            }
        }
        match M::inv(t, a) {
            Some(ai) => {
                if M::mul(t, a, &ai) != M::one() {
                    bad.push("a * inv(a) != 1".into());
                }
            }
            None => bad.push("dense element not invertible".into()),
        }
        // the table-based Frobenius equals direct p-th powering, and composes
        if i == 0 {
            let direct = M::pow(t, a, &t.f.p);
            if frob.apply(t, a, 1) != direct {
                bad.push("frobenius table != direct p-th power".into());
            }
            let twice = frob.apply(t, &frob.apply(t, a, 1), 1);
            if frob.apply(t, a, 2 % (frob.table.len() - 1)) != twice {
                bad.push("frobenius table does not compose".into());
            }
        }
    }
    // x^(p^DEG) = x
    if frob.table[frob.table.len() - 1] != frob.table[0] {
        bad.push("frobenius^deg != identity".into());
    }
    bad.sort();
    bad.dedup();
    bad
}
