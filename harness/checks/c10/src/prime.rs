//! Generic prime-field machinery: adaptors between a real `ff::PrimeField` type and the
//! big-integer model `vcore::big::Fp`, and case builders (one case per (field, operation) whose
//! body loops over the operand alphabet).

use std::sync::Arc;

use ff::{BatchInvert, PrimeField};
use num_bigint::BigUint;
use num_integer::Integer;
use num_traits::{One, Zero};
use serde_json::{json, Value};
use subtle::Choice;
use vcore::{
    big::{self, bu, from_be, from_le, hexs, pow2, to_be, to_le, Fp},
    catch, hex, CaseOut, Ctx, Viol,
};

pub type Case = Box<dyn Fn() -> CaseOut + Send + Sync>;
pub type Cases = Vec<(String, Case)>;

/// Stop looping over an alphabet once an operation has panicked this often inside one case.
pub const MAX_PANICS: u32 = 3;

/// Everything a case needs to know about one prime field type.
pub struct PCtx<F: PrimeField> {
    pub name: &'static str,
    /// The model (integers modulo the *stated* modulus).
    pub m: Fp,
    /// Length of `F::Repr` in bytes.
    pub nbytes: usize,
    /// Number of 64-bit limbs of the internal representation.
    pub nlimbs: usize,
    /// `F::Repr` is big-endian (k256 types) instead of little-endian.
    pub be: bool,
    pub alpha: Vec<(String, BigUint, F)>,
    pub thorough: bool,
    pub seed: u64,
}

pub fn cs<F: PrimeField, T: Send + Sync + 'static>(
    pc: &Arc<PCtx<F>>,
    op: &str,
    f: impl Fn(&PCtx<F>, &mut CaseOut) -> T + Send + Sync + 'static,
) -> (String, Case)
where
    F: Send + Sync,
{
    let pc = pc.clone();
    let key = format!("{}:{}", pc.name, op);
    let op_name = op.to_string();
    (
        key,
        Box::new(move || {
            let mut out = CaseOut::batch();
            let trace = std::env::var_os("C10_TRACE").is_some();
            if trace {
                eprintln!("start {}:{}", pc.name, op_name);
            }
            let _ = f(&pc, &mut out);
            if trace {
                eprintln!("done  {}:{}", pc.name, op_name);
            }
            out
        }),
    )
}

impl<F: PrimeField + Send + Sync> PCtx<F> {
    pub fn new(cx: &mut Ctx, name: &'static str, modulus_hex: &str, be: bool) -> Option<Arc<Self>> {
        let p = big::parse_hex(modulus_hex);
        let m = Fp::new(p.clone());
        let nbytes = F::Repr::default().as_ref().len();
        let nlimbs = ((p.bits() as usize) + 63) / 64;
        let n_seeded = cx.tier.pick(2, 4);
        let mut rng = cx.rng(&format!("c10-alpha-{name}"));
        let mut alpha_big = m.alphabet(n_seeded, &mut rng);
        // a few small integers and the published generator (a non-residue by contract), so that
        // the square-root / residuosity operations see more than a couple of non-squares
        for k in [3u64, 5, 7, 11] {
            if !alpha_big.iter().any(|x| x.1 == bu(k)) {
                alpha_big.push((k.to_string(), bu(k)));
            }
        }
        if let Ok(g) = catch(|| {
            let r = F::MULTIPLICATIVE_GENERATOR.to_repr();
            if be { from_be(r.as_ref()) } else { from_le(r.as_ref()) }
        }) {
            if g < m.p {
                for (n, v) in [("g", g.clone()), ("g^3", m.mul(&m.sqr(&g), &g)), ("-g", m.neg(&g))] {
                    if !alpha_big.iter().any(|x| x.1 == v) {
                        alpha_big.push((n.to_string(), v));
                    }
                }
            }
        }
        let mut pc = PCtx {
            name,
            m,
            nbytes,
            nlimbs,
            be,
            alpha: vec![],
            thorough: cx.tier.is_thorough(),
            seed: cx.seed,
        };
        let mut alpha = vec![];
        for (n, v) in alpha_big {
            match catch(|| pc.try_el(&v)) {
                Ok(Some(x)) => alpha.push((n, v, x)),
                Ok(None) => {
                    // cannot even build the alphabet: report as a violation and give up on this field
                    cx.report_violation(
                        name,
                        &format!("{name}:alphabet"),
                        Viol::new(
                            format!("{name}:from_repr:rejects-canonical"),
                            format!("from_repr rejected the canonical encoding of {}", hexs(&v)),
                            json!({"value": hexs(&v)}),
                        ),
                    );
                    return None;
                }
                Err(p) => {
                    cx.report_violation(
                        name,
                        &format!("{name}:alphabet"),
                        Viol::new(
                            format!("{name}:from_repr:panic"),
                            format!("from_repr panicked on a canonical encoding: {p}"),
                            json!({"value": hexs(&v)}),
                        ),
                    );
                    return None;
                }
            }
        }
        pc.alpha = alpha;
        Some(Arc::new(pc))
    }

    pub fn p(&self) -> &BigUint {
        &self.m.p
    }

    pub fn bytes_of(&self, v: &BigUint) -> Vec<u8> {
        if self.be {
            to_be(v, self.nbytes)
        } else {
            to_le(v, self.nbytes)
        }
    }

    pub fn int_of(&self, b: &[u8]) -> BigUint {
        if self.be {
            from_be(b)
        } else {
            from_le(b)
        }
    }

    pub fn repr_of_bytes(&self, b: &[u8]) -> F::Repr {
        let mut r = F::Repr::default();
        r.as_mut().copy_from_slice(b);
        r
    }

    /// `from_repr` of the encoding of `v` (which must fit the representation width).
    pub fn try_el(&self, v: &BigUint) -> Option<F> {
        Option::from(F::from_repr(self.repr_of_bytes(&self.bytes_of(v))))
    }

    /// Real element for a canonical integer (the alphabet construction has already shown that
    /// `from_repr` accepts canonical encodings; the conversion paths are cross-checked by the
    /// `conv-paths` case).
    pub fn el(&self, v: &BigUint) -> F {
        debug_assert!(v < self.p());
        self.try_el(v).expect("from_repr of a canonical encoding")
    }

    pub fn big(&self, x: &F) -> BigUint {
        self.int_of(x.to_repr().as_ref())
    }

    pub fn limbs_of(&self, v: &BigUint) -> Vec<u64> {
        let b = to_le(v, self.nlimbs * 8);
        b.chunks(8).map(|c| u64::from_le_bytes(c.try_into().unwrap())).collect()
    }

    pub fn key(&self, op: &str, kind: &str) -> String {
        format!("{}:{}:{}", self.name, op, kind)
    }

    /// Runs the subject under panic capture. A panic becomes a violation `<field>:<op>:panic`.
    pub fn guard<T>(
        &self,
        out: &mut CaseOut,
        op: &str,
        panics: &mut u32,
        detail: impl FnOnce() -> Value,
        f: impl FnOnce() -> T,
    ) -> Option<T> {
        match catch(f) {
            Ok(v) => Some(v),
            Err(p) => {
                *panics += 1;
                out.eval(&format!("{op}:panic"), true);
                out.viol(Viol::new(self.key(op, "panic"), format!("{op} panicked: {p}"), detail()));
                None
            }
        }
    }

    /// Compares a real result with the model value. Returns true when equal.
    pub fn check_val(
        &self,
        out: &mut CaseOut,
        op: &str,
        got: &F,
        exp: &BigUint,
        detail: impl Fn() -> Value,
    ) -> bool {
        let g = match catch(|| self.big(got)) {
            Ok(g) => g,
            Err(p) => {
                out.viol(Viol::new(self.key(op, "panic"), format!("to_repr of the result of {op} panicked: {p}"), detail()));
                return false;
            }
        };
        if g != *exp {
            let mut d = detail();
            d["got"] = json!(hexs(&g));
            d["expected"] = json!(hexs(exp));
            out.viol(Viol::new(self.key(op, "mismatch"), format!("{op}: real result differs from integer arithmetic mod p"), d));
            return false;
        }
        // same value: the internal representation must also be the canonical one (equality of
        // the type is limb-wise for most of these types)
        if *got != self.el(exp) {
            let mut d = detail();
            d["value"] = json!(hexs(exp));
            out.viol(Viol::new(
                self.key(op, "noncanonical-result"),
                format!("{op}: result encodes the right value but is not equal (==) to the canonical element"),
                d,
            ));
            return false;
        }
        true
    }

    pub fn nontrivial(v: &BigUint) -> bool {
        !(v.is_zero() || v.is_one())
    }
}

pub const PROBE_LIMIT_MS: u64 = 1000;

/// Harness self-test hook: `C10_SELFTEST_BREAK_MODEL=<op>` makes the *model* of the unary/binary
/// operation `<op>` wrong (adds one), which must surface as `<field>:<op>:mismatch` for every
/// field. Never set in a normal run.
pub fn model_broken(op: &str) -> bool {
    static V: std::sync::OnceLock<Option<String>> = std::sync::OnceLock::new();
    V.get_or_init(|| std::env::var("C10_SELFTEST_BREAK_MODEL").ok()).as_deref() == Some(op)
}

static PROBE_RESULTS: std::sync::Mutex<Vec<(String, String, bool)>> = std::sync::Mutex::new(Vec::new());

/// Result of the up-front probe group; probes inline when there is none (replay of one case).
pub fn ref_iter_ok(field: &str, op: &str) -> bool {
    if let Some(r) = PROBE_RESULTS.lock().unwrap().iter().find(|r| r.0 == field && r.1 == op) {
        return r.2;
    }
    let mut scratch = CaseOut::batch();
    ref_iter_probe(field, op, &mut scratch)
}

/// The up-front probe group: one case per (field, by-reference iterator implementation).
pub fn probe_cases() -> Cases {
    let mut c: Cases = vec![];
    for f in crate::probe::FIELDS {
        for op in ["sum-ref", "product-ref"] {
            c.push((
                format!("{f}:{op}"),
                Box::new(move || {
                    let mut out = CaseOut::batch();
                    let ok = ref_iter_probe(f, op, &mut out);
                    let mut g = PROBE_RESULTS.lock().unwrap();
                    g.retain(|r| !(r.0 == *f && r.1 == op));
                    g.push((f.to_string(), op.to_string(), ok));
                    out.sample = Some(json!({"field": f, "op": op, "terminates_with_right_answer": ok}));
                    out
                }),
            ));
        }
    }
    c
}

/// Probes the by-reference iterator implementation `op` ("sum-ref" / "product-ref") of `field`
/// in a child process; returns true when it is safe (terminates, right answer) to call in-process.
pub fn ref_iter_probe(field: &str, op: &str, out: &mut CaseOut) -> bool {
    use crate::probe::{run_child, Probe};
    // the confirmation re-execution of a probe that timed out runs on an otherwise idle machine
    let seen_fail = PROBE_RESULTS.lock().unwrap().iter().any(|r| r.0 == field && r.1 == op && !r.2);
    let r = run_child(field, op, std::time::Duration::from_millis(if seen_fail { PROBE_LIMIT_MS / 2 } else { PROBE_LIMIT_MS }));
    let what = if op.starts_with("sum") { "iter::Sum<&Self>" } else { "iter::Product<&Self>" };
    let d = json!({"expression": if op.starts_with("sum") { "[1, 2, 3].iter().sum::<F>()" } else { "[1, 2, 3].iter().product::<F>()" }, "probe": format!("{r:?}")});
    match r {
        Probe::Ok => {
            out.eval(&format!("{op}:probe-ok"), true);
            true
        }
        Probe::Timeout => {
            out.eval(&format!("{op}:probe-timeout"), true);
            out.viol(Viol::new(format!("{field}:{op}:nontermination"), format!("{what}: summing/multiplying an iterator of references never returns (child process killed 1 s after it announced the start of the evaluation; the same expression on a type with a correct implementation returns in microseconds)"), d));
            false
        }
        Probe::Crashed(s) => {
            out.eval(&format!("{op}:probe-crash"), true);
            out.viol(Viol::new(format!("{field}:{op}:crash"), format!("{what}: the process died ({s}), e.g. by unbounded recursion"), d));
            false
        }
        Probe::Wrong(_) => {
            out.eval(&format!("{op}:probe-wrong"), true);
            out.viol(Viol::new(format!("{field}:{op}:mismatch"), format!("{what}: 1, 2, 3 do not give 6"), d));
            false
        }
        Probe::Machinery(e) => {
            out.counter("probe_machinery_failures", 1);
            eprintln!("probe {field} {op}: {e}");
            false
        }
    }
}

fn d1(a: &BigUint) -> Value {
    json!({"a": hexs(a)})
}
fn d2(a: &BigUint, b: &BigUint) -> Value {
    json!({"a": hexs(a), "b": hexs(b)})
}

// ---------------------------------------------------------------------------------------------
// Case builders for closures (used both by the generic list and by the per-type extras)
// ---------------------------------------------------------------------------------------------

/// Unary `F -> F` operation over the whole alphabet.
pub fn un<F: PrimeField + Send + Sync>(
    pc: &Arc<PCtx<F>>,
    op: &'static str,
    real: impl Fn(&F) -> F + Send + Sync + 'static,
    model: impl Fn(&Fp, &BigUint) -> BigUint + Send + Sync + 'static,
) -> (String, Case) {
    cs(pc, op, move |pc, out| {
        let mut panics = 0;
        for (_, a, x) in &pc.alpha {
            if panics >= MAX_PANICS {
                break;
            }
            let Some(r) = pc.guard(out, op, &mut panics, || d1(a), || real(x)) else { continue };
            let mut e = model(&pc.m, a);
            if model_broken(op) {
                e = pc.m.add(&e, &bu(1));
            }
            out.eval(&format!("{op}:ok"), PCtx::<F>::nontrivial(a));
            pc.check_val(out, op, &r, &e, || d1(a));
        }
        out.sample = Some(json!({"op": op, "operands": pc.alpha.len()}));
    })
}

/// Unary `F -> Option<F>` (e.g. invert).
pub fn un_opt<F: PrimeField + Send + Sync>(
    pc: &Arc<PCtx<F>>,
    op: &'static str,
    real: impl Fn(&F) -> Option<F> + Send + Sync + 'static,
    model: impl Fn(&Fp, &BigUint) -> Option<BigUint> + Send + Sync + 'static,
) -> (String, Case) {
    cs(pc, op, move |pc, out| {
        let mut panics = 0;
        for (_, a, x) in &pc.alpha {
            if panics >= MAX_PANICS {
                break;
            }
            let Some(r) = pc.guard(out, op, &mut panics, || d1(a), || real(x)) else { continue };
            let e = model(&pc.m, a);
            match (&r, &e) {
                (Some(r), Some(e)) => {
                    out.eval(&format!("{op}:some"), PCtx::<F>::nontrivial(a));
                    pc.check_val(out, op, r, e, || d1(a));
                }
                (None, None) => out.eval(&format!("{op}:none"), true),
                (Some(_), None) => {
                    out.eval(&format!("{op}:some"), true);
                    out.viol(Viol::new(pc.key(op, "some-for-undefined"), format!("{op} returned Some where the model has no value"), d1(a)));
                }
                (None, Some(_)) => {
                    out.eval(&format!("{op}:none"), true);
                    out.viol(Viol::new(pc.key(op, "none-for-defined"), format!("{op} returned None where the model has a value"), d1(a)));
                }
            }
        }
    })
}

/// Unary predicate.
pub fn un_bool<F: PrimeField + Send + Sync>(
    pc: &Arc<PCtx<F>>,
    op: &'static str,
    real: impl Fn(&F) -> bool + Send + Sync + 'static,
    model: impl Fn(&Fp, &BigUint) -> bool + Send + Sync + 'static,
) -> (String, Case) {
    cs(pc, op, move |pc, out| {
        let mut panics = 0;
        for (_, a, x) in &pc.alpha {
            if panics >= MAX_PANICS {
                break;
            }
            let Some(r) = pc.guard(out, op, &mut panics, || d1(a), || real(x)) else { continue };
            let e = model(&pc.m, a);
            out.eval(&format!("{op}:{e}"), PCtx::<F>::nontrivial(a));
            if r != e {
                out.viol(Viol::new(pc.key(op, "mismatch"), format!("{op} = {r}, integer model says {e}"), d1(a)));
            }
        }
    })
}

/// Unary `F -> i64` (Legendre symbols, bit lengths ...).
pub fn un_int<F: PrimeField + Send + Sync>(
    pc: &Arc<PCtx<F>>,
    op: &'static str,
    real: impl Fn(&F) -> i64 + Send + Sync + 'static,
    model: impl Fn(&Fp, &BigUint) -> i64 + Send + Sync + 'static,
) -> (String, Case) {
    cs(pc, op, move |pc, out| {
        let mut panics = 0;
        for (_, a, x) in &pc.alpha {
            if panics >= MAX_PANICS {
                break;
            }
            let Some(r) = pc.guard(out, op, &mut panics, || d1(a), || real(x)) else { continue };
            let e = model(&pc.m, a);
            out.eval(&format!("{op}:{}", e.signum()), PCtx::<F>::nontrivial(a));
            if r != e {
                out.viol(Viol::new(pc.key(op, "mismatch"), format!("{op} = {r}, integer model says {e}"), d1(a)));
            }
        }
    })
}

/// Binary `F x F -> F` over alphabet^2; `variants` are differently spelled entry points that
/// must all agree with the model (owned / by reference / in place).
pub fn bin<F: PrimeField + Send + Sync>(
    pc: &Arc<PCtx<F>>,
    op: &'static str,
    variants: Vec<(&'static str, Box<dyn Fn(&F, &F) -> F + Send + Sync>)>,
    model: impl Fn(&Fp, &BigUint, &BigUint) -> BigUint + Send + Sync + 'static,
) -> (String, Case) {
    cs(pc, op, move |pc, out| {
        let mut panics = 0;
        'outer: for (_, a, x) in &pc.alpha {
            for (_, b, y) in &pc.alpha {
                let mut e = model(&pc.m, a, b);
                if model_broken(op) {
                    e = pc.m.add(&e, &bu(1));
                }
                for (vn, f) in &variants {
                    if panics >= MAX_PANICS {
                        break 'outer;
                    }
                    let dd = || {
                        let mut d = d2(a, b);
                        d["variant"] = json!(vn);
                        d
                    };
                    let Some(r) = pc.guard(out, op, &mut panics, dd, || f(x, y)) else { continue };
                    out.eval(&format!("{op}:ok"), PCtx::<F>::nontrivial(a) && PCtx::<F>::nontrivial(b));
                    pc.check_val(out, op, &r, &e, dd);
                }
            }
        }
        out.sample = Some(json!({"op": op, "pairs": pc.alpha.len() * pc.alpha.len(), "variants": variants.iter().map(|v| v.0).collect::<Vec<_>>()}));
    })
}

/// Binary predicate over alphabet^2.
pub fn bin_bool<F: PrimeField + Send + Sync>(
    pc: &Arc<PCtx<F>>,
    op: &'static str,
    real: impl Fn(&F, &F) -> bool + Send + Sync + 'static,
    model: impl Fn(&BigUint, &BigUint) -> bool + Send + Sync + 'static,
) -> (String, Case) {
    cs(pc, op, move |pc, out| {
        let mut panics = 0;
        'outer: for (_, a, x) in &pc.alpha {
            for (_, b, y) in &pc.alpha {
                if panics >= MAX_PANICS {
                    break 'outer;
                }
                let Some(r) = pc.guard(out, op, &mut panics, || d2(a, b), || real(x, y)) else { continue };
                let e = model(a, b);
                out.eval(&format!("{op}:{e}"), a != b);
                if r != e {
                    out.viol(Viol::new(pc.key(op, "mismatch"), format!("{op} = {r}, integer model says {e}"), d2(a, b)));
                }
            }
        }
    })
}

/// Constructor from raw 64-bit limbs of an arbitrary (possibly >= p) integer: result must be the
/// integer reduced mod p.
pub fn from_limbs<F: PrimeField + Send + Sync>(
    pc: &Arc<PCtx<F>>,
    op: &'static str,
    real: impl Fn(&[u64]) -> F + Send + Sync + 'static,
) -> (String, Case) {
    cs(pc, op, move |pc, out| {
        let mut panics = 0;
        let w = pc.nlimbs * 8;
        let mut inputs: Vec<BigUint> = pc.alpha.iter().map(|a| a.1.clone()).collect();
        let top = pow2(8 * w as u32);
        for v in [pc.p().clone(), pc.p() + 1u32, pc.p() * 2u32, pc.p() * 2u32 + 1u32, &top - 1u32, &top - pc.p(), pow2(8 * w as u32 - 1)] {
            if v < top {
                inputs.push(v);
            }
        }
        for a in &inputs {
            if panics >= MAX_PANICS {
                break;
            }
            let limbs: Vec<u64> = to_le(a, w).chunks(8).map(|c| u64::from_le_bytes(c.try_into().unwrap())).collect();
            let Some(r) = pc.guard(out, op, &mut panics, || d1(a), || real(&limbs)) else { continue };
            out.eval(if a < pc.p() { "from-limbs:canonical" } else { "from-limbs:reduced" }, PCtx::<F>::nontrivial(a));
            pc.check_val(out, op, &r, &pc.m.red(a), || d1(a));
        }
    })
}

/// Encoder: bytes of a canonical element must be the fixed-width encoding of its integer.
pub fn encoder<F: PrimeField + Send + Sync>(
    pc: &Arc<PCtx<F>>,
    op: &'static str,
    be: bool,
    real: impl Fn(&F) -> Vec<u8> + Send + Sync + 'static,
) -> (String, Case) {
    cs(pc, op, move |pc, out| {
        let mut panics = 0;
        for (_, a, x) in &pc.alpha {
            if panics >= MAX_PANICS {
                break;
            }
            let Some(r) = pc.guard(out, op, &mut panics, || d1(a), || real(x)) else { continue };
            let e = if be { to_be(a, r.len().max(1)) } else { to_le(a, r.len().max(1)) };
            out.eval(&format!("{op}:ok"), PCtx::<F>::nontrivial(a));
            if r != e {
                out.viol(Viol::new(pc.key(op, "mismatch"), format!("{op}: encoding differs from the fixed-width integer encoding"), json!({"a": hexs(a), "got": hex(&r), "expected": hex(&e)})));
            }
        }
    })
}

/// How an integer below 2^(8*width) is presented to a decoder.
#[derive(Clone)]
pub enum Enc {
    Le,
    Be,
    /// A rendered document (e.g. JSON) of the integer.
    Doc(Arc<dyn Fn(&BigUint) -> String + Send + Sync>),
}

impl Enc {
    pub fn render(&self, v: &BigUint, width: usize) -> Vec<u8> {
        match self {
            Enc::Le => to_le(v, width),
            Enc::Be => to_be(v, width),
            Enc::Doc(f) => f(v).into_bytes(),
        }
    }
    pub fn name(&self) -> &'static str {
        match self {
            Enc::Le => "little-endian",
            Enc::Be => "big-endian",
            Enc::Doc(_) => "document",
        }
    }
    pub fn of(be: bool) -> Enc {
        if be {
            Enc::Be
        } else {
            Enc::Le
        }
    }
}

/// Inputs (as integers below 2^(8*width)) for a checked decoder of `width` bytes.
pub fn decoder_inputs<F: PrimeField + Send + Sync>(pc: &PCtx<F>, width: usize) -> Vec<(String, BigUint)> {
    let p = pc.p();
    let top = pow2(8 * width as u32);
    let bits = p.bits() as u32;
    let mut v: Vec<(String, BigUint)> = vec![
        ("0".into(), bu(0)),
        ("1".into(), bu(1)),
        ("p-2".into(), p - 2u32),
        ("p-1".into(), p - 1u32),
        ("p".into(), p.clone()),
        ("p+1".into(), p + 1u32),
        ("p+2^64".into(), p + pow2(64)),
        ("2p-1".into(), p * 2u32 - 1u32),
        ("2p".into(), p * 2u32),
        ("2p+1".into(), p * 2u32 + 1u32),
        ("2^bits-1".into(), pow2(bits) - 1u32),
        ("2^bits".into(), pow2(bits)),
        ("2^(bits-1)".into(), pow2(bits - 1)),
        ("all-ff".into(), &top - 1u32),
        ("top-bit-only".into(), pow2(8 * width as u32 - 1)),
        ("p|top-bit".into(), p | &pow2(8 * width as u32 - 1)),
        ("(p-1)|top-bit".into(), (p - 1u32) | &pow2(8 * width as u32 - 1)),
    ];
    // one limb of the modulus replaced by all-ones / zero
    for k in 0..pc.nlimbs {
        let mask = (pow2(64) - 1u32) << (64 * k);
        v.push((format!("p|limb{k}-ones"), p | &mask));
        let cleared = p - (p & &mask);
        v.push((format!("p&~limb{k}"), cleared));
    }
    // single-bit flips of canonical encodings
    let mut flip_bases: Vec<(String, BigUint)> = vec![
        ("0".into(), bu(0)),
        ("p-1".into(), p - 1u32),
        ("(p-1)/2".into(), (p - 1u32) >> 1),
    ];
    let n_seeded_flip = if pc.thorough { 5 } else { 1 };
    let mut rng = vcore::rng_for(pc.seed, &format!("c10-decoder-{}", pc.name));
    for i in 0..n_seeded_flip {
        flip_bases.push((format!("seeded{i}"), big::random_below(&mut rng, p)));
    }
    for (bn, base) in &flip_bases {
        for bit in 0..(8 * width as u32) {
            v.push((format!("{bn}^bit{bit}"), base ^ pow2(bit)));
        }
    }
    v.retain(|(_, x)| *x < top);
    v
}

/// Checked decoder: must accept exactly the encodings of integers < p, return that integer, and
/// (if `reenc` is given) re-encode to the same bytes.
///
/// `value_of` maps the encoded integer to the field value it denotes (identity for canonical
/// encodings, multiplication by R^-1 for Montgomery-form "raw" formats).
#[allow(clippy::too_many_arguments)]
pub fn decoder<F: PrimeField + Send + Sync>(
    pc: &Arc<PCtx<F>>,
    op: &'static str,
    enc: Enc,
    width: usize,
    real: impl Fn(&[u8]) -> Option<F> + Send + Sync + 'static,
    reenc: Option<Box<dyn Fn(&F) -> Vec<u8> + Send + Sync>>,
    value_of: impl Fn(&Fp, &BigUint) -> BigUint + Send + Sync + 'static,
) -> (String, Case) {
    cs(pc, op, move |pc, out| {
        let mut panics = 0;
        let inputs = decoder_inputs(pc, width);
        for (label, v) in &inputs {
            if panics >= MAX_PANICS {
                break;
            }
            let bytes = enc.render(v, width);
            let canonical = v < pc.p();
            let dd = || json!({"input": label, "bytes": hex(&bytes), "integer": hexs(v), "canonical": canonical});
            // a panic of a *checked* decoder on a non-canonical input is its own finding kind
            let r = match catch(|| real(&bytes)) {
                Ok(r) => r,
                Err(pmsg) => {
                    panics += 1;
                    out.eval(&format!("{op}:panic"), true);
                    let kind = if canonical { "panic" } else { "panic-on-noncanonical" };
                    out.viol(Viol::new(pc.key(op, kind), format!("{op} panicked instead of returning a verdict: {pmsg}"), dd()));
                    continue;
                }
            };
            match (r, canonical) {
                (Some(x), true) => {
                    out.eval(&format!("{op}:accept"), PCtx::<F>::nontrivial(v));
                    let e = value_of(&pc.m, v);
                    if pc.check_val(out, op, &x, &e, dd) {
                        if let Some(re) = &reenc {
                            match catch(|| re(&x)) {
                                Ok(b2) => {
                                    if b2 != bytes {
                                        let mut d = dd();
                                        d["reencoded"] = json!(hex(&b2));
                                        out.viol(Viol::new(pc.key(op, "roundtrip"), format!("{op}: accepted encoding does not re-encode to the same bytes"), d));
                                    }
                                }
                                Err(pm) => out.viol(Viol::new(pc.key(op, "panic"), format!("re-encoding panicked: {pm}"), dd())),
                            }
                        }
                    }
                }
                (None, false) => out.eval(&format!("{op}:reject"), true),
                (Some(_), false) => {
                    out.eval(&format!("{op}:accept-noncanonical"), true);
                    out.viol(Viol::new(pc.key(op, "accepts-noncanonical"), format!("{op} accepted an encoding of an integer >= p"), dd()));
                }
                (None, true) => {
                    out.eval(&format!("{op}:reject-canonical"), true);
                    out.viol(Viol::new(pc.key(op, "rejects-canonical"), format!("{op} rejected the canonical encoding of an integer < p"), dd()));
                }
            }
        }
        out.sample = Some(json!({"op": op, "inputs": inputs.len(), "width": width, "encoding": enc.name()}));
    })
}

/// 64-/48-byte inputs for uniform reduction.
pub fn uniform_inputs<F: PrimeField + Send + Sync>(pc: &PCtx<F>, n: usize) -> Vec<(String, Vec<u8>)> {
    let mut v: Vec<(String, Vec<u8>)> = vec![];
    v.push(("zero".into(), vec![0u8; n]));
    v.push(("all-ff".into(), vec![0xffu8; n]));
    for bit in 0..(8 * n) {
        let mut b = vec![0u8; n];
        b[bit / 8] |= 1 << (bit % 8);
        v.push((format!("bit{bit}"), b));
    }
    let lo_w = pc.nlimbs * 8;
    let lo_w = lo_w.min(n);
    let hi_w = n - lo_w;
    let p = pc.p();
    let lo_top = pow2(8 * lo_w as u32);
    let halves: Vec<(&str, BigUint)> = vec![
        ("0", bu(0)),
        ("1", bu(1)),
        ("p-1", p - 1u32),
        ("p", p.clone()),
        ("p+1", p + 1u32),
        ("2p", p * 2u32),
        ("ff", &lo_top - 1u32),
        ("R", &lo_top % p),
    ];
    for (ln, l) in &halves {
        for (hn, h) in &halves {
            let l = l % &lo_top;
            let mut b = to_le(&l, lo_w);
            if hi_w > 0 {
                let h = h % pow2(8 * hi_w as u32);
                b.extend(to_le(&h, hi_w));
            }
            v.push((format!("lo={ln},hi={hn}"), b));
        }
    }
    let mut rng = vcore::rng_for(pc.seed, &format!("c10-uniform-{}-{n}", pc.name));
    for i in 0..(if pc.thorough { 64 } else { 8 }) {
        let mut b = vec![0u8; n];
        rand_core::RngCore::fill_bytes(&mut rng, &mut b);
        v.push((format!("seeded{i}"), b));
    }
    v
}

/// Reduction from uniform bytes: result == `model(bytes)` (default: little-endian integer mod p).
pub fn uniform<F: PrimeField + Send + Sync>(
    pc: &Arc<PCtx<F>>,
    op: &'static str,
    n: usize,
    real: impl Fn(&[u8]) -> F + Send + Sync + 'static,
    model: impl Fn(&Fp, &[u8]) -> BigUint + Send + Sync + 'static,
) -> (String, Case) {
    cs(pc, op, move |pc, out| {
        let mut panics = 0;
        let inputs = uniform_inputs(pc, n);
        for (label, b) in &inputs {
            if panics >= MAX_PANICS {
                break;
            }
            let dd = || json!({"input": label, "bytes": hex(b)});
            let Some(r) = pc.guard(out, op, &mut panics, dd, || real(b)) else { continue };
            let e = model(&pc.m, b);
            let wide = from_le(b) >= *pc.p();
            out.eval(if wide { "uniform:reduced" } else { "uniform:small" }, true);
            pc.check_val(out, op, &r, &e, dd);
        }
        out.sample = Some(json!({"op": op, "inputs": inputs.len(), "bytes": n}));
    })
}

// ---------------------------------------------------------------------------------------------
// The generic list: everything reachable through ff::Field / ff::PrimeField
// ---------------------------------------------------------------------------------------------

fn exps<F: PrimeField + Send + Sync>(pc: &PCtx<F>) -> Vec<(String, BigUint)> {
    let p = pc.p();
    let mut rng = vcore::rng_for(pc.seed, &format!("c10-exps-{}", pc.name));
    let mut v = vec![
        ("0".to_string(), bu(0)),
        ("1".into(), bu(1)),
        ("2".into(), bu(2)),
        ("3".into(), bu(3)),
        ("p-1".into(), p - 1u32),
        ("p-2".into(), p - 2u32),
        ("(p-1)/2".into(), (p - 1u32) >> 1),
        ("p".into(), p.clone()),
        ("2^64-1".into(), pow2(64) - 1u32),
        ("2^64".into(), pow2(64)),
        ("all-ones".into(), pow2(64 * pc.nlimbs as u32) - 1u32),
    ];
    for i in 0..(if pc.thorough { 4 } else { 2 }) {
        v.push((format!("seeded{i}"), big::random_below(&mut rng, p)));
    }
    v
}

pub fn generic_ops<F>(pc: &Arc<PCtx<F>>) -> Cases
where
    F: PrimeField + Send + Sync,
{
    let mut c: Cases = vec![];
    // ---- conversion paths agree (this validates the adaptors used everywhere else)
    c.push(cs(pc, "conv-paths", |pc, out| {
        let mut panics = 0;
        for (_, a, x) in &pc.alpha {
            if panics >= MAX_PANICS {
                break;
            }
            let dec = a.to_str_radix(10);
            let Some(s) = pc.guard(out, "from_str_vartime", &mut panics, || d1(a), || F::from_str_vartime(&dec)) else { continue };
            out.eval("conv:ok", PCtx::<F>::nontrivial(a));
            match s {
                None => out.viol(Viol::new(pc.key("from_str_vartime", "none-for-defined"), "from_str_vartime rejected a decimal string", d1(a))),
                Some(s) => {
                    pc.check_val(out, "from_str_vartime", &s, a, || d1(a));
                    if s != *x {
                        out.viol(Viol::new(pc.key("conv-paths", "mismatch"), "from_repr and from_str_vartime build different elements for one integer", d1(a)));
                    }
                }
            }
            // to_repr/from_repr round trip
            if let Some(r) = pc.guard(out, "to_repr", &mut panics, || d1(a), || x.to_repr()) {
                let eb = pc.bytes_of(a);
                if r.as_ref() != &eb[..] {
                    out.viol(Viol::new(pc.key("to_repr", "mismatch"), "to_repr is not the fixed-width encoding of the integer", json!({"a": hexs(a), "got": hex(r.as_ref())})));
                }
                if let Some(back) = pc.guard(out, "from_repr", &mut panics, || d1(a), || Option::<F>::from(F::from_repr(r))) {
                    if back != Some(*x) {
                        out.viol(Viol::new(pc.key("from_repr", "roundtrip"), "from_repr(to_repr(x)) != x", d1(a)));
                    }
                }
                if let Some(back) = pc.guard(out, "from_repr_vartime", &mut panics, || d1(a), || F::from_repr_vartime(r)) {
                    if back != Some(*x) {
                        out.viol(Viol::new(pc.key("from_repr_vartime", "roundtrip"), "from_repr_vartime(to_repr(x)) != x", d1(a)));
                    }
                }
            }
        }
        // strings that must be rejected / reduced
        for (s, e) in [
            ("", None),
            ("00", None),
            ("01", None),
            ("-1", None),
            ("1a", None),
            (" 1", None),
            ("0", Some(bu(0))),
        ] {
            if let Some(r) = pc.guard(out, "from_str_vartime", &mut panics, || json!({"s": s}), || F::from_str_vartime(s)) {
                out.eval(if e.is_some() { "conv:str-accept" } else { "conv:str-reject" }, true);
                let rb = r.map(|x| pc.big(&x));
                if rb != e {
                    out.viol(Viol::new(pc.key("from_str_vartime", "mismatch"), "from_str_vartime: wrong verdict on a malformed / trivial string", json!({"s": s})));
                }
            }
        }
        for v in [pc.p().clone(), pc.p() + 1u32, pc.p() * 3u32 + 7u32, pow2(600) + 5u32] {
            let s = v.to_str_radix(10);
            if let Some(r) = pc.guard(out, "from_str_vartime", &mut panics, || d1(&v), || F::from_str_vartime(&s)) {
                out.eval("conv:str-reduced", true);
                match r {
                    Some(x) => {
                        pc.check_val(out, "from_str_vartime", &x, &pc.m.red(&v), || d1(&v));
                    }
                    None => out.viol(Viol::new(pc.key("from_str_vartime", "none-for-defined"), "from_str_vartime rejected a decimal string >= p (documented as congruent reduction)", d1(&v))),
                }
            }
        }
        out.sample = Some(json!({"alphabet": pc.alpha.iter().map(|a| a.0.clone()).collect::<Vec<_>>()}));
    }));

    // ---- binary operations, all spellings required by ff::Field
    c.push(bin(
        pc,
        "add",
        vec![
            ("a+b", Box::new(|a: &F, b: &F| *a + *b)),
            ("a+&b", Box::new(|a: &F, b: &F| *a + b)),
            ("a+=b", Box::new(|a: &F, b: &F| {
                let mut t = *a;
                t += *b;
                t
            })),
            ("a+=&b", Box::new(|a: &F, b: &F| {
                let mut t = *a;
                t += b;
                t
            })),
        ],
        |m, a, b| m.add(a, b),
    ));
    c.push(bin(
        pc,
        "sub",
        vec![
            ("a-b", Box::new(|a: &F, b: &F| *a - *b)),
            ("a-&b", Box::new(|a: &F, b: &F| *a - b)),
            ("a-=b", Box::new(|a: &F, b: &F| {
                let mut t = *a;
                t -= *b;
                t
            })),
            ("a-=&b", Box::new(|a: &F, b: &F| {
                let mut t = *a;
                t -= b;
                t
            })),
        ],
        |m, a, b| m.sub(a, b),
    ));
    c.push(bin(
        pc,
        "mul",
        vec![
            ("a*b", Box::new(|a: &F, b: &F| *a * *b)),
            ("a*&b", Box::new(|a: &F, b: &F| *a * b)),
            ("a*=b", Box::new(|a: &F, b: &F| {
                let mut t = *a;
                t *= *b;
                t
            })),
            ("a*=&b", Box::new(|a: &F, b: &F| {
                let mut t = *a;
                t *= b;
                t
            })),
        ],
        |m, a, b| m.mul(a, b),
    ));
    // ---- unary
    c.push(un(pc, "neg", |a| -*a, |m, a| m.neg(a)));
    c.push(un(pc, "square", |a| a.square(), |m, a| m.sqr(a)));
    c.push(un(pc, "double", |a| a.double(), |m, a| m.add(a, a)));
    c.push(un(pc, "cube", |a| a.cube(), |m, a| m.mul(&m.sqr(a), a)));
    c.push(un_opt(pc, "invert", |a| a.invert().into(), |m, a| m.inv(a)));
    c.push(un_bool(pc, "is_zero", |a| a.is_zero().into(), |_, a| a.is_zero()));
    c.push(un_bool(pc, "is_zero_vartime", |a| a.is_zero_vartime(), |_, a| a.is_zero()));
    c.push(un_bool(pc, "is_odd", |a| a.is_odd().into(), |_, a| a.is_odd()));
    c.push(un_bool(pc, "is_even", |a| a.is_even().into(), |_, a| a.is_even()));
    // ---- sqrt: Some(r) with r^2 == a iff a is a square
    c.push(cs(pc, "sqrt", |pc, out| {
        let mut panics = 0;
        for (_, a, x) in &pc.alpha {
            if panics >= MAX_PANICS {
                break;
            }
            let Some(r) = pc.guard(out, "sqrt", &mut panics, || d1(a), || Option::<F>::from(x.sqrt())) else { continue };
            let sq = pc.m.is_square(a);
            match (r, sq) {
                (Some(r), true) => {
                    out.eval("sqrt:some", PCtx::<F>::nontrivial(a));
                    let rb = pc.big(&r);
                    if pc.m.sqr(&rb) != *a {
                        out.viol(Viol::new(pc.key("sqrt", "mismatch"), "sqrt returned r with r^2 != a", json!({"a": hexs(a), "r": hexs(&rb)})));
                    } else if r != pc.el(&rb) {
                        out.viol(Viol::new(pc.key("sqrt", "noncanonical-result"), "sqrt result is not in canonical internal form", d1(a)));
                    }
                }
                (None, false) => out.eval("sqrt:none", true),
                (Some(_), false) => {
                    out.eval("sqrt:some", true);
                    out.viol(Viol::new(pc.key("sqrt", "some-for-undefined"), "sqrt returned Some for a quadratic non-residue", d1(a)));
                }
                (None, true) => {
                    out.eval("sqrt:none", true);
                    out.viol(Viol::new(pc.key("sqrt", "none-for-defined"), "sqrt returned None for a square", d1(a)));
                }
            }
        }
    }));
    // ---- sqrt_ratio (ff contract)
    c.push(cs(pc, "sqrt_ratio", |pc, out| {
        let mut panics = 0;
        let mut gs: Option<BigUint> = None;
        'outer: for (_, a, x) in &pc.alpha {
            for (_, b, y) in &pc.alpha {
                if panics >= MAX_PANICS {
                    break 'outer;
                }
                let Some((flag, r)) = pc.guard(out, "sqrt_ratio", &mut panics, || d2(a, b), || {
                    let (c, r) = F::sqrt_ratio(x, y);
                    (bool::from(c), r)
                }) else {
                    continue;
                };
                let rb = pc.big(&r);
                let r2 = pc.m.sqr(&rb);
                let (class, ok) = if a.is_zero() {
                    ("sqrt_ratio:num-zero", flag && rb.is_zero())
                } else if b.is_zero() {
                    ("sqrt_ratio:div-zero", !flag && rb.is_zero())
                } else {
                    let q = pc.m.div(a, b).unwrap();
                    if pc.m.is_square(&q) {
                        ("sqrt_ratio:square", flag && r2 == q)
                    } else {
                        // r^2 = G_S * q for one fixed non-square G_S
                        let g = pc.m.div(&r2, &q).unwrap();
                        let same = match &gs {
                            None => {
                                gs = Some(g.clone());
                                true
                            }
                            Some(g0) => *g0 == g,
                        };
                        ("sqrt_ratio:nonsquare", !flag && !pc.m.is_square(&g) && same)
                    }
                };
                out.eval(class, PCtx::<F>::nontrivial(a) && PCtx::<F>::nontrivial(b));
                if !ok {
                    out.viol(Viol::new(pc.key("sqrt_ratio", "mismatch"), format!("sqrt_ratio violates the ff contract in class {class}"), json!({"num": hexs(a), "div": hexs(b), "flag": flag, "r": hexs(&rb)})));
                }
            }
        }
    }));
    // ---- sqrt_alt = sqrt_ratio(x, 1)
    c.push(cs(pc, "sqrt_alt", |pc, out| {
        let mut panics = 0;
        // sqrt_alt is the provided method sqrt_ratio(self, ONE): a panicking sqrt_ratio is
        // reported once, by the sqrt_ratio case
        if catch(|| F::sqrt_ratio(&F::ONE, &F::ONE)).is_err() {
            out.eval("sqrt_alt:skipped-sqrt_ratio-panics", true);
            return;
        }
        for (_, a, x) in &pc.alpha {
            if panics >= MAX_PANICS {
                break;
            }
            let Some((flag, r)) = pc.guard(out, "sqrt_alt", &mut panics, || d1(a), || {
                let (c, r) = x.sqrt_alt();
                (bool::from(c), r)
            }) else {
                continue;
            };
            let rb = pc.big(&r);
            let sq = pc.m.is_square(a);
            out.eval(if sq { "sqrt_alt:square" } else { "sqrt_alt:nonsquare" }, PCtx::<F>::nontrivial(a));
            let ok = if sq { flag && pc.m.sqr(&rb) == *a } else { !flag };
            if !ok {
                out.viol(Viol::new(pc.key("sqrt_alt", "mismatch"), "sqrt_alt violates the ff contract", json!({"a": hexs(a), "flag": flag, "r": hexs(&rb)})));
            }
        }
    }));
    // ---- pow / pow_vartime
    c.push(cs(pc, "pow", |pc, out| {
        let mut panics = 0;
        let es = exps(pc);
        'outer: for (_, a, x) in &pc.alpha {
            for (en, e) in &es {
                if panics >= MAX_PANICS {
                    break 'outer;
                }
                let limbs = pc.limbs_of(e);
                let dd = || json!({"a": hexs(a), "e": en});
                let expect = pc.m.pow(a, e);
                if let Some(r) = pc.guard(out, "pow", &mut panics, dd, || x.pow(&limbs)) {
                    out.eval("pow:ok", PCtx::<F>::nontrivial(a) && PCtx::<F>::nontrivial(e));
                    pc.check_val(out, "pow", &r, &expect, dd);
                }
                if let Some(r) = pc.guard(out, "pow_vartime", &mut panics, dd, || x.pow_vartime(&limbs)) {
                    out.eval("pow_vartime:ok", PCtx::<F>::nontrivial(a) && PCtx::<F>::nontrivial(e));
                    pc.check_val(out, "pow_vartime", &r, &expect, dd);
                }
            }
        }
    }));
    // ---- ct_eq / == / conditional_select / conditional_assign
    c.push(bin_bool(pc, "ct_eq", |a, b| a.ct_eq(b).into(), |a, b| a == b));
    c.push(bin_bool(pc, "eq", |a, b| a == b, |a, b| a == b));
    c.push(cs(pc, "conditional_select", |pc, out| {
        let mut panics = 0;
        'outer: for (_, a, x) in &pc.alpha {
            for (_, b, y) in &pc.alpha {
                for ch in [0u8, 1u8] {
                    if panics >= MAX_PANICS {
                        break 'outer;
                    }
                    let e = if ch == 1 { b } else { a };
                    let dd = || json!({"a": hexs(a), "b": hexs(b), "choice": ch});
                    if let Some(r) = pc.guard(out, "conditional_select", &mut panics, dd, || F::conditional_select(x, y, Choice::from(ch))) {
                        out.eval("conditional_select:ok", a != b);
                        pc.check_val(out, "conditional_select", &r, e, dd);
                    }
                    if let Some(r) = pc.guard(out, "conditional_assign", &mut panics, dd, || {
                        let mut t = *x;
                        t.conditional_assign(y, Choice::from(ch));
                        t
                    }) {
                        pc.check_val(out, "conditional_assign", &r, e, dd);
                    }
                }
            }
        }
    }));
    // ---- Sum / Product over prefixes of the alphabet, owned and by reference. The by-reference
    // implementations are first probed out of process (they may not terminate).
    c.push(cs(pc, "sum-product", |pc, out| {
        let mut panics = 0;
        let sum_ref_ok = ref_iter_ok(pc.name, "sum-ref");
        let prod_ref_ok = ref_iter_ok(pc.name, "product-ref");
        out.counter("by_ref_iterator_impls_skipped_in_process", (!sum_ref_ok) as u64 + (!prod_ref_ok) as u64);
        let xs: Vec<F> = pc.alpha.iter().map(|a| a.2).collect();
        let mut acc_s = bu(0);
        let mut acc_p = bu(1);
        // product over the non-zero part too (otherwise everything after "0" is 0)
        let nz: Vec<(BigUint, F)> = pc.alpha.iter().filter(|a| !a.1.is_zero()).map(|a| (a.1.clone(), a.2)).collect();
        for n in 0..=xs.len() {
            if panics >= MAX_PANICS {
                break;
            }
            if n > 0 {
                acc_s = pc.m.add(&acc_s, &pc.alpha[n - 1].1);
                acc_p = pc.m.mul(&acc_p, &pc.alpha[n - 1].1);
            }
            let dd = || json!({"prefix_len": n});
            if let Some(r) = pc.guard(out, "sum", &mut panics, dd, || xs[..n].iter().copied().sum::<F>()) {
                out.eval("sum:ok", n >= 2);
                pc.check_val(out, "sum", &r, &acc_s, dd);
            }
            if sum_ref_ok {
                if let Some(r) = pc.guard(out, "sum-ref", &mut panics, dd, || xs[..n].iter().sum::<F>()) {
                    out.eval("sum-ref:ok", n >= 2);
                    pc.check_val(out, "sum-ref", &r, &acc_s, dd);
                }
            }
            if let Some(r) = pc.guard(out, "product", &mut panics, dd, || xs[..n].iter().copied().product::<F>()) {
                out.eval("product:ok", n >= 2);
                pc.check_val(out, "product", &r, &acc_p, dd);
            }
            if prod_ref_ok {
                if let Some(r) = pc.guard(out, "product-ref", &mut panics, dd, || xs[..n].iter().product::<F>()) {
                    out.eval("product-ref:ok", n >= 2);
                    pc.check_val(out, "product-ref", &r, &acc_p, dd);
                }
            }
        }
        let mut acc = bu(1);
        for n in 0..=nz.len() {
            if panics >= MAX_PANICS {
                break;
            }
            if n > 0 {
                acc = pc.m.mul(&acc, &nz[n - 1].0);
            }
            let dd = || json!({"nonzero_prefix_len": n});
            if let Some(r) = pc.guard(out, "product", &mut panics, dd, || nz[..n].iter().map(|t| t.1).product::<F>()) {
                out.eval("product:nonzero", n >= 2);
                pc.check_val(out, "product", &r, &acc, dd);
            }
            if prod_ref_ok {
                let v: Vec<F> = nz[..n].iter().map(|t| t.1).collect();
                if let Some(r) = pc.guard(out, "product-ref", &mut panics, dd, || v.iter().product::<F>()) {
                    pc.check_val(out, "product-ref", &r, &acc, dd);
                }
            }
        }
    }));
    // ---- batch_invert on slices with and without zeros
    c.push(cs(pc, "batch_invert", |pc, out| {
        let mut panics = 0;
        let all: Vec<(BigUint, F)> = pc.alpha.iter().map(|a| (a.1.clone(), a.2)).collect();
        let nz: Vec<(BigUint, F)> = all.iter().filter(|a| !a.0.is_zero()).cloned().collect();
        let zero = all.iter().find(|a| a.0.is_zero()).cloned().unwrap();
        let mut lists: Vec<(String, Vec<(BigUint, F)>)> = vec![
            ("empty".into(), vec![]),
            ("[0]".into(), vec![zero.clone()]),
            ("[0,0]".into(), vec![zero.clone(), zero.clone()]),
            ("all".into(), all.clone()),
            ("nonzero".into(), nz.clone()),
        ];
        for (i, e) in nz.iter().enumerate() {
            lists.push((format!("[nz{i}]"), vec![e.clone()]));
            lists.push((format!("[0,nz{i},0]"), vec![zero.clone(), e.clone(), zero.clone()]));
        }
        let mut rev = all.clone();
        rev.reverse();
        lists.push(("all-reversed".into(), rev));
        for (ln, l) in &lists {
            if panics >= MAX_PANICS {
                break;
            }
            let dd = || json!({"list": ln});
            let Some((ret, v)) = pc.guard(out, "batch_invert", &mut panics, dd, || {
                let mut v: Vec<F> = l.iter().map(|t| t.1).collect();
                let r = v.iter_mut().batch_invert();
                (r, v)
            }) else {
                continue;
            };
            out.eval(if l.iter().any(|t| t.0.is_zero()) { "batch_invert:with-zeros" } else { "batch_invert:no-zeros" }, l.len() >= 2);
            let mut prod = bu(1);
            for (i, (a, _)) in l.iter().enumerate() {
                let e = pc.m.inv(a).unwrap_or_else(|| bu(0));
                if !a.is_zero() {
                    prod = pc.m.mul(&prod, a);
                }
                pc.check_val(out, "batch_invert", &v[i], &e, || json!({"list": ln, "index": i, "a": hexs(a)}));
            }
            let e = pc.m.inv(&prod).unwrap();
            pc.check_val(out, "batch_invert", &ret, &e, || json!({"list": ln, "what": "returned inverse of the product of the non-zero members"}));
        }
    }));
    // ---- from_u128 / From<u64>
    c.push(cs(pc, "from_int", |pc, out| {
        let mut panics = 0;
        let mut rng = vcore::rng_for(pc.seed, &format!("c10-fromint-{}", pc.name));
        let mut v128: Vec<u128> = vec![0, 1, 2, u64::MAX as u128, 1u128 << 64, (1u128 << 64) + 1, 1u128 << 127, u128::MAX, u128::MAX - 1];
        let mut v64: Vec<u64> = vec![0, 1, 2, 10, u32::MAX as u64, 1u64 << 32, 1u64 << 63, u64::MAX, u64::MAX - 1];
        for _ in 0..4 {
            let a = rand_core::RngCore::next_u64(&mut rng);
            let b = rand_core::RngCore::next_u64(&mut rng);
            v64.push(a);
            v128.push(((a as u128) << 64) | b as u128);
        }
        for v in v128 {
            if panics >= MAX_PANICS {
                break;
            }
            let dd = || json!({"v": format!("{v:#x}")});
            if let Some(r) = pc.guard(out, "from_u128", &mut panics, dd, || F::from_u128(v)) {
                out.eval("from_u128:ok", v > 1);
                pc.check_val(out, "from_u128", &r, &pc.m.red(&BigUint::from(v)), dd);
            }
        }
        for v in v64 {
            if panics >= MAX_PANICS {
                break;
            }
            let dd = || json!({"v": format!("{v:#x}")});
            if let Some(r) = pc.guard(out, "from_u64", &mut panics, dd, || F::from(v)) {
                out.eval("from_u64:ok", v > 1);
                pc.check_val(out, "from_u64", &r, &pc.m.red(&BigUint::from(v)), dd);
            }
        }
    }));
    c
}

/// Checked decoders reachable through the `PrimeField` trait.
pub fn generic_decoders<F: PrimeField + Send + Sync>(pc: &Arc<PCtx<F>>) -> Cases {
    let (be, w) = (pc.be, pc.nbytes);
    let p1 = pc.clone();
    let p2 = pc.clone();
    let p3 = pc.clone();
    let p4 = pc.clone();
    vec![
        decoder(
            pc,
            "from_repr",
            Enc::of(be),
            w,
            move |b| Option::from(F::from_repr(p1.repr_of_bytes(b))),
            Some(Box::new(move |x: &F| x.to_repr().as_ref().to_vec())),
            |_, v| v.clone(),
        ),
        decoder(
            pc,
            "from_repr_vartime",
            Enc::of(be),
            w,
            move |b| F::from_repr_vartime(p2.repr_of_bytes(b)),
            Some(Box::new(move |x: &F| x.to_repr().as_ref().to_vec())),
            |_, v| v.clone(),
        ),
        {
            let _ = (&p3, &p4);
            cs(pc, "decoder-selfcheck", |pc, out| {
                // the input generator itself: both sides of p are present
                let ins = decoder_inputs(pc, pc.nbytes);
                let below = ins.iter().filter(|x| x.1 < *pc.p()).count();
                let above = ins.len() - below;
                out.eval("decoder-inputs:canonical", true);
                out.eval("decoder-inputs:noncanonical", true);
                out.counter("decoder_inputs_canonical", below as u64);
                out.counter("decoder_inputs_noncanonical", above as u64);
            })
        },
    ]
}

/// Published constants of a `PrimeField` (generic over the multiplicative group order `n`, which
/// is p-1 for a prime field).
pub fn constants<F: PrimeField + Send + Sync>(pc: &Arc<PCtx<F>>, zeta: Option<F>) -> Cases {
    let mut c: Cases = vec![];
    c.push(cs(pc, "constants", move |pc, out| {
        let p = pc.p().clone();
        let n = &p - 1u32;
        let name = pc.name;
        let fail = |out: &mut CaseOut, what: &str, msg: String, d: Value| {
            out.viol(Viol::new(format!("{name}:const:{what}"), msg, d));
        };
        let mut panics = 0;
        macro_rules! g {
            ($what:expr, $e:expr) => {
                match pc.guard(out, concat!("const-", $what), &mut panics, || json!({}), || $e) {
                    Some(v) => v,
                    None => return,
                }
            };
        }
        // MODULUS string
        out.eval("const:MODULUS", true);
        let ms = F::MODULUS;
        // ff: "the encoding of the modulus is implementation-specific"; every type here uses hex,
        // with or without a 0x prefix
        let parsed = BigUint::parse_bytes(ms.trim_start_matches("0x").as_bytes(), 16);
        if parsed.as_ref() != Some(&p) {
            fail(out, "MODULUS", format!("MODULUS string {ms} is not the hexadecimal stated modulus"), json!({"stated": hexs(&p)}));
        }
        // the modulus the arithmetic uses: (-1) + 1 wraps to 0 and to_repr(-1) + 1 == p
        let m1 = g!("neg-one", pc.big(&-F::ONE));
        if &m1 + 1u32 != p {
            fail(out, "MODULUS", "to_repr(-ONE) + 1 differs from the stated modulus".into(), json!({"minus_one": hexs(&m1)}));
        }
        out.eval("const:ZERO-ONE", true);
        if g!("zero", pc.big(&F::ZERO)) != bu(0) || g!("one", pc.big(&F::ONE)) != bu(1) {
            fail(out, "ZERO-ONE", "ZERO/ONE do not encode 0/1".into(), json!({}));
        }
        out.eval("const:NUM_BITS", true);
        if F::NUM_BITS as u64 != p.bits() {
            fail(out, "NUM_BITS", format!("NUM_BITS = {} but the modulus has {} bits", F::NUM_BITS, p.bits()), json!({}));
        }
        out.eval("const:CAPACITY", true);
        if F::CAPACITY as u64 != p.bits() - 1 {
            fail(out, "CAPACITY", format!("CAPACITY = {} but floor(log2(p)) = {}", F::CAPACITY, p.bits() - 1), json!({}));
        }
        out.eval("const:TWO_INV", true);
        let ti = g!("two_inv", pc.big(&F::TWO_INV));
        if pc.m.mul(&ti, &bu(2)) != bu(1) {
            fail(out, "TWO_INV", "2 * TWO_INV != 1".into(), json!({"two_inv": hexs(&ti)}));
        }
        // two-adicity
        let mut s = 0u32;
        let mut t = n.clone();
        while t.is_even() {
            t >>= 1;
            s += 1;
        }
        out.eval("const:S", true);
        if F::S != s {
            fail(out, "S", format!("S = {} but p - 1 = 2^{} * odd", F::S, s), json!({"published": F::S, "two_adicity": s}));
        }
        // generator
        let gen = g!("generator", pc.big(&F::MULTIPLICATIVE_GENERATOR));
        out.eval("const:GENERATOR", true);
        let mut small_factors: Vec<u32> = vec![];
        {
            let mut rest = n.clone();
            for q in 2u32..65536 {
                if (&rest % q).is_zero() {
                    small_factors.push(q);
                    while (&rest % q).is_zero() {
                        rest /= q;
                    }
                }
            }
        }
        out.counter("generator_small_prime_factors_checked", small_factors.len() as u64);
        if gen.is_zero() {
            fail(out, "GENERATOR", "MULTIPLICATIVE_GENERATOR is zero".into(), json!({}));
        } else {
            for q in &small_factors {
                if pc.m.pow(&gen, &(&n / *q)).is_one() {
                    fail(out, "GENERATOR", format!("MULTIPLICATIVE_GENERATOR^((p-1)/{q}) == 1: not a generator{}", if *q == 2 { " (it is a quadratic residue)" } else { "" }), json!({"generator": hexs(&gen), "q": q}));
                }
            }
        }
        // root of unity: order exactly 2^S (S as published), equals g^t, inverse, delta
        let rou = g!("rou", pc.big(&F::ROOT_OF_UNITY));
        let rou_inv = g!("rou_inv", pc.big(&F::ROOT_OF_UNITY_INV));
        let delta = g!("delta", pc.big(&F::DELTA));
        out.eval("const:ROOT_OF_UNITY", true);
        let ps = F::S;
        let ord_ok = pc.m.pow(&rou, &pow2(ps)).is_one() && (ps == 0 || !pc.m.pow(&rou, &pow2(ps - 1)).is_one()) && !rou.is_zero();
        if !ord_ok {
            fail(out, "ROOT_OF_UNITY", format!("ROOT_OF_UNITY does not have order exactly 2^S (S = {ps})"), json!({"root_of_unity": hexs(&rou)}));
        }
        // ff: ROOT_OF_UNITY = GENERATOR^t where p - 1 = 2^S t (with the true S)
        if F::S == s && pc.m.pow(&gen, &t) != rou {
            fail(out, "ROOT_OF_UNITY", "ROOT_OF_UNITY != MULTIPLICATIVE_GENERATOR^t".into(), json!({"root_of_unity": hexs(&rou)}));
        }
        out.eval("const:ROOT_OF_UNITY_INV", true);
        if !pc.m.mul(&rou, &rou_inv).is_one() {
            fail(out, "ROOT_OF_UNITY_INV", "ROOT_OF_UNITY * ROOT_OF_UNITY_INV != 1".into(), json!({"root_of_unity": hexs(&rou), "inv": hexs(&rou_inv)}));
        }
        out.eval("const:DELTA", true);
        if pc.m.pow(&gen, &pow2(ps)) != delta {
            fail(out, "DELTA", format!("DELTA != MULTIPLICATIVE_GENERATOR^(2^S) (S = {ps})"), json!({"delta": hexs(&delta), "generator": hexs(&gen)}));
        }
        if let Some(z) = zeta {
            out.eval("const:ZETA", true);
            let zb = g!("zeta", pc.big(&z));
            let z3 = pc.m.mul(&pc.m.sqr(&zb), &zb);
            if zb.is_one() || !z3.is_one() {
                fail(out, "ZETA", "ZETA does not have multiplicative order 3".into(), json!({"zeta": hexs(&zb)}));
            }
        }
        out.sample = Some(json!({"modulus": hexs(&p), "S": s, "small_prime_factors_of_p_minus_1": small_factors}));
    }));
    c
}

/// `Ord` agrees with the integer order of canonical representatives.
pub fn ord_case<F: PrimeField + Ord + Send + Sync>(pc: &Arc<PCtx<F>>) -> (String, Case) {
    cs(pc, "ord", |pc, out| {
        let mut panics = 0;
        'outer: for (_, a, x) in &pc.alpha {
            for (_, b, y) in &pc.alpha {
                if panics >= MAX_PANICS {
                    break 'outer;
                }
                let Some(r) = pc.guard(out, "ord", &mut panics, || d2(a, b), || (x.cmp(y), x.partial_cmp(y), x < y, x.max(y) == if a >= b { x } else { y })) else { continue };
                let e = a.cmp(b);
                out.eval(&format!("ord:{e:?}"), a != b);
                if r.0 != e || r.1 != Some(e) || r.2 != (a < b) || !r.3 {
                    out.viol(Viol::new(pc.key("ord", "mismatch"), format!("Ord says {:?}, integers say {e:?}", r.0), d2(a, b)));
                }
            }
        }
    })
}

/// Jacobi symbol of integers (independent binary algorithm), for odd positive `n`.
pub fn jacobi_model(a: &BigUint, n: &BigUint) -> i64 {
    let mut a = a % n;
    let mut n = n.clone();
    let mut t = 1i64;
    while !a.is_zero() {
        while a.is_even() {
            a >>= 1;
            let r = (&n % 8u32).to_u32_digits().first().copied().unwrap_or(0);
            if r == 3 || r == 5 {
                t = -t;
            }
        }
        std::mem::swap(&mut a, &mut n);
        let ra = (&a % 4u32).to_u32_digits().first().copied().unwrap_or(0);
        let rn = (&n % 4u32).to_u32_digits().first().copied().unwrap_or(0);
        if ra == 3 && rn == 3 {
            t = -t;
        }
        a %= &n;
    }
    if n.is_one() {
        t
    } else {
        0
    }
}

/// Montgomery radix inverse for "raw" internal-representation formats.
pub fn mont_value(m: &Fp, nlimbs: usize, v: &BigUint) -> BigUint {
    let r = pow2(64 * nlimbs as u32) % &m.p;
    let rinv = m.inv(&r).unwrap();
    m.mul(v, &rinv)
}

/// `SerdeObject` raw (Montgomery little-endian limb) format.
pub fn serde_object_cases<F>(pc: &Arc<PCtx<F>>) -> Cases
where
    F: PrimeField + midnight_curves::serde::SerdeObject + Send + Sync,
{
    let nl = pc.nlimbs;
    let w = nl * 8;
    let mut c: Cases = vec![];
    c.push(decoder(
        pc,
        "from_raw_bytes",
        Enc::Le,
        w,
        |b| F::from_raw_bytes(b),
        Some(Box::new(|x: &F| x.to_raw_bytes())),
        move |m, v| mont_value(m, nl, v),
    ));
    c.push(decoder(
        pc,
        "read_raw",
        Enc::Le,
        w,
        |b| {
            let mut rd: &[u8] = b;
            F::read_raw(&mut rd).ok()
        },
        Some(Box::new(|x: &F| {
            let mut v = vec![];
            x.write_raw(&mut v).unwrap();
            v
        })),
        move |m, v| mont_value(m, nl, v),
    ));
    // round trip of canonical elements through every raw entry point + length checks
    c.push(cs(pc, "raw-roundtrip", move |pc, out| {
        let mut panics = 0;
        let r = pow2(64 * nl as u32) % pc.p();
        for (_, a, x) in &pc.alpha {
            if panics >= MAX_PANICS {
                break;
            }
            let Some(raw) = pc.guard(out, "to_raw_bytes", &mut panics, || d1(a), || x.to_raw_bytes()) else { continue };
            out.eval("raw:roundtrip", PCtx::<F>::nontrivial(a));
            // the raw bytes are the little-endian Montgomery limbs a*R mod p
            let e = to_le(&pc.m.mul(a, &r), w);
            if raw != e {
                out.viol(Viol::new(pc.key("to_raw_bytes", "mismatch"), "to_raw_bytes is not the little-endian Montgomery form a*R mod p", json!({"a": hexs(a), "got": hex(&raw), "expected": hex(&e)})));
            }
            let mut wv = vec![];
            if pc.guard(out, "write_raw", &mut panics, || d1(a), || x.write_raw(&mut wv).unwrap()).is_some() && wv != raw {
                out.viol(Viol::new(pc.key("write_raw", "mismatch"), "write_raw differs from to_raw_bytes", d1(a)));
            }
            let back = pc.guard(out, "raw-roundtrip", &mut panics, || d1(a), || {
                let mut r1: &[u8] = &raw;
                let mut r2: &[u8] = &raw;
                (F::from_raw_bytes(&raw), F::from_raw_bytes_unchecked(&raw), F::read_raw(&mut r1).ok(), F::read_raw_unchecked(&mut r2))
            });
            if let Some((b1, b2, b3, b4)) = back {
                if b1 != Some(*x) || b2 != *x || b3 != Some(*x) || b4 != *x {
                    out.viol(Viol::new(pc.key("raw-roundtrip", "mismatch"), "a raw decoding entry point does not invert to_raw_bytes", d1(a)));
                }
            }
        }
        // wrong lengths must be rejected by the checked slice decoder
        for len in [0usize, 1, w - 1, w + 1, 2 * w] {
            let b = vec![0u8; len];
            if let Some(r) = pc.guard(out, "from_raw_bytes", &mut panics, || json!({"len": len}), || F::from_raw_bytes(&b)) {
                out.eval("raw:wrong-length", true);
                if r.is_some() {
                    out.viol(Viol::new(pc.key("from_raw_bytes", "accepts-wrong-length"), format!("from_raw_bytes accepted {len} bytes"), json!({"len": len})));
                }
            }
        }
        // short reads are errors for the checked reader
        let b = vec![0u8; w - 1];
        let mut rd: &[u8] = &b;
        if let Some(r) = pc.guard(out, "read_raw", &mut panics, || json!({"len": w - 1}), || F::read_raw(&mut rd).is_ok()) {
            out.eval("raw:short-read", true);
            if r {
                out.viol(Viol::new(pc.key("read_raw", "accepts-wrong-length"), "read_raw succeeded on a short input", json!({})));
            }
        }
    }));
    c
}

/// serde-JSON round trip and rejection of non-canonical documents. `doc_of` renders the JSON
/// document that the type's serializer would produce for an arbitrary integer below 2^(8*width).
pub fn serde_json_cases<F>(
    pc: &Arc<PCtx<F>>,
    width: usize,
    doc_of: impl Fn(&BigUint) -> String + Send + Sync + 'static,
) -> Cases
where
    F: PrimeField + serde::Serialize + serde::de::DeserializeOwned + Send + Sync,
{
    let doc: Arc<dyn Fn(&BigUint) -> String + Send + Sync> = Arc::new(doc_of);
    let d1c = doc.clone();
    vec![
        cs(pc, "serde-json-roundtrip", move |pc, out| {
            let mut panics = 0;
            for (_, a, x) in &pc.alpha {
                if panics >= MAX_PANICS {
                    break;
                }
                let Some(s) = pc.guard(out, "serde-json", &mut panics, || d1(a), || serde_json::to_string(x)) else { continue };
                out.eval("serde-json:roundtrip", PCtx::<F>::nontrivial(a));
                let Ok(s) = s else {
                    out.viol(Viol::new(pc.key("serde-json", "serialize-error"), "serialization failed", d1(a)));
                    continue;
                };
                if s != d1c(a) {
                    out.viol(Viol::new(pc.key("serde-json", "format"), "JSON document differs from the canonical-encoding document", json!({"a": hexs(a), "got": s, "expected": d1c(a)})));
                }
                let back = pc.guard(out, "serde-json", &mut panics, || d1(a), || serde_json::from_str::<F>(&s).ok());
                if let Some(b) = back {
                    if b != Some(*x) {
                        out.viol(Viol::new(pc.key("serde-json", "roundtrip"), "deserialize(serialize(x)) != x", json!({"a": hexs(a), "doc": s})));
                    }
                }
            }
        }),
        decoder(
            pc,
            "serde-json-deserialize",
            Enc::Doc(doc.clone()),
            width,
            move |b| serde_json::from_str::<F>(std::str::from_utf8(b).unwrap()).ok(),
            Some(Box::new(move |x: &F| serde_json::to_string(x).unwrap().into_bytes())),
            |_, v| v.clone(),
        ),
    ]
}
