//! C15 — batching and accumulation accept exactly the all-valid batches.
//!
//! Explicit-state exploration of operation sequences on the REAL objects:
//!  (A) every sequence (with repetition, any order) of length 0..3 (quick) / 0..4 (thorough) over a
//!      pool of 9 batch members with known individual verdict, through `batch_verify` and through
//!      `Guard::batch_verify`; plus every length-mismatched argument triple for n <= 2;
//!  (B) accumulator states reached by `from_dual_msm`, `accumulate` (1..3 operands), `collapse`,
//!      `accumulate` again, from 8 atoms with known validity — including Δ-pairs built with the
//!      known SRS secret, which are individually invalid but cancel when summed unscaled;
//!  (C) guard algebra: `scale`, `add_msm` on verification guards.
//! Invariant in every reached state: accepted ⇔ (non-empty ∧) all members valid; never a panic.

use std::collections::BTreeMap;

use ff::Field;
use group::{prime::PrimeCurveAffine, Curve, Group};
use midnight_circuits::{
    hash::poseidon::PoseidonChip,
    instructions::{hash::HashCPU, ArithInstructions, AssertionInstructions, AssignmentInstructions, PublicInputInstructions},
    types::AssignedNative,
    verifier::{self, Accumulator, BlstrsEmulation, Msm},
};
use midnight_curves::{Bls12, G1Affine, G1Projective, G2Affine};
use midnight_proofs::{
    circuit::{Layouter, Value},
    plonk::{prepare, Error},
    poly::{
        commitment::Guard,
        kzg::{msm::DualMSM, KZGCommitmentScheme},
    },
    transcript::{CircuitTranscript, Transcript},
};
use midnight_zk_stdlib::{MidnightCircuit, MidnightVK, Relation, ZkStdLib, ZkStdLibArch};
use rand_chacha::ChaCha20Rng;
use rand_core::SeedableRng;
use serde_json::json;
use vcore::{catch, panic_site, CaseOut, Ctx, Level, Viol};

type F = midnight_curves::Fq;
type S = BlstrsEmulation;
type H = blake2b_simd::State;

// ---- two small relations with different circuit sizes ---------------------------------------

#[derive(Clone)]
struct RelSq {
    c: u64,
}
impl Relation for RelSq {
    type Instance = F;
    type Witness = F;
    fn format_instance(x: &F) -> Result<Vec<F>, Error> {
        Ok(vec![*x])
    }
    fn circuit(&self, s: &ZkStdLib, l: &mut impl Layouter<F>, inst: Value<F>, w: Value<F>) -> Result<(), Error> {
        let i: AssignedNative<F> = s.assign_as_public_input(l, inst)?;
        let w: AssignedNative<F> = s.assign(l, w)?;
        let sq = s.mul(l, &w, &w, None)?;
        let y = s.add_constant(l, &sq, F::from(self.c))?;
        s.assert_equal(l, &i, &y)
    }
    fn write_relation<W: std::io::Write>(&self, w: &mut W) -> std::io::Result<()> {
        w.write_all(&self.c.to_le_bytes())
    }
    fn read_relation<R: std::io::Read>(r: &mut R) -> std::io::Result<Self> {
        let mut b = [0u8; 8];
        r.read_exact(&mut b)?;
        Ok(RelSq { c: u64::from_le_bytes(b) })
    }
}

#[derive(Clone)]
struct RelPos;
impl Relation for RelPos {
    type Instance = F;
    type Witness = [F; 2];
    fn format_instance(x: &F) -> Result<Vec<F>, Error> {
        Ok(vec![*x])
    }
    fn circuit(&self, s: &ZkStdLib, l: &mut impl Layouter<F>, inst: Value<F>, w: Value<[F; 2]>) -> Result<(), Error> {
        let i: AssignedNative<F> = s.assign_as_public_input(l, inst)?;
        let m: Vec<AssignedNative<F>> = s.assign_many(l, &w.transpose_array())?;
        let h = s.poseidon(l, &m)?;
        s.assert_equal(l, &i, &h)
    }
    fn used_chips(&self) -> ZkStdLibArch {
        ZkStdLibArch {
            poseidon: true,
            ..ZkStdLibArch::default()
        }
    }
    fn write_relation<W: std::io::Write>(&self, _: &mut W) -> std::io::Result<()> {
        Ok(())
    }
    fn read_relation<R: std::io::Read>(_: &mut R) -> std::io::Result<Self> {
        Ok(RelPos)
    }
}

#[derive(Clone)]
struct Member {
    name: &'static str,
    vk: MidnightVK,
    pi: Vec<F>,
    proof: Vec<u8>,
    valid: bool,
}

fn guard_of(m: &Member) -> Result<DualMSM<Bls12>, String> {
    let mut t = CircuitTranscript::<H>::init_from_bytes(&m.proof);
    let g = prepare::<F, KZGCommitmentScheme<Bls12>, CircuitTranscript<H>>(m.vk.vk(), &[&[G1Projective::identity()]], &[&[&m.pi]], &mut t)
        .map_err(|e| format!("{e:?}"))?;
    t.assert_empty().map_err(|e| format!("{e:?}"))?;
    Ok(g)
}

fn main() {
    let mut cx = Ctx::from_args("C15", Level::ModelChecking);
    cx.worker_rayon_threads = Some(1);
    cx.set_rule(
        "(A) all sequences with repetition of length 0..3 (quick) / 0..4 (thorough) over 12 batch members (3 valid proofs \
         of 2 relations of different size; invalid twins by corrupted opening proof, corrupted scalar, wrong public \
         input, wrong verifying key) through batch_verify and Guard::batch_verify, plus all length-mismatched \
         argument triples for n<=2; (B) accumulator states: 8 atoms (2 valid + 1 invalid synthetic pairs, a Δ-pair \
         built with the known SRS secret, accumulators of a valid / an invalid / another relation's proof) -> \
         accumulate of every tuple of length 1..3 -> optional collapse -> accumulate of pairs of those; (C) guard \
         scale / add_msm. State = multiset of members + operation history; transition = one call of the real \
         function; invariant: accepted <=> non-empty and all members valid; no panic. A state is non-trivial when \
         it has >= 2 members.",
    );
    cx.assume("the SRS secret is known to the harness (unsafe_setup from a seeded RNG); it is used only to build accumulator atoms of known validity");
    cx.assume("acceptance of a batch with an invalid member is possible with negligible probability over the Fiat-Shamir challenge; any observed acceptance is reported");
    let seed = cx.seed;
    let thorough = cx.tier.is_thorough();

    // ---------------------------------------------------------------- subjects
    let rel_a = RelSq { c: 5 };
    let rel_b = RelPos;
    let ka = MidnightCircuit::from_relation(&rel_a).min_k();
    let kb = MidnightCircuit::from_relation(&rel_b).min_k();
    let srs_a = (*vfam::api::setup(ka, seed)).clone();
    let srs_b = (*vfam::api::setup(kb, seed)).clone();
    let vparams = srs_a.verifier_params();
    let vk_a = midnight_zk_stdlib::setup_vk(&srs_a, &rel_a);
    let pk_a = midnight_zk_stdlib::setup_pk(&rel_a, &vk_a);
    let vk_b = midnight_zk_stdlib::setup_vk(&srs_b, &rel_b);
    let pk_b = midnight_zk_stdlib::setup_pk(&rel_b, &vk_b);
    let (w1, w2) = (F::from(3), F::from(11));
    let (x1, x2) = (w1 * w1 + F::from(5), w2 * w2 + F::from(5));
    let wb = [F::from(7), F::from(9)];
    let xb = <PoseidonChip<F> as HashCPU<F, F>>::hash(&wb);
    let prove_a = |x: F, w: F, s: u64| midnight_zk_stdlib::prove::<RelSq, H>(&srs_a, &pk_a, &rel_a, &x, w, ChaCha20Rng::seed_from_u64(s)).expect("prove A");
    let proof_a1 = prove_a(x1, w1, 1);
    let proof_a2 = prove_a(x2, w2, 2);
    let proof_b = midnight_zk_stdlib::prove::<RelPos, H>(&srs_b, &pk_b, &rel_b, &xb, wb, ChaCha20Rng::seed_from_u64(3)).expect("prove B");
    let corrupt_pi = |p: &Vec<u8>| {
        // replace the final opening element π by 2π
        let mut q = p.clone();
        let n = q.len();
        let mut repr = <G1Affine as group::GroupEncoding>::Repr::default();
        repr.as_mut().copy_from_slice(&q[n - 48..]);
        let pt: G1Affine = Option::from(<G1Affine as group::GroupEncoding>::from_bytes(&repr)).unwrap();
        let d = (G1Projective::from(pt).double() + G1Projective::generator()).to_affine();
        q[n - 48..].copy_from_slice(group::GroupEncoding::to_bytes(&d).as_ref());
        q
    };
    let corrupt_scalar = |p: &Vec<u8>| {
        // the last scalar before π is a q-evaluation: add 1 to its lowest byte
        let mut q = p.clone();
        let n = q.len();
        q[n - 48 - 32] ^= 1;
        q
    };
    let mut pool = vec![
        Member { name: "A1", vk: vk_a.clone(), pi: vec![x1], proof: proof_a1.clone(), valid: true },
        Member { name: "A2", vk: vk_a.clone(), pi: vec![x2], proof: proof_a2.clone(), valid: true },
        Member { name: "B", vk: vk_b.clone(), pi: vec![xb], proof: proof_b.clone(), valid: true },
        Member { name: "A1-badpi", vk: vk_a.clone(), pi: vec![x1], proof: corrupt_pi(&proof_a1), valid: false },
        Member { name: "A1-wrong-input", vk: vk_a.clone(), pi: vec![x1 + F::ONE], proof: proof_a1.clone(), valid: false },
        Member { name: "A1-under-vkB", vk: vk_b.clone(), pi: vec![x1], proof: proof_a1.clone(), valid: false },
        Member { name: "B-badscalar", vk: vk_b.clone(), pi: vec![xb], proof: corrupt_scalar(&proof_b), valid: false },
        Member { name: "B-wrong-input", vk: vk_b.clone(), pi: vec![x2], proof: proof_b.clone(), valid: false },
        Member { name: "B-under-vkA", vk: vk_a.clone(), pi: vec![xb], proof: proof_b.clone(), valid: false },
        // a valid proof followed by one extra byte (must be rejected: trailing bytes)
        Member { name: "A1-trailing-byte", vk: vk_a.clone(), pi: vec![x1], proof: [proof_a1.clone(), vec![0u8]].concat(), valid: false },
    ];
    // A Δ-pair of PROOFS: the opening element π is read after the last challenge was squeezed, so
    // replacing π by π + D leaves every challenge unchanged. With the SRS secret τ and the
    // challenges x3 of both proofs known, D1 and D2 = c·D1 with c = (x3_1 − τ)/(τ − x3_2) make the
    // two guards individually invalid while their UNSCALED sum is valid. A batch verifier that
    // combines guards with a challenge that is fixed or independent of the members accepts them.
    {
        let tau = F::random(vcore::rng_for(seed, "srs"));
        let x3_of = |m: &Member| -> F {
            let g = guard_of(m).expect("guard");
            let (_, right) = g.split();
            // the right channel ends with the terms (x3, π) and (v, -G)
            let n = right.len();
            *right[n - 2].1
        };
        let (x3_1, x3_2) = (x3_of(&pool[0]), x3_of(&pool[1]));
        let c = (x3_1 - tau) * (tau - x3_2).invert().unwrap();
        let d1 = G1Projective::generator() * F::from(0xd1ce);
        let shift_pi = |p: &Vec<u8>, d: G1Projective| {
            let mut q = p.clone();
            let n = q.len();
            let mut repr = <G1Affine as group::GroupEncoding>::Repr::default();
            repr.as_mut().copy_from_slice(&q[n - 48..]);
            let pt: G1Affine = Option::from(<G1Affine as group::GroupEncoding>::from_bytes(&repr)).unwrap();
            let s = (G1Projective::from(pt) + d).to_affine();
            q[n - 48..].copy_from_slice(group::GroupEncoding::to_bytes(&s).as_ref());
            q
        };
        pool.push(Member { name: "A1+D", vk: vk_a.clone(), pi: vec![x1], proof: shift_pi(&proof_a1, d1), valid: false });
        pool.push(Member { name: "A2+cD", vk: vk_a.clone(), pi: vec![x2], proof: shift_pi(&proof_a2, d1 * c), valid: false });
        // self-check: the unscaled sum of the two guards is a valid guard
        let n = pool.len();
        let mut g = guard_of(&pool[n - 2]).expect("guard");
        g.add_msm(guard_of(&pool[n - 1]).expect("guard"));
        let cancels = g.check(&vparams);
        cx.require(cancels, "the Δ-pair of proofs does not cancel when the guards are summed unscaled");
    }
    // the individual verdicts come from the real single-proof verifier, not from the labels
    for m in pool.iter_mut() {
        let v = catch(|| {
            let g = guard_of(m);
            g.and_then(|g| g.verify(&vparams).map_err(|e| format!("{e:?}"))).is_ok()
        });
        let v = match v {
            Ok(v) => v,
            Err(p) => {
                cx.report_violation("members", m.name, Viol::new(format!("single-verify:panic:{}", panic_site(&p)), format!("verifying member {} alone panicked: {p}", m.name), json!({})));
                false
            }
        };
        cx.require(v == m.valid, &format!("member {} has individual verdict {v}, expected {}", m.name, m.valid));
        m.valid = v;
    }
    // std-lib `verify` agrees on the members it can express
    let sv = midnight_zk_stdlib::verify::<RelSq, H>(&vparams, &vk_a, &x1, None, &proof_a1).is_ok();
    cx.require(sv, "midnight_zk_stdlib::verify rejects the valid proof A1");

    // ---------------------------------------------------------------- (A) batch sequences
    let maxlen = if thorough { 4 } else { 3 };
    let mut seqs: Vec<Vec<usize>> = vec![vec![]];
    let mut frontier: Vec<Vec<usize>> = vec![vec![]];
    for _ in 0..maxlen {
        let mut next = vec![];
        for s in &frontier {
            for i in 0..pool.len() {
                let mut t = s.clone();
                t.push(i);
                next.push(t);
            }
        }
        seqs.extend(next.iter().cloned());
        frontier = next;
    }
    let cases: Vec<(String, Vec<usize>)> = seqs.into_iter().map(|s| (format!("[{}]", s.iter().map(|i| pool[*i].name).collect::<Vec<_>>().join(",")), s)).collect();
    let transitions = std::sync::atomic::AtomicU64::new(0);
    cx.run_cases("batch_verify", &cases, |s| {
        let mut out = CaseOut::batch();
        let expect = !s.is_empty() && s.iter().all(|i| pool[*i].valid);
        let class = if s.is_empty() { "empty" } else if expect { "all-valid" } else { "has-invalid-member" };
        let vks: Vec<MidnightVK> = s.iter().map(|i| pool[*i].vk.clone()).collect();
        let pis: Vec<Vec<F>> = s.iter().map(|i| pool[*i].pi.clone()).collect();
        let proofs: Vec<Vec<u8>> = s.iter().map(|i| pool[*i].proof.clone()).collect();
        transitions.fetch_add(2, std::sync::atomic::Ordering::Relaxed);
        // --- midnight_zk_stdlib::batch_verify
        match catch(|| midnight_zk_stdlib::batch_verify::<H>(&vparams, &vks, &pis, &proofs).is_ok()) {
            Err(p) => {
                out.eval("batch_verify:panic", s.len() >= 2);
                out.viol(Viol::new(format!("batch_verify:{class}:panic"), format!("batch_verify panicked on a {class} batch of {} member(s): {p}", s.len()), json!({"batch": s.iter().map(|i| pool[*i].name).collect::<Vec<_>>()})));
            }
            Ok(got) => {
                out.eval(if got { "batch_verify:accept" } else { "batch_verify:reject" }, s.len() >= 2);
                if !s.is_empty() && got != expect {
                    out.viol(Viol::new(
                        format!("batch_verify:{}", if got { "accepts-batch-with-invalid-member" } else { "rejects-all-valid-batch" }),
                        format!("batch_verify returned {} for batch {:?}", if got { "Ok" } else { "Err" }, s.iter().map(|i| pool[*i].name).collect::<Vec<_>>()),
                        json!({"batch": s.iter().map(|i| pool[*i].name).collect::<Vec<_>>()}),
                    ));
                }
            }
        }
        // --- Guard::batch_verify on the prepared guards (members that fail in `prepare` make the batch invalid)
        let r = catch(|| {
            let guards: Result<Vec<_>, _> = s.iter().map(|i| guard_of(&pool[*i])).collect();
            match guards {
                Err(_) => false,
                Ok(g) => {
                    let ps: Vec<_> = g.iter().map(|_| &vparams).collect();
                    <DualMSM<Bls12> as Guard<F, KZGCommitmentScheme<Bls12>>>::batch_verify(g.into_iter(), ps.into_iter()).is_ok()
                }
            }
        });
        match r {
            Err(p) => out.viol(Viol::new(format!("Guard::batch_verify:{class}:panic"), format!("Guard::batch_verify panicked: {p}"), json!({}))),
            Ok(got) => {
                out.eval(if got { "guard-batch:accept" } else { "guard-batch:reject" }, s.len() >= 2);
                // the empty batch has no defined verdict; otherwise accepted <=> all valid
                if !s.is_empty() && got != expect {
                    out.viol(Viol::new(format!("Guard::batch_verify:{}", if got { "accepts-batch-with-invalid-member" } else { "rejects-all-valid-batch" }), "Guard::batch_verify disagrees with the conjunction of the individual verdicts".to_string(), json!({})));
                }
            }
        }
        out.sample = Some(json!({"batch": s.iter().map(|i| pool[*i].name).collect::<Vec<_>>(), "expected_accept": expect}));
        out
    });
    // length-mismatched argument triples
    let mut mism = vec![];
    for a in 0..=2usize {
        for b in 0..=2usize {
            for c in 0..=2usize {
                if !(a == b && b == c) {
                    mism.push((format!("vks{a}-pis{b}-proofs{c}"), (a, b, c)));
                }
            }
        }
    }
    cx.run_cases("batch_verify-mismatched-lengths", &mism, |(a, b, c)| {
        let mut out = CaseOut::batch();
        let vks: Vec<MidnightVK> = (0..*a).map(|_| pool[0].vk.clone()).collect();
        let pis: Vec<Vec<F>> = (0..*b).map(|_| pool[0].pi.clone()).collect();
        let proofs: Vec<Vec<u8>> = (0..*c).map(|_| pool[0].proof.clone()).collect();
        match catch(|| midnight_zk_stdlib::batch_verify::<H>(&vparams, &vks, &pis, &proofs).is_ok()) {
            Err(p) => out.viol(Viol::new("batch_verify:mismatched-lengths:panic", format!("panicked: {p}"), json!({"lens": [a, b, c]}))),
            Ok(got) => {
                out.eval(if got { "accept" } else { "reject" }, true);
                if got {
                    out.viol(Viol::new("batch_verify:mismatched-lengths:accepted", "a length-mismatched batch was accepted", json!({"lens": [a, b, c]})));
                }
            }
        }
        out
    });

    // ---------------------------------------------------------------- (B) accumulators
    // the SRS secret: same stream as vfam::api::setup draws from
    let tau = F::random(vcore::rng_for(seed, "srs"));
    let tau_g2: G2Affine = (G2Affine::generator() * tau).to_affine();
    cx.require(srs_a.s_g2().to_affine() == tau_g2, "the harness does not know the SRS secret (rng stream mismatch)");
    let mut rng = cx.rng("c15-atoms");
    let p = G1Projective::random(&mut rng);
    let q = G1Projective::random(&mut rng);
    let d = G1Projective::random(&mut rng);
    let mut fixed: BTreeMap<String, G1Projective> = verifier::fixed_bases::<S>("A", vk_a.vk());
    fixed.extend(verifier::fixed_bases::<S>("B", vk_b.vk()));
    let synth = |l: G1Projective, r: G1Projective| Accumulator::<S>::new(Msm::from_terms(&[l], &[F::ONE]), Msm::from_terms(&[r], &[F::ONE]));
    let from_member = |m: &Member, prefix: &str| -> Accumulator<S> {
        let mut t = CircuitTranscript::<H>::init_from_bytes(&m.proof);
        let g = prepare::<F, KZGCommitmentScheme<Bls12>, CircuitTranscript<H>>(m.vk.vk(), &[&[G1Projective::identity()]], &[&[&m.pi]], &mut t).expect("prepare");
        Accumulator::<S>::from_dual_msm(g, prefix, &fixed)
    };
    // Accumulator::check uses e(lhs, [tau]_2) == e(rhs, [1]_2): a valid synthetic pair is (P, tau P)
    let atoms: Vec<(&'static str, Accumulator<S>, bool)> = vec![
        ("V1", synth(p, p * tau), true),
        ("V2", synth(q, q * tau), true),
        ("I1", synth(p, p * tau + G1Projective::generator()), false),
        ("D+", synth(p + d, p * tau), false),
        ("D-", synth(q - d, q * tau), false),
        ("accA1", from_member(&pool[0], "A"), true),
        ("accA1-wrong-input", from_member(&pool[4], "A"), false),
        ("accB", from_member(&pool[2], "B"), true),
    ];
    for (n, a, v) in &atoms {
        let got = a.check(&tau_g2, &fixed);
        cx.require(got == *v, &format!("atom {n} has verdict {got}, expected {v}"));
    }
    // sanity of the Δ-pair: the UNSCALED sum of D+ and D- is a valid accumulator
    {
        let (a, b) = (&atoms[3].1, &atoms[4].1);
        let sum = Accumulator::<S>::new(a.lhs().accumulate_with_r(&b.lhs(), F::ONE), a.rhs().accumulate_with_r(&b.rhs(), F::ONE));
        cx.require(sum.check(&tau_g2, &fixed), "the Δ-pair does not cancel when summed unscaled");
    }
    // level 1: accumulate every tuple of length 1..3 (thorough) / 1..2 + diagonal triples (quick)
    let na = atoms.len();
    let mut tuples: Vec<Vec<usize>> = vec![];
    for i in 0..na {
        tuples.push(vec![i]);
        for j in 0..na {
            tuples.push(vec![i, j]);
            for k in 0..na {
                if thorough || (i + j + k) % 3 == 0 {
                    tuples.push(vec![i, j, k]);
                }
            }
        }
    }
    let acc_cases: Vec<(String, Vec<usize>)> = tuples.iter().map(|t| (format!("acc[{}]", t.iter().map(|i| atoms[*i].0).collect::<Vec<_>>().join(",")), t.clone())).collect();
    let states = std::sync::atomic::AtomicU64::new(atoms.len() as u64);
    cx.run_cases("accumulate", &acc_cases, |t| {
        let mut out = CaseOut::batch();
        let expect = t.iter().all(|i| atoms[*i].2);
        let members: Vec<Accumulator<S>> = t.iter().map(|i| atoms[*i].1.clone()).collect();
        let names: Vec<&str> = t.iter().map(|i| atoms[*i].0).collect();
        let r = catch(|| {
            let acc = Accumulator::<S>::accumulate(&members);
            let v1 = acc.check(&tau_g2, &fixed);
            let mut c = acc.clone();
            c.collapse();
            let v2 = c.check(&tau_g2, &fixed);
            // second level: accumulate the result with each atom on either side
            let mut lvl2 = vec![];
            for (n2, a2, val2) in atoms.iter() {
                for flip in [false, true] {
                    for collapsed in [false, true] {
                        let base = if collapsed { c.clone() } else { acc.clone() };
                        let pair = if flip { vec![a2.clone(), base] } else { vec![base, a2.clone()] };
                        let r2 = Accumulator::<S>::accumulate(&pair);
                        lvl2.push((*n2, flip, collapsed, r2.check(&tau_g2, &fixed), expect && *val2));
                    }
                }
            }
            (v1, v2, lvl2)
        });
        match r {
            Err(p) => out.viol(Viol::new(format!("accumulate:panic:{}", panic_site(&p)), format!("accumulate/collapse/check panicked on {names:?}: {p}"), json!({"atoms": names}))),
            Ok((v1, v2, lvl2)) => {
                states.fetch_add(2 + lvl2.len() as u64, std::sync::atomic::Ordering::Relaxed);
                transitions.fetch_add(2 + lvl2.len() as u64, std::sync::atomic::Ordering::Relaxed);
                out.eval(if v1 { "accumulate:valid" } else { "accumulate:invalid" }, t.len() >= 2);
                if v1 != expect {
                    out.viol(Viol::new(format!("accumulate:{}", if v1 { "accepts-invalid-member" } else { "rejects-all-valid" }), format!("accumulate({names:?}).check() = {v1}, expected {expect}"), json!({"atoms": names})));
                }
                out.eval(if v2 { "collapse:valid" } else { "collapse:invalid" }, t.len() >= 2);
                if v2 != expect {
                    out.viol(Viol::new(format!("collapse:{}", if v2 { "accepts-invalid-member" } else { "rejects-all-valid" }), format!("collapse(accumulate({names:?})).check() = {v2}, expected {expect}"), json!({"atoms": names})));
                }
                for (n2, flip, collapsed, got, exp) in lvl2 {
                    out.eval(if got { "level2:valid" } else { "level2:invalid" }, true);
                    if got != exp {
                        out.viol(Viol::new(
                            format!("accumulate-level2:{}", if got { "accepts-invalid-member" } else { "rejects-all-valid" }),
                            format!("accumulate of ({}accumulate({names:?})) with atom {n2} (flipped={flip}) checks {got}, expected {exp}", if collapsed { "collapsed " } else { "" }),
                            json!({"atoms": names, "with": n2, "flip": flip, "collapsed": collapsed}),
                        ));
                    }
                }
            }
        }
        out.sample = Some(json!({"atoms": names, "expected_valid": expect}));
        out
    });
    // accumulate of nothing: a result value, not a crash
    {
        let mut o = CaseOut::batch();
        match catch(|| Accumulator::<S>::accumulate(&[])) {
            Err(p) => o.viol(Viol::new("accumulate:empty:panic", format!("Accumulator::accumulate(&[]) panicked: {p}"), json!({}))),
            Ok(_) => o.eval("accumulate-empty:returns", false),
        }
        cx.record("accumulate", "acc[]", o);
    }

    // ---------------------------------------------------------------- (C) guard algebra
    let mut gcases = vec![];
    for i in 0..pool.len() {
        for j in 0..pool.len() {
            gcases.push((format!("{}+{}", pool[i].name, pool[j].name), (i, j)));
        }
    }
    let scal: Vec<F> = vec![F::ONE, F::from(2), -F::ONE, F::random(cx.rng("c15-scale"))];
    cx.run_cases("guard-algebra", &gcases, |(i, j)| {
        let mut out = CaseOut::batch();
        let (gi, gj) = match (guard_of(&pool[*i]), guard_of(&pool[*j])) {
            (Ok(a), Ok(b)) => (a, b),
            _ => {
                out.count("member-fails-in-prepare", 1);
                return out;
            }
        };
        let (vi, vj) = (pool[*i].valid, pool[*j].valid);
        let r = catch(|| {
            let mut res = vec![];
            for c in &scal {
                let mut g = gi.clone();
                g.scale(*c);
                res.push(("scale", g.check(&vparams), vi));
            }
            // the plain sum is valid iff both are valid whenever at most one member is invalid
            if vi || vj {
                let mut g = gi.clone();
                g.add_msm(gj.clone());
                res.push(("add_msm", g.check(&vparams), vi && vj));
                let mut g = gi.clone();
                g.scale(scal[3]);
                g.add_msm(gj.clone());
                res.push(("scale+add_msm", g.check(&vparams), vi && vj));
            }
            res
        });
        match r {
            Err(p) => out.viol(Viol::new(format!("guard:panic:{}", panic_site(&p)), format!("guard algebra panicked: {p}"), json!({}))),
            Ok(res) => {
                for (op, got, exp) in res {
                    transitions.fetch_add(1, std::sync::atomic::Ordering::Relaxed);
                    out.eval(if got { "guard:valid" } else { "guard:invalid" }, true);
                    if got != exp {
                        out.viol(Viol::new(format!("guard:{op}:{}", if got { "turns-invalid-into-valid" } else { "turns-valid-into-invalid" }), format!("{op} on guards of {} and {} checks {got}, expected {exp}", pool[*i].name, pool[*j].name), json!({})));
                    }
                }
            }
        }
        out
    });

    cx.states = states.load(std::sync::atomic::Ordering::Relaxed) + cases.len() as u64;
    cx.transitions = transitions.load(std::sync::atomic::Ordering::Relaxed);
    // every state is reached by calling the real functions: each reached state is a validated trace
    cx.traces_validated = cx.states;
    cx.require(cx.class_count("batch_verify:batch_verify:accept") > 10, "no accepted batch");
    cx.require(cx.class_count("batch_verify:batch_verify:reject") > 100, "no rejected batch");
    cx.require(cx.class_count("accumulate:accumulate:valid") > 5 && cx.class_count("accumulate:accumulate:invalid") > 5, "accumulators of both verdicts needed");
    cx.finish()
}
