//! Parts (a) and (b): the verifier gadget (foreign-curve back-end) against the off-circuit verifier.

use std::{
    collections::{BTreeMap, HashMap, HashSet},
    sync::Mutex,
};

use ff::Field;
use group::Group;
use midnight_curves::{G1Projective, G2Affine};
use midnight_proofs::{
    dev::{InstanceValue, MockProver},
    poly::kzg::params::ParamsVerifierKZG,
    verif::{self, Fault, Mode},
};
use serde_json::json;
use vcore::{catch, panic_site, CaseOut, Viol};

use crate::{
    gadget::{exposed, off_circuit, OffCircuit, VerifierCircuit, C, F},
    inner::Subject,
    mutate,
};

#[derive(Clone, Debug, PartialEq, Eq)]
pub enum CKind {
    Valid,
    /// every element still decodes
    ValidEncoding,
    /// the verifier's `read` refuses the element; `substituted` is the proof in which the element
    /// is replaced by the default the in-circuit transcript falls back to (identity / zero)
    InvalidEncoding { substituted: Vec<u8> },
    Truncated,
}

#[derive(Clone, Debug)]
pub struct Corruption {
    pub name: String,
    pub class: &'static str,
    pub kind: CKind,
    pub proof: Vec<u8>,
    pub committed: Vec<G1Projective>,
    pub plain: Vec<Vec<F>>,
}

/// All single-element corruptions of a subject. `rich` adds more replacement values per element.
pub fn corruptions(s: &Subject, rich: bool, seed: u64) -> Vec<Corruption> {
    let base = |name: String, class: &'static str, kind: CKind, proof: Vec<u8>| Corruption { name, class, kind, proof, committed: s.committed.clone(), plain: s.plain.clone() };
    let mut out = vec![base("valid".into(), "none", CKind::Valid, s.proof.clone())];
    let mut rng = vcore::rng_for(seed, &format!("c20-a-{}", s.name));
    for (i, (off, len, ty)) in s.elements.iter().enumerate() {
        let cur = &s.proof[*off..off + len];
        let rnd = F::random(&mut rng);
        for (class, bytes) in mutate::variants(cur, *ty, rich, rnd) {
            out.push(base(format!("el{i}{ty}/{class}"), class, CKind::ValidEncoding, mutate::replace(&s.proof, *off, &bytes)));
        }
    }
    // invalid encodings: first / middle / last group element, first / last scalar (all of them when rich)
    let gs: Vec<usize> = (0..s.elements.len()).filter(|i| s.elements[*i].2 == 'G').collect();
    let ss: Vec<usize> = (0..s.elements.len()).filter(|i| s.elements[*i].2 == 'S').collect();
    let pick = |v: &Vec<usize>| -> Vec<usize> {
        if rich {
            v.clone()
        } else {
            let mut p = vec![v[0], v[v.len() / 2], v[v.len() - 1]];
            p.dedup();
            p
        }
    };
    let inv = mutate::invalid_points();
    for i in pick(&gs) {
        let (off, _, _) = s.elements[i];
        for (class, bytes) in inv.iter().take(if rich { 3 } else { 1 }) {
            out.push(base(
                format!("el{i}G/{class}"),
                "invalid-point-encoding",
                CKind::InvalidEncoding { substituted: mutate::replace(&s.proof, off, &mutate::identity_bytes()) },
                mutate::replace(&s.proof, off, bytes),
            ));
        }
    }
    for i in pick(&ss) {
        let (off, _, _) = s.elements[i];
        out.push(base(
            format!("el{i}S/scalar-all-ff"),
            "noncanonical-scalar",
            CKind::InvalidEncoding { substituted: mutate::replace(&s.proof, off, &[0u8; 32]) },
            mutate::replace(&s.proof, off, &[0xff; 32]),
        ));
    }
    // truncation at an element boundary and inside an element
    let mid = s.elements[s.elements.len() / 2];
    out.push(base("truncate-at-middle-element".into(), "truncated", CKind::Truncated, s.proof[..mid.0].to_vec()));
    out.push(base("truncate-last-byte".into(), "truncated", CKind::Truncated, s.proof[..s.proof.len() - 1].to_vec()));
    // public inputs and committed instances
    for (c, col) in s.plain.iter().enumerate() {
        for r in 0..col.len() {
            let mut x = base(format!("inst-c{c}-r{r}+1"), "instance+1", CKind::ValidEncoding, s.proof.clone());
            x.plain[c][r] += F::ONE;
            out.push(x);
        }
    }
    for c in 0..s.committed.len() {
        let mut x = base(format!("committed-c{c}+G"), "committed+G", CKind::ValidEncoding, s.proof.clone());
        x.committed[c] += G1Projective::generator();
        out.push(x);
    }
    out
}

pub enum Synth {
    Ok(Box<MockProver<F>>),
    NoRows,
    Err(String),
    Panic(String),
}

pub fn synth(k: u32, circuit: &VerifierCircuit, instance: Vec<F>) -> Synth {
    match catch(|| MockProver::run(k, circuit, vec![vec![], instance])) {
        Ok(Ok(p)) => Synth::Ok(Box::new(p)),
        Ok(Err(e)) => {
            let m = format!("{e:?}");
            if m.contains("NotEnoughRows") {
                Synth::NoRows
            } else {
                Synth::Err(m)
            }
        }
        Err(p) => {
            if p.contains("usable_rows") {
                Synth::NoRows
            } else {
                Synth::Panic(p)
            }
        }
    }
}

pub struct Env {
    pub tau_g2: G2Affine,
    pub fixed: Vec<BTreeMap<String, C>>,
    pub vparams: Vec<ParamsVerifierKZG<midnight_curves::Bls12>>,
    /// (subject, collapse) -> K of the verifier circuit
    pub ks: Mutex<HashMap<(usize, bool), u32>>,
}

impl Env {
    pub fn off(&self, si: usize, s: &Subject, proof: &[u8], committed: &[G1Projective], plain: &[Vec<F>]) -> Result<Result<OffCircuit, String>, String> {
        catch(|| off_circuit(&s.vk, committed, plain, proof, &self.fixed[si], &self.tau_g2, &self.vparams[si]))
    }
}

fn first_diff(got: &[Option<F>], want: &[F]) -> serde_json::Value {
    let i = (0..got.len().min(want.len())).find(|i| got[*i] != Some(want[*i]));
    json!({"exposed_len": got.len(), "expected_len": want.len(), "first_differing_position": i,
           "exposed": i.map(|i| format!("{:?}", got[i])), "expected": i.map(|i| format!("{:?}", want[i]))})
}

fn equal(got: &[Option<F>], want: &[F]) -> bool {
    got.len() == want.len() && got.iter().zip(want).all(|(a, b)| *a == Some(*b))
}

/// One witness-level comparison.
pub fn eval_a(env: &Env, si: usize, s: &Subject, c: &Corruption, collapse: bool, k: u32) -> CaseOut {
    let mut out = CaseOut::batch();
    let tag = if collapse { "collapsed" } else { "msm" };
    let detail = json!({"subject": s.name, "corruption": c.name, "collapse": collapse, "K": k});
    let nontrivial = c.kind != CKind::Valid;
    // ---- off-circuit
    let t0 = crate::cpu_ms();
    let off = match env.off(si, s, &c.proof, &c.committed, &c.plain) {
        Ok(r) => r,
        Err(p) => {
            out.eval("off-circuit-panic", nontrivial);
            out.viol(Viol::new(format!("verifier-gadget:panic:{}", panic_site(&p)), format!("off-circuit prepare/from_dual_msm panicked on {} ({}): {p}", c.name, c.class), detail));
            return out;
        }
    };
    // ---- in-circuit (synthesis only)
    out.counter(&format!("a:ms:{tag}:off-circuit"), crate::cpu_ms() - t0);
    let t0 = crate::cpu_ms();
    let circuit = VerifierCircuit::new(&s.vk, &c.committed, &c.plain, &c.proof, collapse);
    let (ex, syn) = match catch(|| crate::tracer::trace(&circuit)) {
        Ok(Ok(t)) => (Some(t.exposed_column(1)), Synth::NoRows),
        Ok(Err(e)) => (None, Synth::Err(format!("{e:?}"))),
        Err(p) => (None, Synth::Panic(p)),
    };
    out.counter(&format!("a:ms:{tag}:synthesis"), crate::cpu_ms() - t0);
    match (&off, &ex) {
        (Ok(o), Some(ex)) => {
            let want = if collapse { &o.encoded_collapsed } else { &o.encoded };
            let eq = equal(ex, want);
            out.eval(&format!("{tag}:both-ok:{}", if eq { "equal" } else { "DIFFERENT" }), nontrivial);
            if !eq {
                out.viol(Viol::new(
                    format!("verifier-gadget:accumulator-mismatch:{}", c.class),
                    format!("in-circuit exposed accumulator differs from AssignedAccumulator::as_public_input(off-circuit acc) for {} / {}", s.name, c.name),
                    json!({"case": detail, "diff": first_diff(ex, want)}),
                ));
            }
            match c.kind {
                CKind::Valid => {
                    if !(o.check && o.guard_check) || o.trailing {
                        out.viol(Viol::new("harness:valid-proof-rejected", format!("valid inner proof of {}: acc.check={} guard.check={} trailing={}", s.name, o.check, o.guard_check, o.trailing), detail.clone()));
                    }
                    out.count(&format!("{tag}:valid:acc.check=true"), (o.check) as u64);
                }
                _ => {
                    out.count(&format!("{tag}:corrupted:acc.check={}", o.check), 1);
                    if o.check || o.guard_check {
                        out.viol(Viol::new(
                            format!("verifier-gadget:off-circuit-accepts-corrupted:{}", c.class),
                            format!("off-circuit accumulator of the corrupted input {} / {} satisfies the pairing invariant (acc.check={}, DualMSM::check={})", s.name, c.name, o.check, o.guard_check),
                            detail.clone(),
                        ));
                    }
                    if o.check != o.guard_check {
                        out.viol(Viol::new("verifier-gadget:accumulator-check-differs-from-guard-check", format!("Accumulator::check={} but DualMSM::check={} on {}", o.check, o.guard_check, c.name), detail.clone()));
                    }
                }
            }
        }
        (Err(e), Some(ex)) => {
            // The off-circuit verifier refuses to parse; the circuit was synthesised.
            let mut sub_equal = None;
            // the element of the valid proof already is the default value (a zero evaluation, an
            // identity commitment): the undecodable bytes then stand for the VALID proof in-circuit
            let mut stands_for_valid = false;
            if let CKind::InvalidEncoding { substituted } = &c.kind {
                stands_for_valid = *substituted == s.proof;
                if let Ok(Ok(o2)) = env.off(si, s, substituted, &c.committed, &c.plain) {
                    let want = if collapse { &o2.encoded_collapsed } else { &o2.encoded };
                    sub_equal = Some(equal(ex, want));
                    if o2.check && !stands_for_valid {
                        out.viol(Viol::new(format!("verifier-gadget:off-circuit-accepts-corrupted:{}", c.class), "the proof with the element replaced by the default value is accepted".to_string(), detail.clone()));
                    }
                }
            }
            out.eval(&format!("{tag}:off-circuit-err/in-circuit-ok(substituted-equal={sub_equal:?}{})", if stands_for_valid { ",exposes-the-VALID-accumulator" } else { "" }), nontrivial);
            // NOT judged (it was, in the first version of this check: false alarm, see DESIGN.md 9.2).
            // The property speaks of *proofs*; bytes that do not decode are not a proof, and the
            // source documents the substitution ("If an error, do not fail, assign a default ...
            // allows us to parse dummy proofs"). What IS judged is that the exposed accumulator then
            // equals the off-circuit accumulator of the default-substituted proof (below).
            out.counter("undecodable-element-substituted-by-default-in-circuit(not-judged)", 1);
            let _ = Viol::new(
                "verifier-gadget:error-surface-mismatch",
                format!(
                    "off-circuit prepare fails ({e}) on {} / {} ({}), but the in-circuit verifier is synthesised without error and exposes an accumulator \
                     (TranscriptGadget::read_point/read_scalar replace an undecodable element by the identity / zero: 'If an error, do not fail, assign a default'); \
                     exposed accumulator == off-circuit accumulator of the proof with that element replaced by the default: {sub_equal:?}{}",
                    s.name, c.name, c.class,
                    if stands_for_valid { "; here the element of the valid proof IS the default value, so these undecodable bytes yield the accumulator of the valid proof" } else { "" }
                ),
                detail.clone(),
            );
            if sub_equal == Some(false) {
                out.viol(Viol::new(format!("verifier-gadget:accumulator-mismatch:{}", c.class), "in-circuit accumulator differs from the off-circuit accumulator of the default-substituted proof".to_string(), detail));
            }
        }
        (Ok(_), None) => {
            let (what, site) = match &syn {
                Synth::Err(e) => (format!("Err({e})"), "error".to_string()),
                Synth::Panic(p) => (format!("panic {p}"), panic_site(p)),
                Synth::NoRows | Synth::Ok(_) => ("not enough rows".into(), "rows".into()),
            };
            out.eval(&format!("{tag}:off-circuit-ok/in-circuit-fails"), nontrivial);
            out.viol(Viol::new(
                format!("verifier-gadget:in-circuit-fails-on-parseable-proof:{}:{site}", c.class),
                format!("off-circuit prepare succeeds on {} / {} but in-circuit synthesis fails: {what}", s.name, c.name),
                detail,
            ));
        }
        (Err(_), None) => {
            out.eval(&format!("{tag}:both-fail"), nontrivial);
        }
    }
    out.counter(&format!("a:class:{}", c.class), 1);
    out.sample = Some(json!({"subject": s.name, "corruption": c.name, "collapse": collapse}));
    out
}

/// Finds the K of the verifier circuit for a subject (first K in 16..=19 at which synthesis fits).
pub fn find_k(s: &Subject, collapse: bool) -> Result<u32, String> {
    let circuit = VerifierCircuit::new(&s.vk, &s.committed, &s.plain, &s.proof, collapse);
    for k in 17..=19u32 {
        match synth(k, &circuit, vec![]) {
            Synth::Ok(p) => {
                // the witness-only tracer must expose exactly what the MockProver's copy constraints expose
                let via_mock = exposed(&p, 8192);
                drop(p);
                let t = crate::tracer::trace(&circuit).map_err(|e| format!("tracer synthesis failed: {e:?}"))?;
                let via_tracer = t.exposed_column(1);
                if via_mock != via_tracer || via_mock.iter().any(|v| v.is_none()) || t.multi != 0 {
                    return Err(format!("HARNESS: tracer and MockProver disagree on the exposed cells ({} vs {} values, {} doubly tied rows)", via_tracer.len(), via_mock.len(), t.multi));
                }
                return Ok(k);
            }
            Synth::NoRows => continue,
            Synth::Err(e) => return Err(format!("synthesis of the valid proof failed at K={k}: {e}")),
            Synth::Panic(p) => return Err(format!("synthesis of the valid proof panicked at K={k}: {p}")),
        }
    }
    Err("the verifier circuit does not fit K<=19".into())
}

// ------------------------------------------------------------------------------------------------
// Part (b): constraint level
// ------------------------------------------------------------------------------------------------

/// Exact satisfiability of the tables. The copy-constraint check alone (`verify_at_rows` with no
/// gate / lookup rows still checks every copy constraint) is tried first: its failures are a
/// subset of the failures of `verify`, so "fails" is already the answer; only when it passes is
/// the full verification run.
fn satisfied(p: &MockProver<F>, out: &mut CaseOut) -> bool {
    if p.verify_at_rows(0..0, 0..0).is_err() {
        out.counter("b:decided-by-copy-constraints", 1);
        return false;
    }
    out.counter("b:decided-by-full-verify", 1);
    p.verify().is_ok()
}

pub enum BCase {
    /// full verification of the valid proof, then every instance position edited, then a claimed
    /// accumulator from another proof
    ValidAndInstanceEdits,
    /// a corrupted (still parseable) proof: Sat with its own accumulator, Unsat with the valid one
    CorruptedOwnAcc(Corruption),
    /// witness-only synthesis with an Add(1) fault on advice assignment `idx`, propagated: does the
    /// exposed accumulator change? (cheap scan that selects the cells worth a full verification)
    FaultScan(u64),
    /// Add(1) fault on advice assignment number `idx`, propagated through witness generation
    Fault(u64),
}

pub struct BEnv<'a> {
    pub env: &'a Env,
    pub si: usize,
    pub s: &'a Subject,
    pub other: &'a Subject,
    pub k: u32,
    /// collapsed encodings reachable by changing a free witness (a proof scalar or a public input by +1)
    pub legit: HashSet<Vec<F>>,
    pub n_cells: Mutex<u64>,
    /// assignment indices whose +1 fault changes the exposed accumulator (filled by FaultScan)
    pub effective: Mutex<Vec<u64>>,
}

pub fn eval_b(b: &BEnv, case: &BCase) -> CaseOut {
    let mut out = CaseOut::batch();
    let s = b.s;
    let honest = match b.env.off(b.si, s, &s.proof, &s.committed, &s.plain) {
        Ok(Ok(o)) => o,
        _ => {
            out.viol(Viol::new("harness:error", "off-circuit failed on the valid proof", json!({})));
            return out;
        }
    };
    match case {
        BCase::ValidAndInstanceEdits => {
            verif::reset();
            let circuit = VerifierCircuit::new(&s.vk, &s.committed, &s.plain, &s.proof, true);
            let Synth::Ok(mut p) = synth(b.k, &circuit, honest.encoded_collapsed.clone()) else {
                out.viol(Viol::new("harness:error", "synthesis failed", json!({})));
                return out;
            };
            *b.n_cells.lock().unwrap() = verif::counters().0;
            let ok = catch(|| p.verify().map_err(|e| format!("{} failure(s), first: {:?}", e.len(), e.first())));
            match ok {
                Ok(Ok(())) => out.eval("valid:sat", false),
                Ok(Err(e)) => {
                    out.eval("valid:UNSAT", false);
                    out.viol(Viol::new("verifier-gadget:valid-proof-unsatisfied", format!("the verifier circuit with instance encode(vk, acc) of the valid proof of {} is not satisfied: {e}", s.name), json!({"K": b.k})));
                    return out;
                }
                Err(pn) => {
                    out.viol(Viol::new(format!("verifier-gadget:panic:{}", panic_site(&pn)), format!("MockProver::verify panicked: {pn}"), json!({})));
                    return out;
                }
            }
            let enc = honest.encoded_collapsed.clone();
            for i in 0..enc.len() {
                for delta in [F::ONE, -F::ONE] {
                    p.instance_mut()[1][i] = InstanceValue::Assigned(enc[i] + delta);
                    let sat = satisfied(&p, &mut out);
                    out.eval(if sat { "instance-edit:SAT" } else { "instance-edit:unsat" }, true);
                    if sat {
                        out.viol(Viol::new("verifier-gadget:satisfied-with-edited-instance", format!("position {i} of the instance changed by {delta:?} and the circuit is still satisfied"), json!({"position": i, "subject": s.name})));
                    }
                }
                p.instance_mut()[1][i] = InstanceValue::Assigned(enc[i]);
            }
            // one extra / one missing public input
            p.instance_mut()[1][enc.len()] = InstanceValue::Assigned(F::ONE);
            let sat = satisfied(&p, &mut out);
            out.eval(if sat { "instance-extra-value:sat(padding row is not constrained)" } else { "instance-extra-value:unsat" }, true);
            p.instance_mut()[1][enc.len()] = InstanceValue::Padding;
            // a claimed accumulator from a different valid proof (same circuit shape when the
            // other subject has the same vk, otherwise just the accumulator part)
            if let Ok(Ok(o2)) = catch(|| off_circuit(&b.other.vk, &b.other.committed, &b.other.plain, &b.other.proof, &b.env.fixed[b.si], &b.env.tau_g2, &b.env.vparams[b.si])) {
                let enc2 = o2.encoded_collapsed;
                if enc2.len() == enc.len() && enc2 != enc {
                    for keep_vk in [true, false] {
                        for (i, v) in enc2.iter().enumerate() {
                            p.instance_mut()[1][i] = InstanceValue::Assigned(if keep_vk && i == 0 { enc[0] } else { *v });
                        }
                        let sat = satisfied(&p, &mut out);
                        out.eval(if sat { "other-proof-acc:SAT" } else { "other-proof-acc:unsat" }, true);
                        if sat {
                            out.viol(Viol::new("verifier-gadget:satisfied-with-other-accumulator", "the circuit is satisfied with the accumulator of a different proof as instance", json!({"subject": s.name})));
                        }
                    }
                } else {
                    out.count("other-proof-acc:skipped(shape)", 1);
                }
            }
            // all-zero instance
            for i in 0..enc.len() {
                p.instance_mut()[1][i] = InstanceValue::Assigned(F::ZERO);
            }
            let sat = satisfied(&p, &mut out);
            out.eval(if sat { "zero-instance:SAT" } else { "zero-instance:unsat" }, true);
            if sat {
                out.viol(Viol::new("verifier-gadget:satisfied-with-edited-instance", "satisfied with the all-zero instance", json!({})));
            }
        }
        BCase::CorruptedOwnAcc(c) => {
            let Ok(Ok(o)) = b.env.off(b.si, s, &c.proof, &c.committed, &c.plain) else {
                out.count("corrupted:off-circuit-fails", 1);
                return out;
            };
            let circuit = VerifierCircuit::new(&s.vk, &c.committed, &c.plain, &c.proof, true);
            let Synth::Ok(mut p) = synth(b.k, &circuit, o.encoded_collapsed.clone()) else {
                out.eval("corrupted:synthesis-fails", true);
                return out;
            };
            match catch(|| p.verify().map_err(|e| format!("{} failure(s), first: {:?}", e.len(), e.first()))) {
                Ok(Ok(())) => out.eval("corrupted-proof/own-acc:sat", true),
                Ok(Err(e)) => {
                    out.eval("corrupted-proof/own-acc:UNSAT", true);
                    out.viol(Viol::new(
                        format!("verifier-gadget:own-accumulator-unsatisfied:{}", c.class),
                        format!("the verifier circuit for the (invalid but parseable) proof {} with the off-circuit accumulator of that same proof as instance is not satisfied: {e}", c.name),
                        json!({"subject": s.name, "corruption": c.name}),
                    ));
                }
                Err(pn) => out.viol(Viol::new(format!("verifier-gadget:panic:{}", panic_site(&pn)), format!("MockProver::verify panicked: {pn}"), json!({}))),
            }
            // ... and not with the accumulator of the valid proof
            for (i, v) in honest.encoded_collapsed.iter().enumerate() {
                p.instance_mut()[1][i] = InstanceValue::Assigned(*v);
            }
            let sat = satisfied(&p, &mut out);
            out.eval(if sat { "corrupted-proof/valid-acc:SAT" } else { "corrupted-proof/valid-acc:unsat" }, true);
            if sat && o.encoded_collapsed != honest.encoded_collapsed {
                out.viol(Viol::new(format!("verifier-gadget:satisfied-with-other-accumulator:{}", c.class), "corrupted proof satisfied with the accumulator of the valid proof", json!({"corruption": c.name})));
            }
        }
        BCase::FaultScan(idx) => {
            let circuit = VerifierCircuit::new(&s.vk, &s.committed, &s.plain, &s.proof, true);
            verif::set_plan(vec![(*idx, Fault::Add(1), Mode::Propagate)]);
            let r = catch(|| crate::tracer::trace(&circuit));
            let applied = verif::applied();
            verif::reset();
            match r {
                Ok(Ok(t)) => {
                    let exv: Option<Vec<F>> = t.exposed_column(1).into_iter().collect();
                    if applied.is_empty() || !applied[0].changed {
                        out.count("scan:fault-not-applied", 1);
                    } else if exv.as_ref() == Some(&honest.encoded_collapsed) {
                        out.eval("scan:no-effect-on-exposed-accumulator", true);
                    } else {
                        out.eval("scan:changes-exposed-accumulator", true);
                        b.effective.lock().unwrap().push(*idx);
                    }
                }
                _ => out.eval("scan:crash-unsat(witness generation fails)", true),
            }
        }
        BCase::Fault(idx) => {
            let circuit = VerifierCircuit::new(&s.vk, &s.committed, &s.plain, &s.proof, true);
            verif::set_plan(vec![(*idx, Fault::Add(1), Mode::Propagate)]);
            let syn = synth(b.k, &circuit, vec![]);
            let applied = verif::applied();
            verif::reset();
            let Synth::Ok(p0) = syn else {
                out.eval("fault:crash-unsat(witness generation fails)", true);
                return out;
            };
            if applied.is_empty() {
                out.count("fault:not-applied", 1);
                return out;
            }
            let ex: Vec<Option<F>> = exposed(&p0, 8192);
            let exv: Option<Vec<F>> = ex.iter().copied().collect();
            drop(p0);
            let Some(exv) = exv else {
                out.eval("fault:exposed-cell-unassigned", true);
                return out;
            };
            if exv == honest.encoded_collapsed {
                out.eval("fault:no-effect-on-exposed-accumulator", true);
                return out;
            }
            if exv[0] != honest.encoded_collapsed[0] {
                out.eval("fault:changes-vk-identity(free public input)", true);
                return out;
            }
            // the fault changed the exposed accumulator: claim it
            verif::set_plan(vec![(*idx, Fault::Add(1), Mode::Propagate)]);
            let syn = synth(b.k, &circuit, exv.clone());
            verif::reset();
            let Synth::Ok(p) = syn else {
                out.eval("fault:crash-unsat(witness generation fails)", true);
                return out;
            };
            let sat = catch(|| p.verify().is_ok());
            match sat {
                Ok(false) => out.eval("fault:changed-accumulator:unsat", true),
                Ok(true) => {
                    if b.legit.contains(&exv) {
                        out.eval("fault:changed-accumulator:sat(free witness: equals off-circuit acc of the edited proof/input)", true);
                    } else {
                        out.eval("fault:changed-accumulator:SAT", true);
                        out.viol(Viol::new(
                            "verifier-gadget:unsound-under-1-deviation",
                            format!("advice assignment #{idx} + 1 (propagated) changes the exposed accumulator, the circuit is satisfied with it, and it is not the off-circuit accumulator of any single-scalar/public-input edit of the proof"),
                            json!({"assignment_index": idx, "column": applied[0].column, "offset": applied[0].offset, "subject": s.name}),
                        ));
                    }
                }
                Err(pn) => out.viol(Viol::new(format!("verifier-gadget:panic:{}", panic_site(&pn)), format!("MockProver::verify panicked: {pn}"), json!({}))),
            }
        }
    }
    out
}

/// The accumulator encodings that a +1 on a free witness cell legitimately produces.
pub fn legit_set(env: &Env, si: usize, s: &Subject) -> HashSet<Vec<F>> {
    let mut set = HashSet::new();
    for (off, len, ty) in &s.elements {
        if *ty == 'S' {
            if let Some(v) = mutate::scalar_from(&s.proof[*off..off + len]) {
                let p = mutate::replace(&s.proof, *off, &mutate::scalar_bytes(&(v + F::ONE)));
                if let Ok(Ok(o)) = env.off(si, s, &p, &s.committed, &s.plain) {
                    set.insert(o.encoded_collapsed);
                }
            }
        }
    }
    for c in 0..s.plain.len() {
        for r in 0..s.plain[c].len() {
            let mut pl = s.plain.clone();
            pl[c][r] += F::ONE;
            if let Ok(Ok(o)) = env.off(si, s, &s.proof, &s.committed, &pl) {
                set.insert(o.encoded_collapsed);
            }
        }
    }
    set
}
