//! Part (c): the inner-product argument `ipa_prove` / `ipa_verify` of the aggregator.
//!
//! Compiled only with the cargo feature `ipa-hook`, which needs this additive re-export in
//! /repo/aggregator/src/lib.rs:
//!
//! ```ignore
//! #[cfg(all(feature = "verif-hooks", not(feature = "truncated-challenges")))]
//! #[allow(missing_docs)]
//! pub mod verif_exports {
//!     pub use crate::{inner_product_argument::{ipa_prove, ipa_verify}, light_fiat_shamir::LightPoseidonFS};
//! }
//! ```

use ff::Field;
use group::Group;
use midnight_aggregator::verif_exports::{ipa_prove, ipa_verify};
use midnight_curves::{Fq as F, G1Projective as C};
use midnight_proofs::transcript::{CircuitTranscript, Transcript};
use serde_json::json;
use vcore::{catch, panic_site, CaseOut, Viol};

use crate::mutate;

type T = CircuitTranscript<blake2b_simd::State>;

#[derive(Clone, Debug)]
pub struct Statement {
    pub name: String,
    pub scalars: Vec<F>,
    pub bases1: Vec<C>,
    pub bases2: Vec<C>,
    pub res1: C,
    pub res2: C,
}

fn ip(s: &[F], b: &[C]) -> C {
    s.iter().zip(b).fold(C::identity(), |acc, (s, b)| acc + *b * *s)
}

/// `padded`: the last quarter of the statement is (scalar 0, identity bases), as the aggregator pads.
pub fn statement(n: usize, padded: bool, seed: u64) -> Statement {
    let mut rng = vcore::rng_for(seed, &format!("c20-ipa-{n}-{padded}"));
    let mut scalars: Vec<F> = (0..n).map(|_| F::random(&mut rng)).collect();
    let mut bases1: Vec<C> = (0..n).map(|_| C::random(&mut rng)).collect();
    let mut bases2: Vec<C> = (0..n).map(|_| C::random(&mut rng)).collect();
    if padded {
        for i in (n - (n / 4).max(1))..n {
            scalars[i] = F::ZERO;
            bases1[i] = C::identity();
            bases2[i] = C::identity();
        }
    } else if n >= 4 {
        // special values inside the witness
        scalars[1] = F::ZERO;
        scalars[2] = -F::ONE;
    }
    let (res1, res2) = (ip(&scalars, &bases1), ip(&scalars, &bases2));
    Statement { name: format!("n{n}{}", if padded { "-padded" } else { "" }), scalars, bases1, bases2, res1, res2 }
}

pub fn prove(st: &Statement) -> Result<Result<Vec<u8>, String>, String> {
    catch(|| {
        let mut t = T::init();
        ipa_prove(&st.scalars, &st.bases1, &st.bases2, &st.res1, &st.res2, &mut t).map_err(|e| format!("{e:?}"))?;
        Ok(t.finalize())
    })
}

/// (accepted, transcript empty)
pub fn verify(st: &Statement, proof: &[u8]) -> Result<(bool, bool), String> {
    catch(|| {
        let mut t = T::init_from_bytes(proof);
        let ok = ipa_verify(&st.bases1, &st.bases2, &st.res1, &st.res2, &mut t).is_ok();
        (ok, t.assert_empty().is_ok())
    })
}

#[derive(Clone, Debug)]
pub enum IMut {
    Honest,
    /// the prover uses a different witness, the claimed results stay
    WitnessScalar(usize, &'static str),
    /// verifier-side statement edits on an honest proof
    Base1(usize),
    Base2(usize),
    Res1,
    Res2,
    SwapRes,
    SwapBases,
    /// prover and verifier agree on a wrong claimed result
    WrongClaimBothSides(u8),
    /// proof bytes
    Replace { label: String, class: &'static str, off: usize, bytes: Vec<u8> },
    Truncate(usize),
    Append,
}

impl IMut {
    pub fn class(&self) -> String {
        match self {
            IMut::Honest => "honest".into(),
            IMut::WitnessScalar(_, c) => format!("witness-scalar:{c}"),
            IMut::Base1(_) => "bases1-element".into(),
            IMut::Base2(_) => "bases2-element".into(),
            IMut::Res1 => "claimed-res1".into(),
            IMut::Res2 => "claimed-res2".into(),
            IMut::SwapRes => "claimed-results-swapped".into(),
            IMut::SwapBases => "base-vectors-swapped".into(),
            IMut::WrongClaimBothSides(_) => "wrong-claim-on-both-sides".into(),
            IMut::Replace { label, class, .. } => format!("proof-{label}:{class}"),
            IMut::Truncate(_) => "proof-truncated".into(),
            IMut::Append => "proof-trailing-byte".into(),
        }
    }
}

/// Proof layout: log2(n) x (L_j, R_j) then the final scalar.
pub fn layout(n: usize) -> Vec<(String, usize, usize, char)> {
    let k = n.trailing_zeros() as usize;
    let mut v = vec![];
    let mut off = 0;
    for j in 0..k {
        v.push((format!("L{j}"), off, 48, 'G'));
        v.push((format!("R{j}"), off + 48, 48, 'G'));
        off += 96;
    }
    v.push(("s".into(), off, 32, 'S'));
    v
}

pub fn mutations(st: &Statement, proof: &[u8], padded: bool, seed: u64) -> Vec<(String, IMut)> {
    let n = st.scalars.len();
    let mut m = vec![("honest".to_string(), IMut::Honest)];
    if !padded {
        for i in 0..n {
            m.push((format!("w{i}+1"), IMut::WitnessScalar(i, "+1")));
            m.push((format!("w{i}=0"), IMut::WitnessScalar(i, "=0")));
            m.push((format!("w{i}-neg"), IMut::WitnessScalar(i, "neg")));
        }
        for i in 0..n {
            m.push((format!("b1[{i}]+G"), IMut::Base1(i)));
            m.push((format!("b2[{i}]+G"), IMut::Base2(i)));
        }
        m.push(("swap-results".into(), IMut::SwapRes));
        m.push(("swap-bases".into(), IMut::SwapBases));
    }
    m.push(("res1+G".into(), IMut::Res1));
    m.push(("res2+G".into(), IMut::Res2));
    m.push(("wrong-claim-res1-both-sides".into(), IMut::WrongClaimBothSides(1)));
    m.push(("wrong-claim-res2-both-sides".into(), IMut::WrongClaimBothSides(2)));
    let mut rng = vcore::rng_for(seed, &format!("c20-ipa-mut-{}", st.name));
    let inv = mutate::invalid_points();
    for (label, off, len, ty) in layout(n) {
        let cur = &proof[off..off + len];
        for (class, bytes) in mutate::variants(cur, ty, true, F::random(&mut rng)) {
            m.push((format!("{label}/{class}"), IMut::Replace { label: if ty == 'G' { "L/R".into() } else { "s".into() }, class, off, bytes }));
        }
        if ty == 'G' {
            for (class, bytes) in &inv {
                m.push((format!("{label}/{class}"), IMut::Replace { label: "L/R".into(), class, off, bytes: bytes.clone() }));
            }
        } else {
            m.push((format!("{label}/all-ff"), IMut::Replace { label: "s".into(), class: "scalar-all-ff", off, bytes: vec![0xff; 32] }));
        }
        m.push((format!("{label}/truncate-at"), IMut::Truncate(off)));
        m.push((format!("{label}/truncate-inside"), IMut::Truncate(off + len / 2)));
    }
    // swap L_j <-> R_j
    let k = n.trailing_zeros() as usize;
    for j in 0..k {
        let (l, r) = (proof[96 * j..96 * j + 48].to_vec(), proof[96 * j + 48..96 * j + 96].to_vec());
        if l != r {
            let mut both = r.clone();
            both.extend(&l);
            m.push((format!("swap-L{j}-R{j}"), IMut::Replace { label: "L/R".into(), class: "swap-L-R", off: 96 * j, bytes: both }));
        }
    }
    m.push(("append".into(), IMut::Append));
    m
}

pub fn eval(st: &Statement, honest_proof: &[u8], mu: &IMut) -> CaseOut {
    let mut out = CaseOut::batch();
    let n = st.scalars.len();
    let g = C::generator();
    let mut vst = st.clone();
    let mut proof = honest_proof.to_vec();
    match mu {
        IMut::Honest => {}
        IMut::WitnessScalar(i, how) => {
            let mut pst = st.clone();
            pst.scalars[*i] = match *how {
                "+1" => st.scalars[*i] + F::ONE,
                "=0" => F::ZERO,
                _ => -st.scalars[*i],
            };
            if pst.scalars[*i] == st.scalars[*i] {
                out.count("identity-mutation-skipped", 1);
                return out;
            }
            match prove(&pst) {
                Ok(Ok(p)) => proof = p,
                Ok(Err(_)) => {
                    out.eval("prover-refuses", true);
                    return out;
                }
                Err(p) => {
                    out.viol(Viol::new(format!("ipa:panic:{}", panic_site(&p)), format!("ipa_prove panicked on a well-formed (but false) statement, n={n}: {p}"), json!({"n": n})));
                    return out;
                }
            }
        }
        IMut::Base1(i) => vst.bases1[*i] += g,
        IMut::Base2(i) => vst.bases2[*i] += g,
        IMut::Res1 => vst.res1 += g,
        IMut::Res2 => vst.res2 += g,
        IMut::SwapRes => std::mem::swap(&mut vst.res1, &mut vst.res2),
        IMut::SwapBases => std::mem::swap(&mut vst.bases1, &mut vst.bases2),
        IMut::WrongClaimBothSides(w) => {
            if *w == 1 {
                vst.res1 += g
            } else {
                vst.res2 += g
            }
            match prove(&vst) {
                Ok(Ok(p)) => proof = p,
                Ok(Err(_)) => {
                    out.eval("prover-refuses", true);
                    return out;
                }
                Err(p) => {
                    out.viol(Viol::new(format!("ipa:panic:{}", panic_site(&p)), format!("ipa_prove panicked on incorrect claimed results (documented: does not panic), n={n}: {p}"), json!({"n": n})));
                    return out;
                }
            }
        }
        IMut::Replace { off, bytes, .. } => proof[*off..off + bytes.len()].copy_from_slice(bytes),
        IMut::Truncate(l) => proof.truncate(*l),
        IMut::Append => proof.push(0),
    }
    let class = mu.class();
    let detail = json!({"statement": st.name, "mutation": format!("{mu:?}").chars().take(160).collect::<String>()});
    match verify(&vst, &proof) {
        Err(p) => {
            out.eval("verify:PANIC", true);
            out.viol(Viol::new(format!("ipa:panic:{}", panic_site(&p)), format!("ipa_verify panicked on well-formed arguments ({class}), n={n}: {p}"), detail));
        }
        Ok((ok, empty)) => match mu {
            IMut::Honest => {
                out.eval(if ok && empty { "honest:accept" } else { "honest:REJECT" }, false);
                if !(ok && empty) {
                    out.viol(Viol::new(format!("ipa:rejects-honest:n={n}"), format!("honest IPA proof rejected (verify ok={ok}, transcript empty={empty}) for {}", st.name), detail));
                }
            }
            IMut::Append => {
                out.eval(&format!("trailing-byte:verify-{}:assert_empty-{}", if ok { "ok" } else { "err" }, if empty { "ok" } else { "err" }), true);
                if ok && empty {
                    out.viol(Viol::new("ipa:accepts:trailing-byte", "trailing byte unnoticed by verify and by assert_empty", detail));
                }
            }
            _ => {
                out.eval(if ok { "mutated:ACCEPT" } else { "mutated:reject" }, true);
                out.counter(&format!("c:class:{}", class.split(':').next().unwrap_or("")), 1);
                if ok {
                    out.viol(Viol::new(format!("ipa:accepts:{class}"), format!("ipa_verify ACCEPTED after mutation {class} on {}", st.name), detail));
                }
            }
        },
    }
    out
}

/// Arguments outside the documented domain: only the documented panic (or an Err) may happen.
pub fn eval_malformed(ns: (usize, usize, usize), seed: u64) -> CaseOut {
    let mut out = CaseOut::batch();
    let (a, b, c) = ns;
    let mut rng = vcore::rng_for(seed, "c20-ipa-malformed");
    let scalars: Vec<F> = (0..a).map(|_| F::random(&mut rng)).collect();
    let bases1: Vec<C> = (0..b).map(|_| C::random(&mut rng)).collect();
    let bases2: Vec<C> = (0..c).map(|_| C::random(&mut rng)).collect();
    let m = a.min(b).min(c);
    let (res1, res2) = (ip(&scalars[..m], &bases1[..m]), ip(&scalars[..m], &bases2[..m]));
    let st = Statement { name: format!("{a}/{b}/{c}"), scalars, bases1, bases2, res1, res2 };
    let documented = |p: &str| p.contains("aggregator/src/inner_product_argument.rs") && (p.contains("assertion") || p.contains("is_power_of_two"));
    let well_formed = a == b && b == c && a.is_power_of_two();
    let proof = match prove(&st) {
        Ok(Ok(p)) => {
            out.eval("prove:returns-proof", true);
            if !well_formed {
                out.viol(Viol::new("ipa:malformed-arguments:prover-returns-proof", format!("ipa_prove returned a proof for |scalars|={a}, |bases1|={b}, |bases2|={c}"), json!({"lens": [a, b, c]})));
            }
            Some(p)
        }
        Ok(Err(_)) => {
            out.eval("prove:err", true);
            None
        }
        Err(p) => {
            if documented(&p) {
                out.eval("prove:documented-panic", true);
            } else {
                out.eval("prove:UNDOCUMENTED-PANIC", true);
                out.viol(Viol::new(format!("ipa:panic:{}", panic_site(&p)), format!("ipa_prove on lengths {a}/{b}/{c}: {p}"), json!({"lens": [a, b, c]})));
            }
            None
        }
    };
    // verifier with mismatched / non-power-of-two base vectors, on a proof of a nearby valid size
    let vproof = proof.unwrap_or_else(|| {
        let n = b.max(1).next_power_of_two();
        prove(&statement(n, false, seed)).ok().and_then(|r| r.ok()).unwrap_or_default()
    });
    let v_well_formed = b == c && b.is_power_of_two();
    match verify(&st, &vproof) {
        Ok((ok, _)) => {
            out.eval(if ok { "verify:accept" } else { "verify:reject" }, true);
            if ok && !(v_well_formed && well_formed) {
                out.viol(Viol::new("ipa:accepts:malformed-arguments", format!("ipa_verify accepted with |bases1|={b}, |bases2|={c}"), json!({"lens": [a, b, c]})));
            }
        }
        Err(p) => {
            if documented(&p) && !v_well_formed {
                out.eval("verify:documented-panic", true);
            } else {
                out.eval("verify:UNDOCUMENTED-PANIC", true);
                out.viol(Viol::new(format!("ipa:panic:{}", panic_site(&p)), format!("ipa_verify on lengths {b}/{c}: {p}"), json!({"lens": [a, b, c]})));
            }
        }
    }
    out
}


// ---------------------------------------------------------------------------------------------
// Fiat–Shamir schedule of the argument against its model
// ---------------------------------------------------------------------------------------------

/// The schedule the argument must follow for n = 2^k terms (`P` = prover, `V` = verifier): the
/// whole statement — bases1, bases2, res1, res2, in this order — is absorbed before the batching
/// challenge is drawn, every round challenge is drawn after the two round messages, and the final
/// scalar comes last. A challenge drawn before a value it must depend on is an adaptive-prover
/// hole that no element-by-element corruption of an honest proof can show.
fn schedule_model(st: &Statement, prover: bool) -> Vec<(vfam::rectrans::Kind, Option<Vec<u8>>)> {
    use midnight_proofs::transcript::Hashable;
    use vfam::rectrans::Kind;
    let h = |c: &C| Some(<C as Hashable<blake2b_simd::State>>::to_bytes(c));
    let mut m = vec![];
    for b in st.bases1.iter().chain(st.bases2.iter()) {
        m.push((Kind::Common, h(b)));
    }
    m.push((Kind::Common, h(&st.res1)));
    m.push((Kind::Common, h(&st.res2)));
    m.push((Kind::Squeeze, None));
    let msg = if prover { Kind::Write } else { Kind::Read };
    for _ in 0..st.scalars.len().trailing_zeros() {
        m.push((msg.clone(), None));
        m.push((msg.clone(), None));
        m.push((Kind::Squeeze, None));
    }
    m.push((msg, None));
    m
}

/// Runs the real prover and verifier under a recording transcript and compares the recorded
/// event sequence with the model, event by event.
pub fn eval_schedule(st: &Statement) -> CaseOut {
    use vfam::rectrans::{new_log, RecordingTranscript};
    type RT = RecordingTranscript<T>;
    let mut out = CaseOut::batch();
    let compare = |side: &str, log: &[vfam::rectrans::Event], out: &mut CaseOut| {
        let model = schedule_model(st, side == "prover");
        let mut first_bad: Option<(usize, String)> = None;
        for i in 0..model.len().max(log.len()) {
            let ok = match (model.get(i), log.get(i)) {
                (Some((k, bytes)), Some(e)) => *k == e.kind && bytes.as_ref().map(|b| *b == e.bytes).unwrap_or(true),
                _ => false,
            };
            if !ok {
                first_bad = Some((i, format!("model {:?}, implementation {:?}", model.get(i).map(|m| &m.0), log.get(i).map(|e| &e.kind))));
                break;
            }
        }
        out.counter("fs_events_compared", model.len() as u64);
        match first_bad {
            None => out.eval(&format!("fs-schedule:{side}:conforms"), true),
            Some((i, what)) => {
                out.eval(&format!("fs-schedule:{side}:deviates"), true);
                out.viol(Viol::new(
                    format!("ipa:fs-schedule:{side}:deviates-from-model"),
                    format!("event {i} of the {side}'s Fiat-Shamir schedule for {}: {what} (statement values absorbed / challenges drawn out of the modelled order)", st.name),
                    json!({"statement": st.name, "event": i}),
                ));
            }
        }
    };
    let log = new_log();
    let proof = catch(|| {
        let mut t = RT::init();
        ipa_prove(&st.scalars, &st.bases1, &st.bases2, &st.res1, &st.res2, &mut t).map(|_| t.finalize())
    });
    let plog: Vec<vfam::rectrans::Event> = log.lock().unwrap().clone();
    let Ok(Ok(proof)) = proof else {
        out.eval("fs-schedule:prover-failed", false);
        return out;
    };
    compare("prover", &plog, &mut out);
    let log = new_log();
    let ok = catch(|| {
        let mut t = RT::init_from_bytes(&proof);
        ipa_verify(&st.bases1, &st.bases2, &st.res1, &st.res2, &mut t).is_ok()
    });
    let vlog: Vec<vfam::rectrans::Event> = log.lock().unwrap().clone();
    if ok != Ok(true) {
        out.eval("fs-schedule:verifier-rejected-honest", false);
        return out;
    }
    compare("verifier", &vlog, &mut out);
    out
}
