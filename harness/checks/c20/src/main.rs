//! C20 — recursion and aggregation accept exactly the valid inner proofs.
//!
//! (a) verifier gadget, witness level: for valid inner proofs of three inner circuits and every
//!     single-element corruption, the accumulator the synthesised verifier circuit exposes equals
//!     `AssignedAccumulator::as_public_input(Accumulator::from_dual_msm(prepare(..)))`, uncollapsed
//!     (term by term) and collapsed; the off-circuit accumulator passes `check` only for the valid proof.
//! (b) verifier gadget, constraint level (thorough): MockProver verification of the valid proof,
//!     every instance position edited, foreign accumulators, propagated 1-cell faults.
//! (c) the aggregator's inner-product argument, element by element (needs the `ipa-hook` feature).
//! (d) `LightAggregator::{init, aggregate_proofs, verify}`: valid aggregation, invalid inner proofs
//!     at each position, every element of the aggregated proof mutated, inner public inputs edited.

mod agg;
mod gadget;
mod inner;
#[cfg(feature = "ipa-hook")]
mod ipa;
mod lightfs;
mod mutate;
mod tracer;
mod vg;
mod wacc;

use std::{
    collections::HashMap,
    sync::Mutex,
    time::Instant,
};

use ff::Field;
use group::{prime::PrimeCurveAffine, Curve};
use midnight_curves::G2Affine;
use serde_json::json;
use vcore::{CaseOut, Ctx, Level, Viol};

use gadget::F;

/// CPU time of the calling thread in ms (wall time is meaningless on a loaded machine).
pub fn cpu_ms() -> u64 {
    let mut ts = libc::timespec { tv_sec: 0, tv_nsec: 0 };
    unsafe { libc::clock_gettime(libc::CLOCK_THREAD_CPUTIME_ID, &mut ts) };
    ts.tv_sec as u64 * 1000 + ts.tv_nsec as u64 / 1_000_000
}

pub fn process_cpu_s() -> f64 {
    let mut ts = libc::timespec { tv_sec: 0, tv_nsec: 0 };
    unsafe { libc::clock_gettime(libc::CLOCK_PROCESS_CPUTIME_ID, &mut ts) };
    ts.tv_sec as f64 + ts.tv_nsec as f64 / 1e9
}

fn main() {
    let mut cx = Ctx::from_args("C20", Level::FaultEnumeration);
    cx.worker_rayon_threads = Some(1);
    cx.set_rule(
        "(a) inner circuits {Poseidon chip from scratch (no lookup), std-lib relation with a range-check lookup + Poseidon, \
         C01-family member with lookups/trash/committed instance column; thorough: + the scratch circuit at k=10} x {valid proof} u \
         {every group element of the proof -> P+G (thorough: -P, identity, 2P), every scalar -> s+1 (thorough: random, 0), invalid point / \
         non-canonical scalar encodings (first/middle/last element; all in thorough), truncations, every public input +1, committed \
         instance +G}: synthesis of the verifier circuit (foreign-curve back-end, MockProver::run without verify) with the accumulator \
         exposed uncollapsed for every corruption and collapsed for a stride of 12 (quick) / every corruption (thorough) vs the off-circuit \
         accumulator; (b, thorough) MockProver::verify of the collapsed circuit: valid instance, each instance position +-1, accumulator of \
         another proof, all-zero instance, corrupted proofs with their own accumulator, propagated +1 faults on a stride of advice cells; \
         (c, feature ipa-hook) IPA n in {1,2,4,8(,16)}: every witness scalar, base, claimed result, proof element mutated, malformed lengths; \
         (d) LightAggregator NB_PROOFS in {1,2} (thorough: 3 and a second inner architecture): aggregation of valid proofs, invalid inner \
         proof at each position (9 kinds), every element of the aggregated proof mutated (counts, bases, scalars, sigma, C, PLONK part, IPA \
         part, truncations, neighbour swaps), every inner public input edited. A case is non-trivial when it differs from the unmutated input.",
    );
    cx.assume("the SRS secret is known to the harness (unsafe_setup from a seeded RNG) and is used only in Accumulator::check");
    cx.assume("accepting a mutated proof needs a Fiat-Shamir collision; any observed acceptance is reported");
    cx.assume("(b) instance edits are decided by the copy constraints alone when no gate of the verifier circuit queries an instance column (checked at run time), so they are checked with verify_at_rows(no rows), which verifies every copy constraint");
    let seed = cx.seed;
    let thorough = cx.tier.is_thorough();
    let mut part_wall = serde_json::Map::new();

    let tau = F::random(vcore::rng_for(seed, "srs"));
    let tau_g2: G2Affine = (G2Affine::generator() * tau).to_affine();

    // ------------------------------------------------------------------------------------ (a)
    let t_a = Instant::now();
    let c_a = process_cpu_s();
    let mut subjects = vec![];
    let mut builders: Vec<(&str, Box<dyn Fn() -> Result<inner::Subject, String>>)> = vec![
        ("scratch", Box::new(move || inner::subject_scratch(seed, 0, None))),
        ("stdlib", Box::new(move || inner::subject_stdlib(seed))),
        ("fam", Box::new(move || inner::subject_fam(seed))),
    ];
    if thorough {
        builders.push(("scratch-k10", Box::new(move || inner::subject_scratch(seed, 2, Some(10)))));
    }
    for (n, b) in &builders {
        match vcore::catch(|| b()) {
            Ok(Ok(s)) => subjects.push(s),
            Ok(Err(e)) => cx.machinery_error(format!("cannot build inner subject {n}: {e}")),
            Err(p) => cx.machinery_error(format!("panic building inner subject {n}: {p}")),
        }
    }
    // a second valid proof of the scratch circuit (same vk, other witness): the "different proof" of (b)
    let other = inner::subject_scratch(seed, 1, None).ok();
    let env = vg::Env {
        tau_g2,
        fixed: subjects.iter().map(|s| gadget::fixed_bases(&s.vk)).collect(),
        vparams: subjects.iter().map(|s| vfam::api::setup(s.k, seed).verifier_params()).collect(),
        ks: Mutex::new(HashMap::new()),
    };
    cx.require(subjects.iter().any(|s| s.lookups == 0) && subjects.iter().any(|s| s.lookups > 0), "inner circuits with and without lookups are needed");
    cx.extra(
        "inner_subjects",
        json!(subjects.iter().map(|s| json!({"name": s.name, "k": s.k, "proof_bytes": s.proof.len(), "elements": s.elements.len(), "lookups": s.lookups, "trashcans": s.trashcans, "committed_columns": s.committed.len(), "public_inputs": s.plain.iter().map(|c| c.len()).sum::<usize>()})).collect::<Vec<_>>()),
    );
    // K of the verifier circuit per (subject, collapse) — this also is the synthesis of the valid proofs
    // (quick: the collapsed circuit is used for the first subject only)
    let kcases: Vec<(String, (usize, bool))> = (0..subjects.len())
        .flat_map(|si| [false, true].map(|c| (format!("{}/{}", subjects[si].name, if c { "collapsed" } else { "msm" }), (si, c))))
        .filter(|(_, (si, c))| thorough || !*c || *si == 0)
        .collect();
    cx.run_cases("a-circuit-size", &kcases, |(si, collapse)| {
        let mut out = CaseOut::batch();
        match vg::find_k(&subjects[*si], *collapse) {
            Ok(k) => {
                env.ks.lock().unwrap().insert((*si, *collapse), k);
                out.eval(&format!("K={k}"), false);
            }
            Err(e) => out.viol(Viol::new(if e.starts_with("HARNESS") { "harness:tracer-disagrees-with-mockprover" } else { "verifier-gadget:valid-proof-synthesis-fails" }, e, json!({"subject": subjects[*si].name, "collapse": collapse}))),
        }
        out
    });
    if cx.is_replay() {
        // a replay runs only the named case: the circuit sizes it depends on are computed here
        for (_, (si, c)) in &kcases {
            if !env.ks.lock().unwrap().contains_key(&(*si, *c)) {
                if let Ok(k) = vg::find_k(&subjects[*si], *c) {
                    env.ks.lock().unwrap().insert((*si, *c), k);
                }
            }
        }
    }
    let ks = env.ks.lock().unwrap().clone();
    cx.extra("verifier_circuit_K", json!(ks.iter().map(|((si, c), k)| json!({"subject": subjects[*si].name, "collapsed": c, "K": k})).collect::<Vec<_>>()));
    // corruptions
    let all: Vec<Vec<vg::Corruption>> = subjects.iter().map(|s| vg::corruptions(s, thorough, seed)).collect();
    let light: Vec<Vec<vg::Corruption>> = if thorough { subjects.iter().map(|s| vg::corruptions(s, false, seed)).collect() } else { all.clone() };
    let mut acases: Vec<(String, (usize, usize, bool, bool))> = vec![]; // (subject, corruption index, collapse, from light list)
    for si in 0..subjects.len() {
        if !ks.contains_key(&(si, false)) {
            continue;
        }
        for ci in 0..all[si].len() {
            acases.push((format!("{}/msm/{}", subjects[si].name, all[si][ci].name), (si, ci, false, false)));
        }
    }
    for si in 0..subjects.len() {
        if !ks.contains_key(&(si, true)) {
            continue;
        }
        if thorough {
            for ci in 0..light[si].len() {
                acases.push((format!("{}/collapsed/{}", subjects[si].name, light[si][ci].name), (si, ci, true, true)));
            }
        } else if si == 0 {
            // quick: 12 corruptions on a stride (the valid proof first)
            let n = light[si].len();
            let mut picks: Vec<usize> = (0..12).map(|j| j * n / 12).collect();
            picks.dedup();
            for ci in picks {
                acases.push((format!("{}/collapsed/{}", subjects[si].name, light[si][ci].name), (si, ci, true, true)));
            }
        }
    }
    cx.run_cases("a-witness-level", &acases, |(si, ci, collapse, from_light)| {
        let c = if *from_light { &light[*si][*ci] } else { &all[*si][*ci] };
        vg::eval_a(&env, *si, &subjects[*si], c, *collapse, ks[&(*si, *collapse)])
    });
    {
        let eq_msm = cx.class_count("a-witness-level:msm:both-ok:equal");
        let eq_col = cx.class_count("a-witness-level:collapsed:both-ok:equal");
        cx.require(eq_msm as usize >= subjects.iter().map(|s| s.elements.len()).sum::<usize>(), "every proof element must have been corrupted once with both sides succeeding");
        cx.require(eq_col >= 8, "collapsed comparisons missing");
        for c in ["a:class:group+G", "a:class:scalar+1", "a:class:instance+1", "a:class:invalid-point-encoding", "a:class:noncanonical-scalar", "a:class:truncated", "a:class:committed+G", "a:class:none"] {
            let n = cx.counter_value(c);
            cx.require(n > 0, &format!("corruption class {c} was never exercised"));
        }
        let valid_ok = cx.class_count("a-witness-level:msm:valid:acc.check=true");
        cx.require(valid_ok as usize == subjects.len(), "the off-circuit accumulator of every valid proof must pass Accumulator::check");
        cx.require(cx.class_count("a-witness-level:msm:corrupted:acc.check=false") > 50, "corrupted accumulators that fail the check are needed");
    }
    part_wall.insert("a".into(), json!({"wall_s": vcore::round3(t_a.elapsed().as_secs_f64()), "cpu_s": vcore::round3(process_cpu_s() - c_a)}));

    // ------------------------------------------------------------------------------------ (c)
    let t_c = Instant::now();
    let c_c = process_cpu_s();
    #[cfg(feature = "ipa-hook")]
    {
        let sizes: Vec<usize> = if thorough { vec![1, 2, 4, 8, 16, 32] } else { vec![1, 2, 4, 8] };
        let mut sts = vec![];
        for n in &sizes {
            sts.push((ipa::statement(*n, false, seed), false));
            if *n >= 4 {
                sts.push((ipa::statement(*n, true, seed), true));
            }
        }
        let mut proofs = vec![];
        for (st, _) in &sts {
            match ipa::prove(st) {
                Ok(Ok(p)) => proofs.push(p),
                other => {
                    cx.report_violation("c-ipa", &st.name, Viol::new(format!("ipa:rejects-honest:n={}", st.scalars.len()), format!("ipa_prove failed on an honest statement: {other:?}"), json!({})));
                    proofs.push(vec![]);
                }
            }
        }
        let mut ccases = vec![];
        for (i, (st, padded)) in sts.iter().enumerate() {
            if proofs[i].is_empty() {
                continue;
            }
            cx.require(proofs[i].len() == 96 * st.scalars.len().trailing_zeros() as usize + 32, "IPA proof has the documented layout (log n pairs + one scalar)");
            for (name, mu) in ipa::mutations(st, &proofs[i], *padded, seed) {
                ccases.push((format!("{}/{name}", st.name), (i, mu)));
            }
        }
        cx.run_cases("c-ipa", &ccases, |(i, mu)| ipa::eval(&sts[*i].0, &proofs[*i], mu));
        // the Fiat-Shamir schedule of prover and verifier against the model, for every size
        let scases: Vec<(String, usize)> = sts.iter().enumerate().map(|(i, (st, _))| (format!("{}/fs-schedule", st.name), i)).collect();
        cx.run_cases("c-ipa-schedule", &scases, |i| ipa::eval_schedule(&sts[*i].0));
        cx.require(cx.class_count("c-ipa-schedule:fs-schedule:verifier:conforms") + cx.class_count("c-ipa-schedule:fs-schedule:verifier:deviates") as u64 >= sts.len() as u64, "the IPA schedule was compared for every statement size");
        let mut mal = vec![];
        for a in 0..=5usize {
            for b in 0..=5usize {
                for c in 0..=5usize {
                    if !(a == b && b == c && a.is_power_of_two()) && (thorough || (a + b + c) % 2 == 1 || (a == b && b == c)) {
                        mal.push((format!("{a}-{b}-{c}"), (a, b, c)));
                    }
                }
            }
        }
        cx.run_cases("c-ipa-malformed", &mal, |ns| ipa::eval_malformed(*ns, seed));
        cx.require(cx.class_count("c-ipa:honest:accept") as usize == sts.len(), "every honest IPA proof must be accepted");
        cx.require(cx.class_count("c-ipa:mutated:reject") > 100, "IPA mutations missing");
    }
    #[cfg(not(feature = "ipa-hook"))]
    {
        cx.note("part (c) (ipa_prove / ipa_verify element by element) NOT RUN: the functions live in a private module of midnight-aggregator; build with the cargo feature `ipa-hook` once `midnight_aggregator::verif_exports` exists (see src/ipa.rs). The IPA section of the aggregated proof is still mutated element by element in part (d).");
        cx.extra("part_c", json!("not built (needs hook)"));
    }
    part_wall.insert("c".into(), json!({"wall_s": vcore::round3(t_c.elapsed().as_secs_f64()), "cpu_s": vcore::round3(process_cpu_s() - c_c)}));

    // ------------------------------------------------------------------------------------ (d)
    let t_d = Instant::now();
    let c_d = process_cpu_s();
    let srs_k = if thorough { 15 } else { 14 };
    let srs_big = (*vfam::api::setup(srs_k, seed)).clone();
    let mut aggs: Vec<agg::AggSubject> = vec![];
    let mut setups: Vec<(&str, Box<dyn Fn() -> Result<agg::AggSubject, String> + Send + Sync + '_>)> = vec![
        ("range+poseidon-nb1", Box::new(|| agg::setup::<1>(0, &srs_big, seed))),
        ("range+poseidon-nb2", Box::new(|| agg::setup::<2>(0, &srs_big, seed))),
    ];
    if thorough {
        setups.push(("range+poseidon-nb3", Box::new(|| agg::setup::<3>(0, &srs_big, seed))));
        setups.push(("wide-nb2", Box::new(|| agg::setup::<2>(1, &srs_big, seed))));
    }
    // the set-ups (key generation of the aggregator circuit, one aggregation) run side by side;
    // stderr is muted meanwhile (`LightAggregator::init` `dbg!`s its cost model)
    let results: Vec<Result<Result<agg::AggSubject, String>, String>> = agg::quiet(|| {
        std::thread::scope(|sc| {
            let hs: Vec<_> = setups.iter().map(|(_, f)| sc.spawn(move || vcore::catch(|| f()))).collect();
            hs.into_iter().map(|h| h.join().unwrap_or_else(|_| Err("set-up thread died".into()))).collect()
        })
    });
    for ((name, _), r) in setups.iter().zip(results) {
        match r {
            Ok(Ok(a)) => aggs.push(a),
            Ok(Err(e)) => cx.machinery_error(format!("aggregator setup {name}: {e}")),
            Err(p) => cx.machinery_error(format!("aggregator setup {name} panicked: {p}")),
        }
    }
    drop(setups);
    for a in &aggs {
        let nb = a.agg.n();
        let mut o = CaseOut::batch();
        match (&a.aggregate_outcome, &a.valid_verify) {
            (Ok(()), Some((Ok(()), true))) => o.eval("valid:aggregate-ok:verify-ok", false),
            (Ok(()), Some((r, empty))) => {
                o.eval("valid:aggregate-ok:verify-REJECTS", false);
                o.viol(Viol::new(format!("aggregator:rejects-valid:nb={nb}"), format!("the aggregation of {nb} valid inner proof(s) ({}) does not verify: {r:?}, transcript empty afterwards: {empty}", a.name), json!({"aggregator": a.name})));
            }
            (Err(e), _) => {
                o.eval("valid:aggregate-FAILS", false);
                let key = if let Some(p) = e.strip_prefix("panic: ") { format!("aggregator:panic:{}:valid-inputs:nb={nb}", vcore::panic_site(p)) } else { format!("aggregator:rejects-valid:nb={nb}") };
                o.viol(Viol::new(key, format!("LightAggregator::<{nb}>::aggregate_proofs on {nb} valid inner proof(s) of {} fails: {e}", a.inner.name), json!({"aggregator": a.name, "nb_proofs": nb})));
            }
            (Ok(()), None) => unreachable!(),
        }
        cx.record("d-aggregate-valid", &a.name, o);
    }
    cx.extra(
        "aggregators",
        json!(aggs.iter().map(|a| json!({"name": a.name, "init_s": vcore::round3(a.init_s), "aggregate_s": vcore::round3(a.aggregate_s), "verify_ms": vcore::round3(a.verify_ms),
            "aggregator_circuit_k": a.agg_k, "aggregated_proof_bytes": a.meta.as_ref().map(|m| m.len()), "elements": a.sections.len(), "inner_proof_bytes": a.inner.proofs[0].len()})).collect::<Vec<_>>()),
    );
    // invalid inner proofs
    let mut bad = vec![];
    for (ai, a) in aggs.iter().enumerate() {
        if a.aggregate_outcome.is_err() {
            continue; // aggregation of valid proofs already fails: nothing to learn from invalid ones
        }
        for (name, c) in agg::inner_bad_cases(a) {
            bad.push((format!("{}/{name}", a.name), (ai, c)));
        }
    }
    // ---- witnessed accumulators (IVC step): name counts on both sides of 10
    {
        let shapes: Vec<(usize, usize, usize, bool)> = if cx.tier.is_thorough() {
            vec![(1, 1, 2, true), (6, 4, 2, true), (9, 3, 2, true), (10, 3, 2, true), (11, 2, 2, true), (12, 4, 2, true), (3, 11, 2, true), (12, 12, 2, true), (11, 2, 3, true), (11, 2, 1, true), (12, 4, 2, false)]
        } else {
            vec![(11, 2, 2, true), (3, 11, 2, true)]
        };
        let wcases: Vec<(String, (usize, usize, usize, bool))> = shapes.into_iter().map(|s| (format!("wacc/{}f+{}p/x{}/{}", s.0, s.1, s.2, if s.3 { "distinct" } else { "equal" }), s)).collect();
        cx.next_group_share(if thorough { 200.0 } else { 25.0 });
        cx.run_cases("e-witnessed-accumulators", &wcases, |(f, p, n, d)| wacc::eval(*f, *p, *n, *d, seed, thorough));
    }

    cx.run_cases("d-invalid-inner-proof", &bad, |(ai, c)| agg::eval_inner_bad(&aggs[*ai], c));
    // mutations of the aggregated proof
    let mut dcases = vec![];
    for (ai, a) in aggs.iter().enumerate() {
        if !matches!(a.valid_verify, Some((Ok(()), _))) {
            continue;
        }
        for (name, mu) in agg::d_mutations(a, thorough, seed) {
            dcases.push((format!("{}/{name}", a.name), (ai, mu)));
        }
    }
    cx.run_cases("d-aggregated-proof", &dcases, |(ai, mu)| agg::eval_d(&aggs[*ai], mu));
    {
        cx.require(cx.class_count("d-aggregate-valid:valid:aggregate-ok:verify-ok") >= 1, "no valid aggregation succeeded");
        cx.require(cx.class_count("d-aggregated-proof:original:accept") >= 1, "the unmutated aggregated proof must verify");
        for sec in ["lhs-count", "lhs-bases", "lhs-scalars", "rhs-count", "rhs-bases", "sigma", "C", "plonk", "ipa-LR", "ipa-s", "inner-instances"] {
            let n = cx.counter_value(&format!("d:section:{sec}"));
            cx.require(n > 0, &format!("section {sec} of the aggregated proof was never mutated"));
        }
        cx.require(cx.counter_value("d:inner-bad:opening-proof+G") > 0 && cx.counter_value("d:inner-bad:wrong-public-input") > 0, "invalid inner proofs missing");
    }
    part_wall.insert("d".into(), json!({"wall_s": vcore::round3(t_d.elapsed().as_secs_f64()), "cpu_s": vcore::round3(process_cpu_s() - c_d)}));

    // ------------------------------------------------------------------------------------ (b)
    let t_b = Instant::now();
    let c_b = process_cpu_s();
    if thorough && !subjects.is_empty() && ks.contains_key(&(0, true)) {
        if let Some(other) = &other {
            cx.worker_rayon_threads = Some(8);
            let s = &subjects[0];
            let benv = vg::BEnv { env: &env, si: 0, s, other, k: ks[&(0, true)], legit: vg::legit_set(&env, 0, s), n_cells: Mutex::new(0), effective: Mutex::new(vec![]) };
            cx.require(other.vk.transcript_repr() == s.vk.transcript_repr(), "the 'other proof' must be for the same verifying key");
            let mut b1 = vec![("valid+instance-edits".to_string(), vg::BCase::ValidAndInstanceEdits)];
            for c in light[0].iter().filter(|c| ["el0G/group+G", "inst-c0-r0+1"].contains(&c.name.as_str()) || c.name.ends_with("S/scalar+1")).take(3) {
                b1.push((format!("corrupted/{}", c.name), vg::BCase::CorruptedOwnAcc(c.clone())));
            }
            cx.run_cases_with("b-constraint-level", &b1, 2, |c| vg::eval_b(&benv, c));
            // number of advice assignments of the verifier circuit (hook counter), from a witness-only run
            let n_cells = {
                midnight_proofs::verif::reset();
                let _ = vcore::catch(|| tracer::trace(&gadget::VerifierCircuit::new(&s.vk, &s.committed, &s.plain, &s.proof, true)).map(|_| ()));
                let n = midnight_proofs::verif::counters().0;
                midnight_proofs::verif::reset();
                n
            };
            cx.require(cx.is_replay() || *benv.n_cells.lock().unwrap() == n_cells, "MockProver and the tracer must see the same number of advice assignments");
            cx.extra("verifier_circuit_advice_assignments", json!(n_cells));
            if n_cells > 0 {
                // scan a stride of cells with the witness-only tracer, then fully verify the
                // circuits of (up to 8 of) the faults that reach the exposed accumulator
                cx.worker_rayon_threads = Some(1);
                let ns = 96u64;
                let scan: Vec<(String, vg::BCase)> = (0..ns).map(|j| j * n_cells / ns + n_cells / (2 * ns)).map(|i| (format!("scan-cell{i}+1"), vg::BCase::FaultScan(i))).collect();
                cx.run_cases("b-fault-scan", &scan, |c| vg::eval_b(&benv, c));
                cx.worker_rayon_threads = Some(8);
                let mut eff = benv.effective.lock().unwrap().clone();
                eff.sort();
                let step = (eff.len() / 8).max(1);
                let faults: Vec<(String, vg::BCase)> = if cx.is_replay() {
                    // the scan is not re-run in a replay: offer every scanned cell, the replay key selects one
                    (0..ns).map(|j| j * n_cells / ns + n_cells / (2 * ns)).map(|i| (format!("fault-cell{i}+1"), vg::BCase::Fault(i))).collect()
                } else {
                    eff.iter().step_by(step).take(8).map(|i| (format!("fault-cell{i}+1"), vg::BCase::Fault(*i))).collect()
                };
                cx.extra("b_fault_scan", json!({"cells_scanned": ns, "faults_reaching_the_exposed_accumulator": eff.len(), "fully_verified": faults.len()}));
                cx.run_cases_with("b-faults", &faults, 2, |c| vg::eval_b(&benv, c));
            }
            cx.require(cx.class_count("b-constraint-level:valid:sat") == 1, "the valid proof must satisfy the verifier circuit");
            cx.require(cx.class_count("b-constraint-level:instance-edit:unsat") > 20, "instance edits missing");
            cx.worker_rayon_threads = Some(1);
        }
    } else if !thorough {
        cx.note("part (b) (MockProver::verify of the verifier circuit) runs in the thorough tier only");
    }
    part_wall.insert("b".into(), json!({"wall_s": vcore::round3(t_b.elapsed().as_secs_f64()), "cpu_s": vcore::round3(process_cpu_s() - c_b)}));
    cx.extra("part_cost", serde_json::Value::Object(part_wall));
    cx.finish()
}
