//! Part (d): the light aggregator (fake-curve back-end) through its public API
//! `LightAggregator::{init, aggregate_proofs, verify}`.

use std::time::Instant;

use ff::Field;
use midnight_aggregator::light_aggregator::LightAggregator;
use midnight_circuits::{
    hash::poseidon::PoseidonChip,
    instructions::hash::HashCPU,
    verifier::{self, BlstrsEmulation},
};
use midnight_curves::Bls12;
use midnight_proofs::{
    poly::kzg::params::{ParamsKZG, ParamsVerifierKZG},
    transcript::{CircuitTranscript, Transcript},
};
use midnight_zk_stdlib::{MidnightPK, MidnightVK, Relation};
use rand_chacha::ChaCha20Rng;
use rand_core::SeedableRng;
use serde_json::json;
use vcore::{catch, panic_site, CaseOut, Viol};
use vfam::rectrans::{self, Kind, RecordingTranscript};

use crate::{
    gadget::{Vk, F},
    inner::{RelRange, RelWide},
    lightfs::LightFS,
    mutate,
};

pub type BT = CircuitTranscript<blake2b_simd::State>;

/// Runs `f` with stderr pointed at /dev/null (`LightAggregator::init` `dbg!`s a cost model).
pub fn quiet<T>(f: impl FnOnce() -> T) -> T {
    unsafe {
        let saved = libc::dup(2);
        let null = libc::open(b"/dev/null\0".as_ptr() as *const libc::c_char, libc::O_WRONLY);
        if saved >= 0 && null >= 0 {
            libc::dup2(null, 2);
        }
        let r = f();
        if saved >= 0 {
            libc::dup2(saved, 2);
            libc::close(saved);
        }
        if null >= 0 {
            libc::close(null);
        }
        r
    }
}

/// `LightAggregator<N>` with the const parameter erased.
pub trait AggDyn: Send + Sync {
    fn n(&self) -> usize;
    /// (verify result, transcript empty afterwards)
    fn verify(&self, insts: &[Vec<F>], proof: &[u8]) -> (Result<(), String>, bool);
    /// element map (offset, len, type) of what `verify` reads from a proof it accepts
    fn element_map(&self, insts: &[Vec<F>], proof: &[u8]) -> Result<Vec<(usize, usize, char)>, String>;
    fn aggregate(&self, insts: &[Vec<F>], proofs: &[Vec<u8>], rng_seed: u64) -> Result<Vec<u8>, String>;
}

pub struct AggN<const N: usize> {
    agg: LightAggregator<N>,
    srs: ParamsKZG<Bls12>,
    vparams: ParamsVerifierKZG<Bls12>,
}

fn arr<const N: usize, T: Clone>(v: &[T]) -> [T; N] {
    core::array::from_fn(|i| v[i].clone())
}

impl<const N: usize> AggDyn for AggN<N> {
    fn n(&self) -> usize {
        N
    }
    fn verify(&self, insts: &[Vec<F>], proof: &[u8]) -> (Result<(), String>, bool) {
        let mut t = BT::init_from_bytes(proof);
        let r = self.agg.verify(&self.vparams, &arr::<N, _>(insts), &mut t).map_err(|e| format!("{e:?}"));
        let empty = t.assert_empty().is_ok();
        (r, empty)
    }
    fn element_map(&self, insts: &[Vec<F>], proof: &[u8]) -> Result<Vec<(usize, usize, char)>, String> {
        let log = rectrans::new_log();
        let mut t = RecordingTranscript::<BT>::init_from_bytes(proof);
        self.agg.verify(&self.vparams, &arr::<N, _>(insts), &mut t).map_err(|e| format!("{e:?}"))?;
        let mut off = 0;
        let mut els = vec![];
        for e in log.lock().unwrap().iter() {
            if e.kind == Kind::Read {
                els.push((off, e.bytes.len(), e.ty));
                off += e.bytes.len();
            }
        }
        if off != proof.len() {
            return Err(format!("element map covers {off} of {} bytes", proof.len()));
        }
        Ok(els)
    }
    fn aggregate(&self, insts: &[Vec<F>], proofs: &[Vec<u8>], rng_seed: u64) -> Result<Vec<u8>, String> {
        let mut t = BT::init();
        self.agg
            .aggregate_proofs(&self.srs, &arr::<N, _>(insts), &arr::<N, _>(proofs), ChaCha20Rng::seed_from_u64(rng_seed), &mut t)
            .map_err(|e| format!("{e:?}"))?;
        Ok(t.finalize())
    }
}

/// An inner relation with exactly two public inputs (the aggregator's documented limitation).
pub struct InnerSetup {
    pub name: &'static str,
    pub vk: Vk,
    pub insts: Vec<Vec<F>>,
    pub proofs: Vec<Vec<u8>>,
    /// element map of proofs[0] (LightFS transcript reads)
    pub elements: Vec<(usize, usize, char)>,
    pub nb_fixed_bases: usize,
}

fn hashes(w: &[F; 2]) -> [F; 2] {
    [<PoseidonChip<F> as HashCPU<F, F>>::hash(w), <PoseidonChip<F> as HashCPU<F, F>>::hash(&w[1..])]
}

fn inner_setup_rel<R: Relation<Instance = [F; 2], Witness = [F; 2]>>(name: &'static str, rel: &R, srs: &ParamsKZG<Bls12>, n: usize, seed: u64) -> Result<(InnerSetup, MidnightVK, MidnightPK<R>), String> {
    let mut inner_srs = srs.clone();
    midnight_zk_stdlib::downsize_srs_for_relation(&mut inner_srs, rel);
    let vk = midnight_zk_stdlib::setup_vk(&inner_srs, rel);
    let pk = midnight_zk_stdlib::setup_pk(rel, &vk);
    let mut insts = vec![];
    let mut proofs = vec![];
    for i in 0..n {
        let w = [F::from(1000 + i as u64), F::from(77 + 5 * i as u64)];
        let x = hashes(&w);
        let p = midnight_zk_stdlib::prove::<R, LightFS>(&inner_srs, &pk, rel, &x, w, ChaCha20Rng::seed_from_u64(seed ^ (0xd0 + i as u64))).map_err(|e| format!("inner proof: {e:?}"))?;
        insts.push(x.to_vec());
        proofs.push(p);
    }
    // element map of the first inner proof
    let elements = {
        use midnight_proofs::plonk::prepare;
        type LT = CircuitTranscript<LightFS>;
        let log = rectrans::new_log();
        let mut t = RecordingTranscript::<LT>::init_from_bytes(&proofs[0]);
        prepare::<F, crate::gadget::Kzg, RecordingTranscript<LT>>(vk.vk(), &[&[group::Group::identity()]], &[&[&insts[0]]], &mut t).map_err(|e| format!("{e:?}"))?;
        let mut off = 0;
        let mut els = vec![];
        for e in log.lock().unwrap().iter() {
            if e.kind == Kind::Read {
                els.push((off, e.bytes.len(), e.ty));
                off += e.bytes.len();
            }
        }
        els
    };
    let nb_fixed_bases = verifier::fixed_bases::<BlstrsEmulation>("inner_vk", vk.vk()).len();
    Ok((InnerSetup { name, vk: vk.vk().clone(), insts, proofs, elements, nb_fixed_bases }, vk, pk))
}

pub fn inner_setup(which: usize, srs: &ParamsKZG<Bls12>, n: usize, seed: u64) -> Result<InnerSetup, String> {
    match which {
        0 => inner_setup_rel("range+poseidon", &RelRange, srs, n, seed).map(|x| x.0),
        _ => inner_setup_rel("jubjub+sha+poseidon-arch", &RelWide, srs, n, seed).map(|x| x.0),
    }
}

pub struct AggSubject {
    pub name: String,
    pub agg: Box<dyn AggDyn>,
    pub inner: InnerSetup,
    pub init_s: f64,
    pub agg_k: u32,
    pub aggregate_s: f64,
    pub verify_ms: f64,
    /// the aggregated proof of the valid inner proofs (None when aggregation failed)
    pub meta: Option<Vec<u8>>,
    pub aggregate_outcome: Result<(), String>,
    pub valid_verify: Option<(Result<(), String>, bool)>,
    /// (section, offset, len, type)
    pub sections: Vec<(String, usize, usize, char)>,
}

pub fn setup<const N: usize>(which: usize, srs_big: &ParamsKZG<Bls12>, seed: u64) -> Result<AggSubject, String> {
    let inner = inner_setup(which, srs_big, N, seed)?;
    let mut srs = srs_big.clone();
    let t = Instant::now();
    let agg = catch(|| LightAggregator::<N>::init(&mut srs, &inner.vk)).map_err(|p| format!("LightAggregator::init panicked: {p}"))?.map_err(|e| format!("LightAggregator::init: {e:?}"))?;
    let init_s = t.elapsed().as_secs_f64();
    let agg_k = srs.g_lagrange().len().trailing_zeros();
    let vparams = srs.verifier_params();
    let a = AggN::<N> { agg, srs, vparams };
    let t = Instant::now();
    let r = catch(|| a.aggregate(&inner.insts, &inner.proofs, seed ^ 0xa66));
    let aggregate_s = t.elapsed().as_secs_f64();
    let (meta, aggregate_outcome) = match r {
        Ok(Ok(m)) => (Some(m), Ok(())),
        Ok(Err(e)) => (None, Err(format!("Err: {e}"))),
        Err(p) => (None, Err(format!("panic: {p}"))),
    };
    let mut valid_verify = None;
    let mut verify_ms = 0.0;
    let mut sections = vec![];
    if let Some(m) = &meta {
        let t = Instant::now();
        let v = catch(|| a.verify(&inner.insts, m)).unwrap_or_else(|p| (Err(format!("panic: {p}")), false));
        verify_ms = t.elapsed().as_secs_f64() * 1e3;
        if v.0.is_ok() {
            let els = a.element_map(&inner.insts, m)?;
            sections = label_sections(&els, m, inner.nb_fixed_bases)?;
        }
        valid_verify = Some(v);
    }
    Ok(AggSubject { name: format!("{}-nb{N}", inner.name), agg: Box::new(a), inner, init_s, agg_k, aggregate_s, verify_ms, meta, aggregate_outcome, valid_verify, sections })
}

/// Layout written by `aggregate_proofs`: u32 n_l | n_l bases | n_l scalars | u32 n_r | n_r bases |
/// sigma | C | PLONK proof of the aggregator circuit | IPA: log2(len) x (L, R) | s.
fn label_sections(els: &[(usize, usize, char)], proof: &[u8], nb_fixed: usize) -> Result<Vec<(String, usize, usize, char)>, String> {
    let rd = |i: usize| -> u32 { u32::from_le_bytes(proof[els[i].0..els[i].0 + 4].try_into().unwrap()) };
    let mut out = vec![];
    let mut i = 0;
    if els[i].1 != 4 {
        return Err("first element is not the u32 count".into());
    }
    let nl = rd(0) as usize;
    out.push(("lhs-count".to_string(), els[0].0, 4, 'N'));
    i += 1;
    for _ in 0..nl {
        out.push(("lhs-bases".into(), els[i].0, els[i].1, els[i].2));
        i += 1;
    }
    for _ in 0..nl {
        out.push(("lhs-scalars".into(), els[i].0, els[i].1, els[i].2));
        i += 1;
    }
    if els[i].1 != 4 {
        return Err("rhs count not where expected".into());
    }
    let nr = rd(i) as usize;
    out.push(("rhs-count".into(), els[i].0, 4, 'N'));
    i += 1;
    for _ in 0..nr {
        out.push(("rhs-bases".into(), els[i].0, els[i].1, els[i].2));
        i += 1;
    }
    out.push(("sigma".into(), els[i].0, els[i].1, els[i].2));
    i += 1;
    out.push(("C".into(), els[i].0, els[i].1, els[i].2));
    i += 1;
    let k = (nr + nb_fixed).next_power_of_two().trailing_zeros() as usize;
    let ipa_start = els.len() - (2 * k + 1);
    while i < ipa_start {
        out.push(("plonk".into(), els[i].0, els[i].1, els[i].2));
        i += 1;
    }
    for j in 0..k {
        out.push((format!("ipa-L{j}"), els[i].0, els[i].1, els[i].2));
        out.push((format!("ipa-R{j}"), els[i + 1].0, els[i + 1].1, els[i + 1].2));
        i += 2;
    }
    out.push(("ipa-s".into(), els[i].0, els[i].1, els[i].2));
    // sanity of the labelling
    for (name, _, len, ty) in &out {
        let ok = match name.as_str() {
            "lhs-count" | "rhs-count" => *len == 4,
            "lhs-scalars" | "ipa-s" => *ty == 'S' && *len == 32,
            "plonk" => true,
            _ => *ty == 'G' && *len == 48,
        };
        if !ok {
            return Err(format!("section {name} has an element of type {ty} / {len} bytes"));
        }
    }
    Ok(out)
}

#[derive(Clone, Debug)]
pub enum DMut {
    None,
    Replace { section: String, class: &'static str, off: usize, bytes: Vec<u8> },
    Truncate { section: String, len: usize },
    Append,
    SwapEls { section: String, a: (usize, usize), b: (usize, usize) },
    Inst { class: &'static str, insts: Vec<Vec<F>> },
}

fn section_class(s: &str) -> String {
    if s.starts_with("ipa-L") || s.starts_with("ipa-R") {
        "ipa-LR".into()
    } else {
        s.to_string()
    }
}

pub fn d_mutations(s: &AggSubject, rich: bool, seed: u64) -> Vec<(String, DMut)> {
    let Some(meta) = &s.meta else { return vec![] };
    let mut m: Vec<(String, DMut)> = vec![("none".into(), DMut::None)];
    let mut rng = vcore::rng_for(seed, &format!("c20-d-{}", s.name));
    let inv = mutate::invalid_points();
    let mut seen_section = std::collections::BTreeSet::new();
    for (i, (sec, off, len, ty)) in s.sections.iter().enumerate() {
        let cur = &meta[*off..off + len];
        let first_of_section = seen_section.insert(section_class(sec));
        if *ty == 'N' {
            let n = u32::from_le_bytes(cur.try_into().unwrap());
            for (class, v) in [("count+1", n.wrapping_add(1)), ("count-1", n.wrapping_sub(1)), ("count=0", 0), ("count=max", u32::MAX), ("count*2", n.wrapping_mul(2))] {
                if v != n {
                    m.push((format!("el{i}-{sec}/{class}"), DMut::Replace { section: sec.clone(), class, off: *off, bytes: v.to_le_bytes().to_vec() }));
                }
            }
        } else {
            let rnd = F::random(&mut rng);
            for (class, bytes) in mutate::variants(cur, *ty, rich || sec.starts_with("ipa") || sec == "sigma" || sec == "C", rnd) {
                m.push((format!("el{i}-{sec}/{class}"), DMut::Replace { section: sec.clone(), class, off: *off, bytes }));
            }
            if first_of_section || sec.starts_with("ipa") {
                if *ty == 'G' {
                    for (class, bytes) in &inv {
                        m.push((format!("el{i}-{sec}/{class}"), DMut::Replace { section: sec.clone(), class, off: *off, bytes: bytes.clone() }));
                    }
                } else {
                    m.push((format!("el{i}-{sec}/scalar-all-ff"), DMut::Replace { section: sec.clone(), class: "scalar-all-ff", off: *off, bytes: vec![0xff; 32] }));
                }
            }
        }
        if first_of_section || sec.starts_with("ipa") {
            m.push((format!("el{i}-{sec}/truncate-at"), DMut::Truncate { section: sec.clone(), len: *off }));
            m.push((format!("el{i}-{sec}/truncate-inside"), DMut::Truncate { section: sec.clone(), len: off + len / 2 }));
        }
    }
    // swaps of neighbouring elements of the same size inside the accumulator and IPA sections
    for w in s.sections.windows(2) {
        let (a, b) = (&w[0], &w[1]);
        let same_kind = a.3 == b.3 && a.2 == b.2 && a.3 != 'N';
        let interesting = a.0 != "plonk" && b.0 != "plonk";
        if same_kind && interesting && meta[a.1..a.1 + a.2] != meta[b.1..b.1 + b.2] {
            m.push((format!("swap-{}@{}-{}@{}", a.0, a.1, b.0, b.1), DMut::SwapEls { section: section_class(&a.0), a: (a.1, a.2), b: (b.1, b.2) }));
        }
    }
    m.push(("append-1-byte".into(), DMut::Append));
    // inner public inputs
    let insts = &s.inner.insts;
    for p in 0..insts.len() {
        for j in 0..insts[p].len() {
            let mut x = insts.clone();
            x[p][j] += F::ONE;
            m.push((format!("inst-p{p}-{j}+1"), DMut::Inst { class: "inner-instance+1", insts: x }));
        }
        let mut x = insts.clone();
        x[p].swap(0, 1);
        m.push((format!("inst-p{p}-swap-within"), DMut::Inst { class: "inner-instance-swap-within-proof", insts: x }));
        let mut x = insts.clone();
        x[p].pop();
        m.push((format!("inst-p{p}-drop-last"), DMut::Inst { class: "inner-instance-wrong-length", insts: x }));
        let mut x = insts.clone();
        x[p].push(F::ZERO);
        m.push((format!("inst-p{p}-append-0"), DMut::Inst { class: "inner-instance-wrong-length", insts: x }));
        for q in p + 1..insts.len() {
            let mut x = insts.clone();
            x.swap(p, q);
            m.push((format!("inst-swap-p{p}-p{q}"), DMut::Inst { class: "inner-instances-swapped-between-proofs", insts: x }));
        }
    }
    m
}

pub fn eval_d(s: &AggSubject, mu: &DMut) -> CaseOut {
    let mut out = CaseOut::batch();
    let meta = s.meta.as_ref().expect("meta");
    let mut proof = meta.clone();
    let mut insts = s.inner.insts.clone();
    let (section, class): (String, String) = match mu {
        DMut::None => ("none".into(), "none".into()),
        DMut::Replace { section, class, off, bytes } => {
            proof[*off..off + bytes.len()].copy_from_slice(bytes);
            (section_class(section), class.to_string())
        }
        DMut::Truncate { section, len } => {
            proof.truncate(*len);
            (section_class(section), "truncated".into())
        }
        DMut::Append => {
            proof.push(0);
            ("trailing".into(), "append".into())
        }
        DMut::SwapEls { section, a, b } => {
            let (x, y) = (proof[a.0..a.0 + a.1].to_vec(), proof[b.0..b.0 + b.1].to_vec());
            proof[a.0..a.0 + a.1].copy_from_slice(&y);
            proof[b.0..b.0 + b.1].copy_from_slice(&x);
            (section.clone(), "swap-neighbours".into())
        }
        DMut::Inst { class, insts: x } => {
            insts = x.clone();
            ("inner-instances".into(), class.to_string())
        }
    };
    let is_none = matches!(mu, DMut::None);
    let detail = json!({"aggregator": s.name, "mutation": format!("{mu:?}").chars().take(200).collect::<String>()});
    let t0 = crate::cpu_ms();
    let res = catch(|| s.agg.verify(&insts, &proof));
    out.counter("d:ms:verify", crate::cpu_ms() - t0);
    match res {
        Err(p) => {
            out.eval("verify:PANIC", !is_none);
            out.viol(Viol::new(
                format!("aggregator:panic:{}:mutated-aggregated-proof", panic_site(&p)),
                format!("LightAggregator::verify panicked on an aggregated proof / instance mutated in section {section} ({class}): {p}"),
                detail,
            ));
        }
        Ok((r, empty)) => {
            let accepted = r.is_ok();
            if is_none {
                out.eval(if accepted { "original:accept" } else { "original:REJECT" }, false);
            } else if matches!(mu, DMut::Append) {
                out.eval(&format!("trailing-byte:verify-{}:assert_empty-{}", if accepted { "ok" } else { "err" }, if empty { "ok" } else { "err" }), true);
                if accepted && empty {
                    out.viol(Viol::new("aggregator:accepts:trailing-bytes", "aggregated proof with an appended byte: verify Ok and the transcript reports empty", detail));
                }
            } else {
                out.eval(if accepted { "mutated:ACCEPT" } else { "mutated:reject" }, true);
                out.counter(&format!("d:section:{section}"), 1);
                if accepted {
                    out.viol(Viol::new(
                        format!("aggregator:accepts:{section}"),
                        format!("LightAggregator::verify ACCEPTED an aggregated proof / instance mutated in section {section} ({class})"),
                        detail,
                    ));
                }
            }
        }
    }
    out.sample = Some(json!({"aggregator": s.name, "section": section, "class": class}));
    out
}

// ---------------------------------------------------------------- invalid inner proofs

#[derive(Clone, Debug)]
pub struct InnerBad {
    pub pos: usize,
    pub class: &'static str,
    pub proofs: Vec<Vec<u8>>,
    pub insts: Vec<Vec<F>>,
}

pub fn inner_bad_cases(s: &AggSubject) -> Vec<(String, InnerBad)> {
    let n = s.agg.n();
    let mut v = vec![];
    let els = &s.inner.elements;
    let first_g = els.iter().find(|e| e.2 == 'G').copied();
    let last_g = els.iter().rev().find(|e| e.2 == 'G').copied();
    let first_s = els.iter().find(|e| e.2 == 'S').copied();
    let last_s = els.iter().rev().find(|e| e.2 == 'S').copied();
    for pos in 0..n {
        let base = &s.inner.proofs[pos];
        let mut push = |class: &'static str, proof: Vec<u8>, insts: Vec<Vec<F>>| {
            let mut proofs = s.inner.proofs.clone();
            proofs[pos] = proof;
            v.push((format!("pos{pos}/{class}"), InnerBad { pos, class, proofs, insts }));
        };
        let shift_g = |e: (usize, usize, char)| -> Option<Vec<u8>> {
            let p = mutate::g1_from(&base[e.0..e.0 + e.1])?;
            Some(mutate::replace(base, e.0, &mutate::g1_bytes(&(p + <midnight_curves::G1Projective as group::Group>::generator()))))
        };
        let shift_s = |e: (usize, usize, char)| -> Option<Vec<u8>> {
            let x = mutate::scalar_from(&base[e.0..e.0 + e.1])?;
            Some(mutate::replace(base, e.0, &mutate::scalar_bytes(&(x + F::ONE))))
        };
        if let Some(p) = last_g.and_then(shift_g) {
            push("opening-proof+G", p, s.inner.insts.clone());
        }
        if let Some(p) = first_g.and_then(shift_g) {
            push("first-commitment+G", p, s.inner.insts.clone());
        }
        if let Some(p) = first_s.and_then(shift_s) {
            push("first-evaluation+1", p, s.inner.insts.clone());
        }
        if let Some(p) = last_s.and_then(shift_s) {
            push("last-evaluation+1", p, s.inner.insts.clone());
        }
        if let Some(e) = first_g {
            push("invalid-point-encoding", mutate::replace(base, e.0, &mutate::invalid_points()[0].1), s.inner.insts.clone());
        }
        push("truncated", base[..base.len() - 1].to_vec(), s.inner.insts.clone());
        push("empty-proof", vec![], s.inner.insts.clone());
        let mut x = s.inner.insts.clone();
        x[pos][0] += F::ONE;
        push("wrong-public-input", base.clone(), x);
        if n >= 2 {
            // the (valid) proof of the neighbouring statement at this position
            push("proof-of-another-statement", s.inner.proofs[(pos + 1) % n].clone(), s.inner.insts.clone());
        }
    }
    v
}

pub fn eval_inner_bad(s: &AggSubject, c: &InnerBad) -> CaseOut {
    let mut out = CaseOut::batch();
    let detail = json!({"aggregator": s.name, "position": c.pos, "class": c.class});
    let t0 = crate::cpu_ms();
    let res = catch(|| s.agg.aggregate(&c.insts, &c.proofs, 7));
    out.counter("d:ms:aggregate-invalid", crate::cpu_ms() - t0);
    match res {
        Err(p) => {
            out.eval("aggregate_proofs:PANIC", true);
            out.viol(Viol::new(
                format!("aggregator:panic:{}:invalid-inner-proof", panic_site(&p)),
                format!("LightAggregator::aggregate_proofs panicked instead of returning Err (documented: '# Errors: If some of the provided proofs are invalid') on an invalid inner proof ({}) at position {}: {p}", c.class, c.pos),
                detail,
            ));
        }
        Ok(Err(_)) => out.eval("aggregate_proofs:err", true),
        Ok(Ok(meta)) => {
            // an aggregated proof came out: it must not verify
            match catch(|| s.agg.verify(&c.insts, &meta)) {
                Ok((Ok(()), _)) => {
                    out.eval("aggregate_proofs:ok/verify:ACCEPT", true);
                    out.viol(Viol::new(
                        format!("aggregator:invalid-inner-proof-accepted:pos={}", c.pos),
                        format!("an aggregation containing an invalid inner proof ({}) at position {} verifies", c.class, c.pos),
                        detail,
                    ));
                }
                Ok((Err(_), _)) => out.eval("aggregate_proofs:ok/verify:reject", true),
                Err(p) => out.viol(Viol::new(format!("aggregator:panic:{}:mutated-aggregated-proof", panic_site(&p)), format!("verify panicked: {p}"), detail)),
            }
        }
    }
    out.counter(&format!("d:inner-bad:{}", c.class), 1);
    out
}
