//! Inner circuits and their valid proofs (Poseidon transcript), with the element map of the proof.

use group::Group;
use midnight_circuits::{
    field::NativeChip,
    hash::poseidon::PoseidonChip,
    instructions::{hash::HashCPU, AssertionInstructions, AssignmentInstructions, HashInstructions, PublicInputInstructions, RangeCheckInstructions},
    testing_utils::FromScratch,
    types::AssignedNative,
};
use midnight_curves::G1Projective;
use midnight_proofs::{
    circuit::{Layouter, SimpleFloorPlanner, Value},
    dev::MockProver,
    plonk::{prepare, Circuit, ConstraintSystem, Error},
    transcript::Transcript,
};
use midnight_zk_stdlib::{MidnightCircuit, Relation, ZkStdLib, ZkStdLibArch};
use rand_chacha::ChaCha20Rng;
use rand_core::SeedableRng;
use vfam::{
    fam::FamParams,
    lattice::{self, Config, Hash, Wit},
    rectrans::{self, Kind, RecordingTranscript},
};

use crate::gadget::{Kzg, Vk, F, PT};

pub struct Subject {
    pub name: String,
    pub k: u32,
    pub vk: Vk,
    pub committed: Vec<G1Projective>,
    pub plain: Vec<Vec<F>>,
    pub proof: Vec<u8>,
    /// (offset, len, 'G' | 'S') of every element the verifier reads, in proof order
    pub elements: Vec<(usize, usize, char)>,
    pub lookups: usize,
    pub trashcans: usize,
}

/// Element map from the REAL verifier's reads (recording transcript around the Poseidon one).
pub fn element_map(vk: &Vk, committed: &[G1Projective], plain: &[Vec<F>], proof: &[u8]) -> Result<Vec<(usize, usize, char)>, String> {
    let log = rectrans::new_log();
    let plain_refs: Vec<&[F]> = plain.iter().map(|c| c.as_slice()).collect();
    let mut t = RecordingTranscript::<PT>::init_from_bytes(proof);
    prepare::<F, Kzg, RecordingTranscript<PT>>(vk, &[committed], &[&plain_refs], &mut t).map_err(|e| format!("prepare of the valid proof failed: {e:?}"))?;
    t.assert_empty().map_err(|_| "valid proof has trailing bytes".to_string())?;
    let mut off = 0;
    let mut els = vec![];
    for e in log.lock().unwrap().iter() {
        if e.kind == Kind::Read {
            els.push((off, e.bytes.len(), e.ty));
            off += e.bytes.len();
        }
    }
    if off != proof.len() {
        return Err(format!("element map covers {off} of {} bytes", proof.len()));
    }
    Ok(els)
}

// ---------------------------------------------------------------- (1) Poseidon chip from scratch: no lookups

#[derive(Clone, Debug, Default)]
pub struct ScratchPoseidon {
    preimage: Value<[F; 2]>,
}

impl Circuit<F> for ScratchPoseidon {
    type Config = <PoseidonChip<F> as FromScratch<F>>::Config;
    type FloorPlanner = SimpleFloorPlanner;
    type Params = ();
    fn without_witnesses(&self) -> Self {
        Self::default()
    }
    fn configure(meta: &mut ConstraintSystem<F>) -> Self::Config {
        let committed_instance_column = meta.instance_column();
        let instance_column = meta.instance_column();
        PoseidonChip::configure_from_scratch(meta, &[committed_instance_column, instance_column])
    }
    fn synthesize(&self, config: Self::Config, mut layouter: impl Layouter<F>) -> Result<(), Error> {
        let native_chip = NativeChip::new_from_scratch(&config.0);
        let poseidon_chip = PoseidonChip::new_from_scratch(&config);
        let inputs = native_chip.assign_many(&mut layouter, &self.preimage.transpose_array())?;
        let output = poseidon_chip.hash(&mut layouter, &inputs)?;
        native_chip.constrain_as_public_input(&mut layouter, &output)?;
        native_chip.load_from_scratch(&mut layouter)?;
        poseidon_chip.load_from_scratch(&mut layouter)
    }
}

pub fn subject_scratch(seed: u64, variant: u64, force_k: Option<u32>) -> Result<Subject, String> {
    let preimage = [F::from(7 + variant), F::from(9 + 3 * variant)];
    let out = <PoseidonChip<F> as HashCPU<F, F>>::hash(&preimage);
    let circuit = ScratchPoseidon { preimage: Value::known(preimage) };
    let inst = vec![vec![], vec![out]];
    let k = (force_k.unwrap_or(5)..=10)
        .find(|k| vcore::catch(|| MockProver::run(*k, &circuit, inst.clone()).map(|m| m.verify().is_ok()).unwrap_or(false)).unwrap_or(false))
        .ok_or("scratch Poseidon circuit does not fit k<=10")?;
    let params = vfam::api::setup(k, seed);
    let pk = vfam::api::keygen(&*params, &ScratchPoseidon::default(), k).map_err(|e| format!("{e:?}"))?;
    let proof = vfam::api::prove::<PT, _>(&params, &pk, &[circuit], 1, &[inst.clone()], seed ^ 0xc20 ^ (variant << 8)).map_err(|e| format!("{e:?}"))?;
    let vk = pk.get_vk().clone();
    let committed = vec![G1Projective::identity()];
    let plain = vec![vec![out]];
    let elements = element_map(&vk, &committed, &plain, &proof)?;
    Ok(Subject { name: format!("scratch-poseidon-k{k}{}", if variant == 0 { String::new() } else { format!("-w{variant}") }), k, lookups: vk.cs().lookups().len(), trashcans: vk.cs().trashcans().len(), vk, committed, plain, proof, elements })
}

// ---------------------------------------------------------------- (2) std-lib relation with a lookup (range check) + Poseidon

#[derive(Clone)]
pub struct RelRange;
impl Relation for RelRange {
    type Instance = [F; 2];
    type Witness = [F; 2];
    fn format_instance(x: &[F; 2]) -> Result<Vec<F>, Error> {
        Ok(x.to_vec())
    }
    fn circuit(&self, s: &ZkStdLib, l: &mut impl Layouter<F>, inst: Value<[F; 2]>, w: Value<[F; 2]>) -> Result<(), Error> {
        let i: Vec<AssignedNative<F>> = inst.transpose_array().iter().map(|v| s.assign_as_public_input(l, *v)).collect::<Result<_, _>>()?;
        let m: Vec<AssignedNative<F>> = s.assign_many(l, &w.transpose_array())?;
        // w[0] < 2^20 through the pow2range lookup table
        s.assert_lower_than_fixed(l, &m[0], &(num_bigint::BigUint::from(1u32) << 20))?;
        let h = s.poseidon(l, &m)?;
        s.assert_equal(l, &i[0], &h)?;
        let h2 = s.poseidon(l, &m[1..])?;
        s.assert_equal(l, &i[1], &h2)
    }
    fn used_chips(&self) -> ZkStdLibArch {
        ZkStdLibArch { poseidon: true, ..ZkStdLibArch::default() }
    }
    fn write_relation<W: std::io::Write>(&self, _: &mut W) -> std::io::Result<()> {
        Ok(())
    }
    fn read_relation<R: std::io::Read>(_: &mut R) -> std::io::Result<Self> {
        Ok(RelRange)
    }
}

pub fn subject_stdlib(seed: u64) -> Result<Subject, String> {
    let rel = RelRange;
    let k = MidnightCircuit::from_relation(&rel).min_k();
    let srs = (*vfam::api::setup(k, seed)).clone();
    let vk = midnight_zk_stdlib::setup_vk(&srs, &rel);
    let pk = midnight_zk_stdlib::setup_pk(&rel, &vk);
    let w = [F::from(0xabcde), F::from(31337)];
    let x = [<PoseidonChip<F> as HashCPU<F, F>>::hash(&w), <PoseidonChip<F> as HashCPU<F, F>>::hash(&w[1..])];
    let proof = midnight_zk_stdlib::prove::<RelRange, midnight_circuits::hash::poseidon::PoseidonState<F>>(&srs, &pk, &rel, &x, w, ChaCha20Rng::seed_from_u64(seed ^ 0x20c))
        .map_err(|e| format!("{e:?}"))?;
    let vk = vk.vk().clone();
    let committed = vec![G1Projective::identity()];
    let plain = vec![x.to_vec()];
    let elements = element_map(&vk, &committed, &plain, &proof)?;
    Ok(Subject { name: format!("stdlib-range+poseidon-k{k}"), k, lookups: vk.cs().lookups().len(), trashcans: vk.cs().trashcans().len(), vk, committed, plain, proof, elements })
}

// ---------------------------------------------------------------- (3) a member of the C01 family: trash, lookups, a committed instance column

pub fn fam_params() -> FamParams {
    // single phase (the gadget asserts one phase) and rotations in {-1,0,1} only (the gadget's
    // documented restriction); everything else on.
    let mut p = FamParams::rich(1, 2);
    p.rot = false;
    p
}

pub fn subject_fam(seed: u64) -> Result<Subject, String> {
    let p = fam_params();
    let k = lattice::min_k(&p, false, seed).ok_or("family member does not fit k<=9")?;
    let cfg = Config { p, v1: false, num_proofs: 1, nb_committed: 1, k, hash: Hash::Poseidon, wit: Wit::Seeded(0) };
    let r = lattice::round(&cfg, seed, false)?;
    let proof = r.proof.clone()?;
    if r.verdict != Some(vfam::api::Verdict::Accept) {
        return Err(format!("family proof not accepted: {:?}", r.verdict));
    }
    let (_, pk) = lattice::keys(&cfg.p, false, k, seed)?;
    let vk = pk.get_vk().clone();
    let committed = r.committed[0].clone();
    let plain = r.plain[0].clone();
    let elements = element_map(&vk, &committed, &plain, &proof)?;
    Ok(Subject { name: format!("fam-{}-k{k}", cfg.p.tag()), k, lookups: vk.cs().lookups().len(), trashcans: vk.cs().trashcans().len(), vk, committed, plain, proof, elements })
}


// ---------------------------------------------------------------- the aggregator test's own inner relation (wide architecture)

#[derive(Clone)]
pub struct RelWide;
impl Relation for RelWide {
    type Instance = [F; 2];
    type Witness = [F; 2];
    fn format_instance(x: &[F; 2]) -> Result<Vec<F>, Error> {
        Ok(x.to_vec())
    }
    fn circuit(&self, s: &ZkStdLib, l: &mut impl Layouter<F>, _inst: Value<[F; 2]>, w: Value<[F; 2]>) -> Result<(), Error> {
        let m: Vec<AssignedNative<F>> = s.assign_many(l, &w.transpose_array())?;
        let o1 = s.poseidon(l, &m)?;
        let o2 = s.poseidon(l, &m[1..])?;
        s.constrain_as_public_input(l, &o1)?;
        s.constrain_as_public_input(l, &o2)
    }
    fn used_chips(&self) -> ZkStdLibArch {
        ZkStdLibArch { jubjub: true, poseidon: true, sha2_256: true, nr_pow2range_cols: 4, ..ZkStdLibArch::default() }
    }
    fn write_relation<W: std::io::Write>(&self, _: &mut W) -> std::io::Result<()> {
        Ok(())
    }
    fn read_relation<R: std::io::Read>(_: &mut R) -> std::io::Result<Self> {
        Ok(RelWide)
    }
}
