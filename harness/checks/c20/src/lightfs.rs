//! The transcript hash the light aggregator expects of its inner proofs.
//!
//! `midnight_aggregator::light_fiat_shamir::LightPoseidonFS` lives in a private module. With the
//! `ipa-hook` feature (needs the additive re-export `midnight_aggregator::verif_exports`) the real
//! type is used. Without it, a byte-for-byte replica is used (a point is absorbed as
//! `Fq::from_uniform_bytes(SHA-512(compressed point))`, scalars and squeezing as `PoseidonState`):
//! a replica that drifts from the real type makes the aggregator reject honest proofs, which the
//! check reports as `aggregator:rejects-valid`.

#[cfg(feature = "ipa-hook")]
pub type LightFS = midnight_aggregator::verif_exports::LightPoseidonFS<midnight_curves::Fq>;

#[cfg(not(feature = "ipa-hook"))]
pub use replica::LightFS;

#[cfg(not(feature = "ipa-hook"))]
mod replica {
    use std::io::{self, Read};

    use ff::FromUniformBytes;
    use midnight_circuits::hash::poseidon::PoseidonState;
    use midnight_curves::{Fq, G1Projective};
    use midnight_proofs::transcript::{Hashable, Sampleable, TranscriptHash};

    #[derive(Clone, Debug)]
    pub struct LightFS(PoseidonState<Fq>);

    impl TranscriptHash for LightFS {
        type Input = Vec<Fq>;
        type Output = Fq;
        fn init() -> Self {
            LightFS(<PoseidonState<Fq> as TranscriptHash>::init())
        }
        fn absorb(&mut self, input: &Self::Input) {
            <PoseidonState<Fq> as TranscriptHash>::absorb(&mut self.0, input)
        }
        fn squeeze(&mut self) -> Self::Output {
            <PoseidonState<Fq> as TranscriptHash>::squeeze(&mut self.0)
        }
    }

    impl Hashable<LightFS> for G1Projective {
        fn to_input(&self) -> Vec<Fq> {
            use sha2::Digest;
            let bytes = <G1Projective as Hashable<LightFS>>::to_bytes(self);
            let digest: [u8; 64] = sha2::Sha512::digest(bytes).into();
            vec![Fq::from_uniform_bytes(&digest)]
        }
        fn to_bytes(&self) -> Vec<u8> {
            <G1Projective as Hashable<PoseidonState<Fq>>>::to_bytes(self)
        }
        fn read(buffer: &mut impl Read) -> io::Result<Self> {
            <G1Projective as Hashable<PoseidonState<Fq>>>::read(buffer)
        }
    }

    impl Hashable<LightFS> for Fq {
        fn to_input(&self) -> Vec<Fq> {
            <Fq as Hashable<PoseidonState<Fq>>>::to_input(self)
        }
        fn to_bytes(&self) -> Vec<u8> {
            <Fq as Hashable<PoseidonState<Fq>>>::to_bytes(self)
        }
        fn read(buffer: &mut impl Read) -> io::Result<Self> {
            <Fq as Hashable<PoseidonState<Fq>>>::read(buffer)
        }
    }

    impl Sampleable<LightFS> for Fq {
        fn sample(out: Fq) -> Self {
            out
        }
    }
}
