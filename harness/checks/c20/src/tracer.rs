//! A witness-only `Assignment`: it keeps the values of the advice / fixed cells the circuit assigns
//! and the copy constraints that touch an instance column, and nothing else (no 2^K tables, no row
//! limit). Synthesis runs the circuit's real `synthesize` through its real floor planner; the
//! verification hook counter of `Region::assign_advice` keeps working. The result is validated
//! against `MockProver::run` for every valid proof (group a-circuit-size).

use std::collections::BTreeMap;

use midnight_proofs::{
    circuit::Value,
    plonk::{Advice, Any, Assignment, Challenge, Circuit, Column, ConstraintSystem, Error, Fixed, FloorPlanner, Instance, Selector},
    utils::rational::Rational,
};

use crate::gadget::F;

#[derive(Default)]
pub struct Tracer {
    advice: Vec<Vec<Option<F>>>,
    fixed: Vec<Vec<Option<F>>>,
    /// (instance column, row) -> the cell tied to it by a copy constraint (the last one wins;
    /// more than one is recorded in `multi`)
    pub exposed: BTreeMap<(usize, usize), (Column<Any>, usize)>,
    pub multi: usize,
    pub advice_assignments: u64,
}

fn put(t: &mut Vec<Vec<Option<F>>>, col: usize, row: usize, v: Option<F>) {
    if t.len() <= col {
        t.resize(col + 1, vec![]);
    }
    let c = &mut t[col];
    if c.len() <= row {
        let new_len = (row + 1).max(c.len() * 2).max(1024);
        c.resize(new_len, None);
    }
    c[row] = v;
}

impl Tracer {
    pub fn cell(&self, col: Column<Any>, row: usize) -> Option<F> {
        let t = match col.column_type() {
            Any::Advice(_) => &self.advice,
            Any::Fixed => &self.fixed,
            Any::Instance => return None,
        };
        t.get(col.index()).and_then(|c| c.get(row)).copied().flatten()
    }

    /// Values tied to rows 0.. of instance column `col` (stops at the first row without a tie).
    pub fn exposed_column(&self, col: usize) -> Vec<Option<F>> {
        let mut out = vec![];
        let mut r = 0;
        while let Some((c, row)) = self.exposed.get(&(col, r)) {
            out.push(self.cell(*c, *row));
            r += 1;
        }
        out
    }
}

impl Assignment<F> for Tracer {
    fn enter_region<NR, N>(&mut self, _: N)
    where
        NR: Into<String>,
        N: FnOnce() -> NR,
    {
    }
    fn annotate_column<A, AR>(&mut self, _: A, _: Column<Any>)
    where
        A: FnOnce() -> AR,
        AR: Into<String>,
    {
    }
    fn exit_region(&mut self) {}
    fn enable_selector<A, AR>(&mut self, _: A, _: &Selector, _: usize) -> Result<(), Error>
    where
        A: FnOnce() -> AR,
        AR: Into<String>,
    {
        Ok(())
    }
    fn query_instance(&self, _: Column<Instance>, _: usize) -> Result<Value<F>, Error> {
        Ok(Value::unknown())
    }
    fn assign_advice<V, VR, A, AR>(&mut self, _: A, column: Column<Advice>, row: usize, to: V) -> Result<(), Error>
    where
        V: FnOnce() -> Value<VR>,
        VR: Into<Rational<F>>,
        A: FnOnce() -> AR,
        AR: Into<String>,
    {
        let mut v = None;
        to().map(|x| v = Some(Into::<Rational<F>>::into(x).evaluate()));
        self.advice_assignments += 1;
        put(&mut self.advice, column.index(), row, v);
        Ok(())
    }
    fn assign_fixed<V, VR, A, AR>(&mut self, _: A, column: Column<Fixed>, row: usize, to: V) -> Result<(), Error>
    where
        V: FnOnce() -> Value<VR>,
        VR: Into<Rational<F>>,
        A: FnOnce() -> AR,
        AR: Into<String>,
    {
        let mut v = None;
        to().map(|x| v = Some(Into::<Rational<F>>::into(x).evaluate()));
        put(&mut self.fixed, column.index(), row, v);
        Ok(())
    }
    fn copy(&mut self, left_column: Column<Any>, left_row: usize, right_column: Column<Any>, right_row: usize) -> Result<(), Error> {
        let l_inst = *left_column.column_type() == Any::Instance;
        let r_inst = *right_column.column_type() == Any::Instance;
        if l_inst != r_inst {
            let (inst, cell) = if l_inst { ((left_column.index(), left_row), (right_column, right_row)) } else { ((right_column.index(), right_row), (left_column, left_row)) };
            if self.exposed.insert(inst, cell).is_some() {
                self.multi += 1;
            }
        }
        Ok(())
    }
    fn fill_from_row(&mut self, _: Column<Fixed>, _: usize, _: Value<Rational<F>>) -> Result<(), Error> {
        Ok(())
    }
    fn get_challenge(&self, _: Challenge) -> Value<F> {
        Value::unknown()
    }
    fn push_namespace<NR, N>(&mut self, _: N)
    where
        NR: Into<String>,
        N: FnOnce() -> NR,
    {
    }
    fn pop_namespace(&mut self, _: Option<String>) {}
}

/// Configures and synthesises `circuit` into a fresh tracer.
pub fn trace<C: Circuit<F>>(circuit: &C) -> Result<Tracer, Error> {
    let mut cs = ConstraintSystem::default();
    let config = C::configure(&mut cs);
    let mut t = Tracer::default();
    C::FloorPlanner::synthesize(&mut t, circuit, config, cs.constants().clone())?;
    Ok(t)
}
