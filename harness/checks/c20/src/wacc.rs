//! Witnessed accumulators (the IVC step): two accumulators are assigned with
//! `AssignedAccumulator::assign` under the fixed-base names the library hands out for a verifying
//! key with `nb_fixed` fixed and `nb_perm` permutation commitments, accumulated in-circuit and
//! exposed. The instance is the off-circuit `Accumulator::accumulate` of the same two values: it
//! must satisfy the circuit, and no single-position edit of it may. The number of names crosses
//! 10 on either side, where numeric and lexicographic order of the names part ways.

use std::collections::BTreeMap;

use ff::Field;
use group::Group;
use midnight_circuits::{
    ecc::foreign::ForeignEccChip,
    field::{decomposition::chip::P2RDecompositionChip, NativeChip, NativeGadget},
    hash::poseidon::PoseidonChip,
    instructions::PublicInputInstructions,
    types::{ComposableChip, Instantiable},
    verifier::{fixed_base_names, Accumulator, AssignedAccumulator, Msm, VerifierGadget},
};
use midnight_proofs::{
    circuit::{Layouter, SimpleFloorPlanner, Value},
    dev::{InstanceValue, MockProver},
    plonk::{Circuit, ConstraintSystem, Error},
};
use serde_json::json;
use vcore::{catch, CaseOut, Viol};

use crate::gadget::{VerifierCircuit, C, F, S, VK_NAME};

#[derive(Clone, Debug)]
pub struct WaccCircuit {
    pub nb_fixed: usize,
    pub nb_perm: usize,
    pub accs: Vec<Value<Accumulator<S>>>,
}

impl Circuit<F> for WaccCircuit {
    type Config = <VerifierCircuit as Circuit<F>>::Config;
    type FloorPlanner = SimpleFloorPlanner;
    type Params = ();

    fn without_witnesses(&self) -> Self {
        unreachable!()
    }

    fn configure(meta: &mut ConstraintSystem<F>) -> Self::Config {
        <VerifierCircuit as Circuit<F>>::configure(meta)
    }

    fn synthesize(&self, config: Self::Config, mut layouter: impl Layouter<F>) -> Result<(), Error> {
        let native_chip = <NativeChip<F> as ComposableChip<F>>::new(&config.0, &());
        let core_decomp_chip = P2RDecompositionChip::new(&config.1, &16);
        let native_gadget = NativeGadget::new(core_decomp_chip.clone(), native_chip.clone());
        let curve_chip = ForeignEccChip::new(&config.2, &native_gadget, &native_gadget);
        let poseidon_chip = PoseidonChip::new(&config.3, &native_chip);
        let verifier_chip = VerifierGadget::<S>::new(&curve_chip, &native_gadget, &poseidon_chip);
        let names = fixed_base_names::<S>(VK_NAME, self.nb_fixed, self.nb_perm);
        let assigned = self
            .accs
            .iter()
            .map(|acc| AssignedAccumulator::<S>::assign(&mut layouter, &curve_chip, &native_gadget, 1, 1, &[], &names, acc.clone()))
            .collect::<Result<Vec<_>, Error>>()?;
        let acc = AssignedAccumulator::<S>::accumulate(&mut layouter, &verifier_chip, &native_gadget, &poseidon_chip, &assigned)?;
        verifier_chip.constrain_as_public_input(&mut layouter, &acc)?;
        core_decomp_chip.load(&mut layouter)
    }
}

fn seeded_acc(rng: &mut impl rand_core::RngCore, nb_fixed: usize, nb_perm: usize, distinct: bool) -> Accumulator<S> {
    let mut i = 0u64;
    let fixed: BTreeMap<String, F> = fixed_base_names::<S>(VK_NAME, nb_fixed, nb_perm)
        .into_iter()
        .map(|name| {
            i += 1;
            (name, if distinct { F::random(&mut *rng) } else { F::from(7) })
        })
        .collect();
    Accumulator::new(
        Msm::new(&[C::random(&mut *rng)], &[F::random(&mut *rng)], &BTreeMap::new()),
        Msm::new(&[C::random(&mut *rng)], &[F::random(&mut *rng)], &fixed),
    )
}

/// (nb_fixed, nb_perm, n accumulators, distinct fixed-base scalars)
pub fn eval(nb_fixed: usize, nb_perm: usize, n: usize, distinct: bool, seed: u64, all_positions: bool) -> CaseOut {
    let mut out = CaseOut::batch();
    let detail = json!({"nb_fixed_commitments": nb_fixed, "nb_perm_commitments": nb_perm, "accumulators": n, "distinct_fixed_scalars": distinct});
    let mut rng = vcore::rng_for(seed, &format!("c20-wacc-{nb_fixed}-{nb_perm}-{n}"));
    let accs: Vec<Accumulator<S>> = (0..n).map(|_| seeded_acc(&mut rng, nb_fixed, nb_perm, distinct)).collect();
    let expected = Accumulator::<S>::accumulate(&accs);
    let pi = AssignedAccumulator::<S>::as_public_input(&expected);
    let circuit = WaccCircuit { nb_fixed, nb_perm, accs: accs.iter().cloned().map(Value::known).collect() };
    let run = catch(|| MockProver::run(17, &circuit, vec![vec![], pi.clone()]));
    let mut prover = match run {
        Err(p) => {
            out.eval("wacc:panic", true);
            out.viol(Viol::new(format!("witnessed-accumulators:panic:{}", vcore::panic_site(&p)), p, detail));
            return out;
        }
        Ok(Err(e)) => {
            out.eval("wacc:synth-err", true);
            out.viol(Viol::new("witnessed-accumulators:synthesis-error", format!("{e:?}"), detail));
            return out;
        }
        Ok(Ok(p)) => p,
    };
    let ok = catch(|| prover.verify().is_ok()).unwrap_or(false);
    out.eval(if ok { "wacc:off-circuit-accumulator:accepted" } else { "wacc:off-circuit-accumulator:REJECTED" }, true);
    if !ok {
        out.viol(Viol::new(
            "witnessed-accumulators:off-circuit-accumulation-rejected",
            format!("in-circuit accumulation of {n} witnessed accumulators ({nb_fixed} fixed + {nb_perm} permutation commitments) does not accept the off-circuit Accumulator::accumulate of the same values"),
            detail.clone(),
        ));
        return out;
    }
    // binding: a single-position edit of the exposed accumulator must be rejected (quick: first,
    // middle, last - one verification of this circuit takes seconds)
    // (thorough: ten positions spread over the vector, the first and the last among them)
    let positions: Vec<usize> = if all_positions {
        let n = pi.len();
        let mut v: Vec<usize> = (0..10).map(|i| i * (n - 1) / 9).collect();
        v.dedup();
        v
    } else {
        vec![0, pi.len() / 2, pi.len() - 1]
    };
    for pos in positions {
        let old = pi[pos];
        prover.instance_mut()[1][pos] = InstanceValue::Assigned(old + F::ONE);
        let acc = catch(|| prover.verify().is_ok()).unwrap_or(false);
        prover.instance_mut()[1][pos] = InstanceValue::Assigned(old);
        out.eval(if acc { "wacc:edited-instance:ACCEPTED" } else { "wacc:edited-instance:rejected" }, true);
        if acc {
            out.viol(Viol::new(
                "witnessed-accumulators:other-accumulator-accepted",
                format!("the circuit is satisfied with position {pos} of the exposed accumulator changed"),
                json!({"case": detail, "position": pos}),
            ));
        }
    }
    out.sample = Some(json!({"case": detail, "exposed": pi.len()}));
    out
}
