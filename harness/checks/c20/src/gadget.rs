//! The verifier circuit of `circuits/src/verifier/verifier_gadget.rs::tests::TestCircuit`
//! (foreign-curve back-end, `BlstrsEmulation`), generalised to any number of committed / plain
//! instance columns of the inner circuit, plus the tools to read what it exposes.

use std::collections::BTreeMap;

use midnight_circuits::{
    ecc::{
        curves::CircuitCurve,
        foreign::{nb_foreign_ecc_chip_columns, ForeignEccChip, ForeignEccConfig},
    },
    field::{
        decomposition::{
            chip::{P2RDecompositionChip, P2RDecompositionConfig},
            pow2range::Pow2RangeChip,
        },
        foreign::FieldChip,
        native::NB_ARITH_COLS,
        NativeChip, NativeConfig, NativeGadget,
    },
    hash::poseidon::{PoseidonChip, PoseidonConfig, PoseidonState, NB_POSEIDON_ADVICE_COLS, NB_POSEIDON_FIXED_COLS},
    instructions::{AssignmentInstructions, PublicInputInstructions},
    types::{AssignedNative, ComposableChip, Instantiable},
    verifier::{self, Accumulator, AssignedAccumulator, AssignedVk, BlstrsEmulation, SelfEmulation, VerifierGadget},
};
use midnight_curves::{Bls12, G1Projective};
use midnight_proofs::{
    circuit::{Layouter, SimpleFloorPlanner, Value},
    dev::{CellValue, MockProver},
    plonk::{prepare, Any, Circuit, ConstraintSystem, Error, VerifyingKey},
    poly::{kzg::KZGCommitmentScheme, EvaluationDomain},
    transcript::{CircuitTranscript, Transcript},
};
use rayon::iter::ParallelIterator;

pub type S = BlstrsEmulation;
pub type F = <S as SelfEmulation>::F;
pub type C = <S as SelfEmulation>::C;
pub type CBase = <C as CircuitCurve>::Base;
pub type NG = NativeGadget<F, P2RDecompositionChip<F>, NativeChip<F>>;
pub type Kzg = KZGCommitmentScheme<Bls12>;
pub type Vk = VerifyingKey<F, Kzg>;
pub type PT = CircuitTranscript<PoseidonState<F>>;

pub const VK_NAME: &str = "inner_vk";

#[derive(Clone, Debug)]
pub struct VerifierCircuit {
    pub inner_vk: (EvaluationDomain<F>, ConstraintSystem<F>, Value<F>),
    pub committed: Vec<Value<C>>,
    pub plain: Vec<Vec<Value<F>>>,
    pub proof: Value<Vec<u8>>,
    pub collapse: bool,
}

impl VerifierCircuit {
    pub fn new(vk: &Vk, committed: &[G1Projective], plain: &[Vec<F>], proof: &[u8], collapse: bool) -> Self {
        VerifierCircuit {
            inner_vk: (vk.get_domain().clone(), vk.cs().clone(), Value::known(vk.transcript_repr())),
            committed: committed.iter().map(|c| Value::known(*c)).collect(),
            plain: plain.iter().map(|col| col.iter().map(|x| Value::known(*x)).collect()).collect(),
            proof: Value::known(proof.to_vec()),
            collapse,
        }
    }
}

impl Circuit<F> for VerifierCircuit {
    type Config = (NativeConfig, P2RDecompositionConfig, ForeignEccConfig<C>, PoseidonConfig<F>);
    type FloorPlanner = SimpleFloorPlanner;
    type Params = ();

    fn without_witnesses(&self) -> Self {
        unreachable!()
    }

    fn configure(meta: &mut ConstraintSystem<F>) -> Self::Config {
        let nb_advice_cols = nb_foreign_ecc_chip_columns::<F, C, C, NG>();
        let nb_fixed_cols = NB_ARITH_COLS + 4;
        let advice_columns: Vec<_> = (0..nb_advice_cols).map(|_| meta.advice_column()).collect();
        let fixed_columns: Vec<_> = (0..nb_fixed_cols).map(|_| meta.fixed_column()).collect();
        let committed_instance_column = meta.instance_column();
        let instance_column = meta.instance_column();
        let native_config = NativeChip::configure(
            meta,
            &(
                advice_columns[..NB_ARITH_COLS].try_into().unwrap(),
                fixed_columns[..NB_ARITH_COLS + 4].try_into().unwrap(),
                [committed_instance_column, instance_column],
            ),
        );
        let core_decomp_config = {
            let pow2_config = Pow2RangeChip::configure(meta, &advice_columns[1..NB_ARITH_COLS]);
            P2RDecompositionChip::configure(meta, &(native_config.clone(), pow2_config))
        };
        let base_config = FieldChip::<F, CBase, C, NG>::configure(meta, &advice_columns);
        let curve_config = ForeignEccChip::<F, C, C, NG, NG>::configure(meta, &base_config, &advice_columns);
        let poseidon_config = PoseidonChip::configure(
            meta,
            &(
                advice_columns[..NB_POSEIDON_ADVICE_COLS].try_into().unwrap(),
                fixed_columns[..NB_POSEIDON_FIXED_COLS].try_into().unwrap(),
            ),
        );
        (native_config, core_decomp_config, curve_config, poseidon_config)
    }

    fn synthesize(&self, config: Self::Config, mut layouter: impl Layouter<F>) -> Result<(), Error> {
        let native_chip = <NativeChip<F> as ComposableChip<F>>::new(&config.0, &());
        let core_decomp_chip = P2RDecompositionChip::new(&config.1, &16);
        let native_gadget = NativeGadget::new(core_decomp_chip.clone(), native_chip.clone());
        let curve_chip = ForeignEccChip::new(&config.2, &native_gadget, &native_gadget);
        let poseidon_chip = PoseidonChip::new(&config.3, &native_chip);
        let verifier_chip = VerifierGadget::<S>::new(&curve_chip, &native_gadget, &poseidon_chip);

        let assigned_inner_vk: AssignedVk<S> =
            verifier_chip.assign_vk_as_public_input(&mut layouter, VK_NAME, &self.inner_vk.0, &self.inner_vk.1, self.inner_vk.2)?;

        let assigned_committed =
            self.committed.iter().map(|c| curve_chip.assign(&mut layouter, *c)).collect::<Result<Vec<_>, Error>>()?;
        let assigned_plain: Vec<Vec<AssignedNative<F>>> =
            self.plain.iter().map(|col| native_gadget.assign_many(&mut layouter, col)).collect::<Result<Vec<_>, Error>>()?;
        let plain_refs: Vec<&[AssignedNative<F>]> = assigned_plain.iter().map(|c| c.as_slice()).collect();

        let mut acc = verifier_chip.prepare(&mut layouter, &assigned_inner_vk, &assigned_committed, &plain_refs, self.proof.clone())?;
        if self.collapse {
            acc.collapse(&mut layouter, &curve_chip, &native_gadget)?;
        }
        verifier_chip.constrain_as_public_input(&mut layouter, &acc)?;
        core_decomp_chip.load(&mut layouter)
    }
}

/// The values of the cells that the synthesised circuit ties to rows `0..` of the plain instance
/// column (instance column 1), read through the copy-constraint cycles of the MockProver: row r is
/// `Some(v)` when some assigned advice/fixed cell is in the cycle of instance cell (1, r).
pub fn exposed(prover: &MockProver<F>, max_rows: usize) -> Vec<Option<F>> {
    let asm = prover.permutation();
    let cols = asm.columns();
    let Some(ipos) = cols.iter().position(|c| *c.column_type() == Any::Instance && c.index() == 1) else {
        return vec![];
    };
    let mapping: Vec<Vec<(usize, usize)>> = asm.mapping().map(|c| c.collect::<Vec<_>>()).collect();
    let mut out = vec![];
    for r in 0..max_rows {
        let start = (ipos, r);
        let mut cur = mapping[ipos][r];
        let mut val = None;
        let mut steps = 0;
        while cur != start && steps < 64 {
            let col = cols[cur.0];
            let cell = match col.column_type() {
                Any::Advice(_) => Some(prover.advice()[col.index()][cur.1]),
                Any::Fixed => Some(prover.fixed()[col.index()][cur.1]),
                Any::Instance => None,
            };
            if let Some(CellValue::Assigned(v)) = cell {
                val = Some(v);
                break;
            }
            cur = mapping[cur.0][cur.1];
            steps += 1;
        }
        if val.is_none() && cur == start && steps == 0 {
            // instance cell in a 1-cycle: nothing exposed at this row — end of the public inputs
            break;
        }
        out.push(val);
    }
    out
}

pub struct OffCircuit {
    /// `AssignedVk::as_public_input(vk) ++ AssignedAccumulator::as_public_input(acc)` (acc collapsed if asked)
    pub encoded: Vec<F>,
    pub encoded_collapsed: Vec<F>,
    /// `Accumulator::check` with the SRS secret known to the harness
    pub check: bool,
    pub guard_check: bool,
    /// the proof had bytes left after `prepare`
    pub trailing: bool,
}

/// The off-circuit reference: `prepare` with the Poseidon transcript, `Accumulator::from_dual_msm`.
pub fn off_circuit(
    vk: &Vk,
    committed: &[G1Projective],
    plain: &[Vec<F>],
    proof: &[u8],
    fixed: &BTreeMap<String, C>,
    tau_g2: &midnight_curves::G2Affine,
    vparams: &midnight_proofs::poly::kzg::params::ParamsVerifierKZG<Bls12>,
) -> Result<OffCircuit, String> {
    let plain_refs: Vec<&[F]> = plain.iter().map(|c| c.as_slice()).collect();
    let mut t = PT::init_from_bytes(proof);
    let dual = prepare::<F, Kzg, PT>(vk, &[committed], &[&plain_refs], &mut t).map_err(|e| format!("{e:?}"))?;
    let trailing = t.assert_empty().is_err();
    let guard_check = dual.clone().check(vparams);
    let acc = Accumulator::<S>::from_dual_msm(dual, VK_NAME, fixed);
    let check = acc.check(tau_g2, fixed);
    let mut encoded = AssignedVk::<S>::as_public_input(vk);
    encoded.extend(AssignedAccumulator::<S>::as_public_input(&acc));
    let mut c = acc.clone();
    c.collapse();
    let mut encoded_collapsed = AssignedVk::<S>::as_public_input(vk);
    encoded_collapsed.extend(AssignedAccumulator::<S>::as_public_input(&c));
    Ok(OffCircuit { encoded, encoded_collapsed, check, guard_check, trailing })
}

pub fn fixed_bases(vk: &Vk) -> BTreeMap<String, C> {
    verifier::fixed_bases::<S>(VK_NAME, vk)
}
