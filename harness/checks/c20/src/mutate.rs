//! Byte-level mutations of transcript elements (compressed G1 = 48 bytes, scalar = 32 bytes LE).

use ff::{Field, PrimeField};
use group::{Curve, Group, GroupEncoding};
use midnight_curves::{Fq as F, G1Affine, G1Projective};

pub fn g1_from(bytes: &[u8]) -> Option<G1Projective> {
    if bytes.len() != 48 {
        return None;
    }
    let mut repr = <G1Affine as GroupEncoding>::Repr::default();
    repr.as_mut().copy_from_slice(bytes);
    Option::<G1Affine>::from(G1Affine::from_bytes(&repr)).map(G1Projective::from)
}

pub fn g1_bytes(p: &G1Projective) -> Vec<u8> {
    p.to_affine().to_bytes().as_ref().to_vec()
}

pub fn scalar_from(bytes: &[u8]) -> Option<F> {
    if bytes.len() != 32 {
        return None;
    }
    let mut repr = <F as PrimeField>::Repr::default();
    repr.as_mut().copy_from_slice(bytes);
    Option::<F>::from(F::from_repr(repr))
}

pub fn scalar_bytes(s: &F) -> Vec<u8> {
    s.to_repr().as_ref().to_vec()
}

fn compressed_small_x(x: u8) -> [u8; 48] {
    let mut b = [0u8; 48];
    b[0] = 0x80;
    b[47] = x;
    b
}

/// (class, bytes) of encodings that `read` must refuse.
pub fn invalid_points() -> Vec<(&'static str, Vec<u8>)> {
    let mut out = vec![];
    let repr_of = |b: &[u8; 48]| {
        let mut r = <G1Affine as GroupEncoding>::Repr::default();
        r.as_mut().copy_from_slice(b);
        r
    };
    if let Some(b) = (1u8..=255).map(compressed_small_x).find(|b| bool::from(G1Affine::from_bytes_unchecked(&repr_of(b)).is_none())) {
        out.push(("point-off-curve", b.to_vec()));
    }
    if let Some(b) = (1u8..=255)
        .map(compressed_small_x)
        .find(|b| bool::from(G1Affine::from_bytes_unchecked(&repr_of(b)).is_some()) && bool::from(G1Affine::from_bytes(&repr_of(b)).is_none()))
    {
        out.push(("point-not-in-subgroup", b.to_vec()));
    }
    out.push(("point-all-ff", vec![0xff; 48]));
    out
}

pub fn identity_bytes() -> Vec<u8> {
    g1_bytes(&G1Projective::identity())
}

/// Valid-encoding replacements of one element: (class, new bytes); never equal to `cur`.
pub fn variants(cur: &[u8], ty: char, rich: bool, rnd: F) -> Vec<(&'static str, Vec<u8>)> {
    let mut v: Vec<(&'static str, Vec<u8>)> = vec![];
    match ty {
        'G' => {
            if let Some(p) = g1_from(cur) {
                v.push(("group+G", g1_bytes(&(p + G1Projective::generator()))));
                if rich {
                    v.push(("group-neg", g1_bytes(&-p)));
                    v.push(("group-identity", identity_bytes()));
                    v.push(("group-double", g1_bytes(&p.double())));
                }
            }
        }
        'S' => {
            if let Some(s) = scalar_from(cur) {
                v.push(("scalar+1", scalar_bytes(&(s + F::ONE))));
                if rich {
                    v.push(("scalar-random", scalar_bytes(&rnd)));
                    v.push(("scalar-zero", scalar_bytes(&F::ZERO)));
                }
            }
        }
        _ => {}
    }
    v.retain(|(_, b)| b != cur);
    v
}

pub fn replace(proof: &[u8], off: usize, bytes: &[u8]) -> Vec<u8> {
    let mut p = proof.to_vec();
    p[off..off + bytes.len()].copy_from_slice(bytes);
    p
}
