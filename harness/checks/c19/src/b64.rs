//! Base64 reference (RFC 4648, canonical encodings only) and the fixed-length op case that goes
//! through `ZkStdLib::base64()`.

use midnight_circuits::{
    instructions::{AssignmentInstructions, Base64Instructions},
    types::AssignedByte,
};
use midnight_proofs::{
    circuit::{Layouter, Value},
    plonk::Error,
};
use midnight_zk_stdlib::{ZkStdLib, ZkStdLibArch};
use vgad::{Exposer, Judgement, OpCase, F};

const STD: &[u8; 64] = b"ABCDEFGHIJKLMNOPQRSTUVWXYZabcdefghijklmnopqrstuvwxyz0123456789+/";
const URL: &[u8; 64] = b"ABCDEFGHIJKLMNOPQRSTUVWXYZabcdefghijklmnopqrstuvwxyz0123456789-_";

pub fn alphabet(url: bool) -> &'static [u8; 64] {
    if url {
        URL
    } else {
        STD
    }
}

fn val(c: u8, url: bool) -> Option<u8> {
    alphabet(url).iter().position(|x| *x == c).map(|p| p as u8)
}

/// Explicit well-formedness rules. `Ok(bytes)` = the standard decoding; `Err(class)` = malformed
/// (or, for `precondition:*`, outside the documented domain of the instruction).
///
/// padded = true : RFC 4648 §4 with mandatory padding: length multiple of 4, `=` only as the last
///                 one or two characters, unused trailing bits zero (canonical, §3.5).
/// padded = false: no `=` at all, length mod 4 != 1, unused trailing bits zero.
pub fn ref_decode(input: &[u8], url: bool, padded: bool) -> Result<Vec<u8>, &'static str> {
    let n = input.len();
    let mut pads = 0;
    if padded {
        if n % 4 != 0 {
            return Err("precondition:length-not-multiple-of-4");
        }
        if n > 0 && input[n - 1] == b'=' {
            pads = if input[n - 2] == b'=' { 2 } else { 1 };
        }
    }
    let body = &input[..n - pads];
    if body.contains(&b'=') {
        return Err(if padded { "misplaced-padding" } else { "padding-in-unpadded-mode" });
    }
    let mut vals = vec![];
    for c in body {
        match val(*c, url) {
            Some(v) => vals.push(v),
            None => return Err(if val(*c, !url).is_some() { "other-alphabet-char" } else { "non-alphabet-char" }),
        }
    }
    match vals.len() % 4 {
        1 => return Err("impossible-length"),
        2 if vals[vals.len() - 1] & 0x0f != 0 => return Err("noncanonical-trailing-bits"),
        3 if vals[vals.len() - 1] & 0x03 != 0 => return Err("noncanonical-trailing-bits"),
        _ => {}
    }
    let mut out = vec![];
    for ch in vals.chunks(4) {
        let mut acc: u32 = 0;
        for (i, v) in ch.iter().enumerate() {
            acc |= (*v as u32) << (18 - 6 * i);
        }
        let nb = match ch.len() {
            4 => 3,
            3 => 2,
            _ => 1,
        };
        for i in 0..nb {
            out.push((acc >> (16 - 8 * i)) as u8);
        }
    }
    Ok(out)
}

/// What the instruction must output: the decoding completed with zero bytes up to 3/4 of the
/// padded input length (doc of `Base64Instructions::decode_base64`).
pub fn expected_output(decoded: &[u8], input_len: usize) -> Vec<u8> {
    let mut v = decoded.to_vec();
    v.resize(input_len.div_ceil(4) * 3, 0);
    v
}

/// Canonical encoding with the `base64` crate.
pub fn encode(payload: &[u8], url: bool, pad: bool) -> Vec<u8> {
    let cfg = match (url, pad) {
        (false, true) => base64::STANDARD,
        (false, false) => base64::STANDARD_NO_PAD,
        (true, true) => base64::URL_SAFE,
        (true, false) => base64::URL_SAFE_NO_PAD,
    };
    base64::encode_config(payload, cfg).into_bytes()
}

/// The `base64` crate's verdict (strict: no trailing bits; padding must match the mode).
pub fn crate_decode(input: &[u8], url: bool) -> Option<Vec<u8>> {
    let cfg = if url { base64::URL_SAFE } else { base64::STANDARD };
    base64::decode_config(input, cfg).ok()
}

#[derive(Clone, Debug)]
pub struct B64Case {
    pub url: bool,
    pub padded: bool,
    pub input: Vec<u8>,
}

impl B64Case {
    pub fn class(&self) -> &'static str {
        match ref_decode(&self.input, self.url, self.padded) {
            Ok(_) => "well-formed",
            Err(c) => c,
        }
    }
    pub fn instr(&self) -> String {
        format!("decode_base64{}:{}", if self.url { "url" } else { "" }, if self.padded { "padded" } else { "unpadded" })
    }
}

impl OpCase for B64Case {
    fn key(&self) -> String {
        format!("{}:{}", self.instr(), vcore::hex(&self.input))
    }
    fn op(&self) -> String {
        // the instruction variant (standard / url-safe, padded / unpadded) is part of the case, not of the key:
        // the variants share the decoding core
        format!("base64:{}", self.class())
    }
    fn arch(&self) -> ZkStdLibArch {
        ZkStdLibArch { base64: true, ..ZkStdLibArch::default() }
    }
    fn expect_sat(&self) -> bool {
        ref_decode(&self.input, self.url, self.padded).is_ok()
    }
    fn judge(&self, ins: &[Vec<F>], outs: &[Vec<F>]) -> Judgement {
        let byte = |v: &Vec<F>| -> Option<u8> {
            if v.len() != 1 {
                return None;
            }
            vgad::val::as_u8(&v[0])
        };
        let mut input = vec![];
        for v in ins {
            match byte(v) {
                Some(b) => input.push(b),
                None => return Judgement::Wrong("an exposed input is not a byte".into()),
            }
        }
        let dec = match ref_decode(&input, self.url, self.padded) {
            Ok(d) => d,
            Err(c) => return Judgement::Wrong(format!("malformed input ({c}) is decoded")),
        };
        let exp = expected_output(&dec, input.len());
        if outs.len() != exp.len() {
            return Judgement::Wrong(format!("{} output bytes, expected {}", outs.len(), exp.len()));
        }
        for (i, (o, e)) in outs.iter().zip(&exp).enumerate() {
            if byte(o) != Some(*e) {
                return Judgement::Wrong(format!("output byte {i} is {:?}, the standard decoding gives {e}", byte(o)));
            }
        }
        Judgement::Holds
    }
    fn synth<L: Layouter<F>>(&self, std: &ZkStdLib, l: &mut L, ex: &Exposer) -> Result<(), Error> {
        let vals: Vec<Value<u8>> = self.input.iter().map(|b| Value::known(*b)).collect();
        let input: Vec<AssignedByte<F>> = std.assign_many(l, &vals)?;
        for b in &input {
            ex.input(std, l, b)?;
        }
        let out = if self.url { std.base64().decode_base64url(l, &input, self.padded)? } else { std.base64().decode_base64(l, &input, self.padded)? };
        for b in &out {
            ex.output(std, l, b)?;
        }
        Ok(())
    }
}

/// Payload of `p` bytes for a content kind.
pub fn payload(kind: usize, p: usize, seed: u64) -> Vec<u8> {
    match kind {
        0 => vec![0x00; p],
        1 => vec![0xff; p],
        2 => (0..p).map(|i| (i * 37 + 11) as u8).collect(),
        _ => {
            use rand_core::RngCore;
            let mut rng = vcore::rng_for(seed, &format!("c19-b64-{p}"));
            let mut v = vec![0u8; p];
            rng.fill_bytes(&mut v);
            v
        }
    }
}

