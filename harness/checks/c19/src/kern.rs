//! Reference semantics.
//!
//! 1. `RefExpr::kernel()` rewrites an expression into a small kernel (letters, epsilon, empty,
//!    cat, union, inter, neg, star) following the doc comments of `RegexInstructions`:
//!      * the derived combinators are expanded by their documented definitions;
//!      * `mark` / `mark_bytes` / `replace_markers` "overwrite the markers of the bytes of self":
//!        they are applied to every letter occurring in the expression (they commute with cat,
//!        union and iteration; for `inter` the operands are marked before they are intersected).
//!    An expression whose kernel has a marked letter under a complement is outside the library's
//!    contract ("markers are not allowed under complement/negation").
//! 2. The language of a kernel term is a set of *marked words*; Brzozowski derivatives over marked
//!    letters (byte class, marker), normalised modulo ACI of union, give a finite automaton.
//!      * inter: two marked words over the same bytes are joined position-wise; markers m1, m2 are
//!        compatible iff m1 == m2 or one of them is 0, the join carries max(m1, m2);
//!      * neg(r): every unmarked word that is not in r.
//! 3. `denote` is a second, direct (set-based, bounded-length) semantics used to self-check 2.

use std::collections::{BTreeSet, HashMap};

use crate::refx::{Marker, RefExpr, BLANKS};

// ---------------------------------------------------------------------------------------------
// kernel terms
// ---------------------------------------------------------------------------------------------

#[derive(Clone, Debug, PartialEq, Eq, Hash, PartialOrd, Ord)]
pub enum K {
    /// one letter out of the set
    Letters(Vec<(u8, Marker)>),
    Eps,
    Empty,
    Cat(Vec<K>),
    Union(Vec<K>),
    /// folded from the universal language of unmarked words
    Inter(Vec<K>),
    Neg(Box<K>),
    Star(Box<K>),
}

#[derive(Clone, Debug)]
enum Step {
    Bytes(Vec<u8>, Marker),
    Table(Vec<(u8, Marker)>),
    Replace(Vec<(Marker, Marker)>),
}

/// Applies the pending relabelling steps (innermost first) to the letter (b, m).
fn apply(steps: &[Step], b: u8, mut m: Marker) -> Marker {
    for s in steps {
        m = match s {
            Step::Bytes(v, k) => {
                if v.contains(&b) {
                    *k
                } else {
                    m
                }
            }
            Step::Table(t) => t.iter().find(|(x, _)| *x == b).map(|(_, k)| *k).unwrap_or(m),
            Step::Replace(t) => t.iter().find(|(x, _)| *x == m).map(|(_, k)| *k).unwrap_or(m),
        };
    }
    m
}

fn letters(steps: &[Step], f: impl Fn(u8) -> bool) -> K {
    K::Letters((0..=255u8).filter(|b| f(*b)).map(|b| (b, apply(steps, b, 0))).collect())
}

fn plus(r: K) -> K {
    K::Cat(vec![r.clone(), K::Star(Box::new(r))])
}
fn pow(r: &K, n: usize) -> K {
    K::Cat(vec![r.clone(); n])
}
fn sep_ne(r: K, s: K) -> K {
    K::Cat(vec![r.clone(), K::Star(Box::new(K::Cat(vec![s, r])))])
}
fn sep_cat(l: Vec<K>, s: &K) -> K {
    let mut parts = vec![];
    for (i, x) in l.into_iter().enumerate() {
        if i > 0 {
            parts.push(s.clone());
        }
        parts.push(x);
    }
    K::Cat(parts)
}
fn opt(r: K) -> K {
    K::Union(vec![K::Eps, r])
}

impl RefExpr {
    pub fn kernel(&self) -> K {
        self.k(&[])
    }

    fn k(&self, st: &[Step]) -> K {
        use RefExpr::*;
        let blanks = || K::Star(Box::new(letters(st, |b| BLANKS.contains(&b))));
        let spaced_sep = |s: K| K::Cat(vec![blanks(), s, blanks()]);
        let ks = |l: &Vec<RefExpr>| l.iter().map(|x| x.k(st)).collect::<Vec<_>>();
        let with = |step: Step| -> Vec<Step> {
            let mut v = vec![step];
            v.extend(st.iter().cloned());
            v
        };
        match self {
            Bytes(v) => letters(st, |b| v.contains(&b)),
            NotBytes(v) => letters(st, |b| !v.contains(&b)),
            AnyByte => letters(st, |_| true),
            Digit => letters(st, |b| b.is_ascii_digit()),
            OneBlank => letters(st, |b| BLANKS.contains(&b)),
            Blanks => blanks(),
            BlanksStrict => plus(letters(st, |b| BLANKS.contains(&b))),
            Eps => K::Eps,
            Empty => K::Empty,
            // "equivalent to any_byte().list()"
            Any => K::Star(Box::new(letters(st, |_| true))),
            Word(w) => K::Cat(w.iter().map(|x| letters(st, |b| b == *x)).collect()),
            Utf8Cps | Utf8 | JsonString => crate::refx::desugar(self).k(st),
            Cat(l) => K::Cat(ks(l)),
            Union(l) => K::Union(ks(l)),
            Inter(l) => K::Inter(ks(l)),
            Neg(r) => K::Neg(Box::new(r.k(st))),
            Minus(r, s) => K::Inter(vec![r.k(st), K::Neg(Box::new(s.k(st)))]),
            Star(r) => K::Star(Box::new(r.k(st))),
            Plus(r) => plus(r.k(st)),
            Opt(r) => opt(r.k(st)),
            Repeat(r, n) => pow(&r.k(st), *n),
            AtMost(r, n) => {
                let x = r.k(st);
                K::Union((0..=*n).map(|i| pow(&x, i)).collect())
            }
            SepNeList(r, s) => sep_ne(r.k(st), s.k(st)),
            SepList(r, s) => opt(sep_ne(r.k(st), s.k(st))),
            SepCat(l, s) => sep_cat(ks(l), &s.k(st)),
            SepRepeat(r, n, s) => sep_cat(vec![r.k(st); *n], &s.k(st)),
            SepAtMost(r, n, s) => {
                let (x, y) = (r.k(st), s.k(st));
                K::Union((0..=*n).map(|i| sep_cat(vec![x.clone(); i], &y)).collect())
            }
            Delimited(r, o, c) => K::Cat(vec![o.k(st), r.k(st), c.k(st)]),
            MarkBytes(r, bytes, m) => r.k(&with(Step::Bytes(bytes.clone(), *m))),
            MarkFn(r, t) => r.k(&with(Step::Table(t.clone()))),
            ReplaceMarkers(r, t) => r.k(&with(Step::Replace(t.clone()))),
            SpacedCat(l) => sep_cat(ks(l), &blanks()),
            SpacedNeList(r) => sep_ne(r.k(st), blanks()),
            SpacedList(r) => opt(sep_ne(r.k(st), blanks())),
            SpacedTerminated(r, s) => K::Cat(vec![r.k(st), blanks(), s.k(st)]),
            SpacedDelimited(r, o, c) => K::Cat(vec![o.k(st), blanks(), r.k(st), blanks(), c.k(st)]),
            SpacedSepNeList(r, s) => sep_ne(r.k(st), spaced_sep(s.k(st))),
            SpacedSepList(r, s) => opt(sep_ne(r.k(st), spaced_sep(s.k(st)))),
            SpacedSepCat(l, s) => sep_cat(ks(l), &spaced_sep(s.k(st))),
            SpacedRepeat(r, n) => sep_cat(vec![r.k(st); *n], &blanks()),
            SpacedAtMost(r, n) => {
                let x = r.k(st);
                K::Union((0..=*n).map(|i| sep_cat(vec![x.clone(); i], &blanks())).collect())
            }
            SpacedSepRepeat(r, n, s) => sep_cat(vec![r.k(st); *n], &spaced_sep(s.k(st))),
            SpacedSepAtMost(r, n, s) => {
                let (x, y) = (r.k(st), spaced_sep(s.k(st)));
                K::Union((0..=*n).map(|i| sep_cat(vec![x.clone(); i], &y)).collect())
            }
        }
    }

    /// Inside the library's contract: no marked letter under a complement.
    pub fn well_formed(&self) -> bool {
        self.kernel().well_formed()
    }

    /// A `mark` / `mark_bytes` / `replace_markers` is applied on top of a `neg` / `minus`.
    pub fn mark_over_complement(&self) -> bool {
        use RefExpr::*;
        fn has_compl(e: &RefExpr) -> bool {
            matches!(e, RefExpr::Neg(_) | RefExpr::Minus(..)) || e.children().iter().any(|c| has_compl(c))
        }
        (matches!(self, MarkBytes(..) | MarkFn(..) | ReplaceMarkers(..)) && has_compl(self)) || self.children().iter().any(|c| c.mark_over_complement())
    }
}

impl K {
    fn children(&self) -> Vec<&K> {
        match self {
            K::Letters(_) | K::Eps | K::Empty => vec![],
            K::Cat(l) | K::Union(l) | K::Inter(l) => l.iter().collect(),
            K::Neg(r) | K::Star(r) => vec![r],
        }
    }
    pub fn has_markers(&self) -> bool {
        match self {
            K::Letters(v) => v.iter().any(|(_, m)| *m != 0),
            _ => self.children().iter().any(|c| c.has_markers()),
        }
    }
    pub fn well_formed(&self) -> bool {
        let here = match self {
            K::Neg(r) => !r.has_markers(),
            _ => true,
        };
        here && self.children().iter().all(|c| c.well_formed())
    }
    fn byte_sets(&self, out: &mut BTreeSet<Vec<u8>>) {
        if let K::Letters(v) = self {
            let ms: BTreeSet<Marker> = v.iter().map(|x| x.1).collect();
            for m in ms {
                out.insert(v.iter().filter(|x| x.1 == m).map(|x| x.0).collect());
            }
        }
        for c in self.children() {
            c.byte_sets(out);
        }
    }
    fn markers(&self, out: &mut BTreeSet<Marker>) {
        if let K::Letters(v) = self {
            out.extend(v.iter().map(|x| x.1));
        }
        for c in self.children() {
            c.markers(out);
        }
    }
}

// ---------------------------------------------------------------------------------------------
// byte classes
// ---------------------------------------------------------------------------------------------

#[derive(Clone, Debug)]
pub struct Classes {
    pub of_byte: [u8; 256],
    /// smallest byte of each class
    pub rep: Vec<u8>,
}

impl Classes {
    /// The coarsest partition of the 256 bytes such that every letter set of the term is a union
    /// of classes (per marker).
    pub fn of(k: &K) -> Classes {
        let mut sets = BTreeSet::new();
        k.byte_sets(&mut sets);
        let sets: Vec<[bool; 256]> = sets
            .into_iter()
            .map(|v| {
                let mut s = [false; 256];
                for b in v {
                    s[b as usize] = true;
                }
                s
            })
            .collect();
        let mut sig_to_class: HashMap<Vec<bool>, u8> = HashMap::new();
        let mut of_byte = [0u8; 256];
        let mut rep = vec![];
        for b in 0..256usize {
            let sig: Vec<bool> = sets.iter().map(|s| s[b]).collect();
            let n = sig_to_class.len();
            assert!(n < 255, "too many byte classes");
            let c = *sig_to_class.entry(sig).or_insert_with(|| {
                rep.push(b as u8);
                n as u8
            });
            of_byte[b] = c;
        }
        Classes { of_byte, rep }
    }
    pub fn n(&self) -> usize {
        self.rep.len()
    }
}

// ---------------------------------------------------------------------------------------------
// derivative engine (hash-consed terms)
// ---------------------------------------------------------------------------------------------

type Id = u32;
/// (class, marker)
type Letter = (u8, Marker);

#[derive(Clone, Debug, PartialEq, Eq, Hash)]
enum Node {
    Empty,
    Eps,
    /// one letter out of the set (sorted)
    Sym(Vec<Letter>),
    Cat(Id, Id),
    /// sorted, deduplicated, no nested Alt, no Empty, len >= 2
    Alt(Vec<Id>),
    /// marker-unifying intersection; operands ordered (commutative, associative, not idempotent)
    And(Id, Id),
    /// complement within the unmarked words
    Not(Id),
    Star(Id),
}

const EMPTY: Id = 0;
const EPS: Id = 1;

pub struct Engine {
    nodes: Vec<Node>,
    index: HashMap<Node, Id>,
    nullable: Vec<Option<bool>>,
    deriv: HashMap<(Id, Letter), Id>,
    pub classes: Classes,
    pub markers: Vec<Marker>,
}

impl Engine {
    pub fn new(k: &K) -> Engine {
        let mut ms = BTreeSet::new();
        ms.insert(0);
        k.markers(&mut ms);
        let mut g = Engine {
            nodes: vec![],
            index: HashMap::new(),
            nullable: vec![],
            deriv: HashMap::new(),
            classes: Classes::of(k),
            markers: ms.into_iter().collect(),
        };
        assert_eq!(g.intern(Node::Empty), EMPTY);
        assert_eq!(g.intern(Node::Eps), EPS);
        g
    }

    fn intern(&mut self, n: Node) -> Id {
        if let Some(i) = self.index.get(&n) {
            return *i;
        }
        let i = self.nodes.len() as Id;
        self.nodes.push(n.clone());
        self.index.insert(n, i);
        self.nullable.push(None);
        i
    }

    fn cat(&mut self, a: Id, b: Id) -> Id {
        if a == EMPTY || b == EMPTY {
            return EMPTY;
        }
        if a == EPS {
            return b;
        }
        if b == EPS {
            return a;
        }
        if let Node::Cat(x, y) = self.nodes[a as usize].clone() {
            let t = self.cat(y, b);
            return self.cat(x, t);
        }
        self.intern(Node::Cat(a, b))
    }
    fn cat_all(&mut self, l: &[Id]) -> Id {
        let mut acc = EPS;
        for x in l.iter().rev() {
            acc = self.cat(*x, acc);
        }
        acc
    }
    fn alt(&mut self, l: &[Id]) -> Id {
        let mut s: BTreeSet<Id> = BTreeSet::new();
        for x in l {
            match &self.nodes[*x as usize] {
                Node::Empty => {}
                Node::Alt(v) => s.extend(v.iter().copied()),
                _ => {
                    s.insert(*x);
                }
            }
        }
        match s.len() {
            0 => EMPTY,
            1 => *s.iter().next().unwrap(),
            _ => self.intern(Node::Alt(s.into_iter().collect())),
        }
    }
    fn and(&mut self, a: Id, b: Id) -> Id {
        if a == EMPTY || b == EMPTY {
            return EMPTY;
        }
        if a == EPS {
            return if self.is_nullable(b) { EPS } else { EMPTY };
        }
        if b == EPS {
            return if self.is_nullable(a) { EPS } else { EMPTY };
        }
        let (a, b) = if a <= b { (a, b) } else { (b, a) };
        self.intern(Node::And(a, b))
    }
    fn not(&mut self, a: Id) -> Id {
        self.intern(Node::Not(a))
    }
    fn star(&mut self, a: Id) -> Id {
        if a == EMPTY || a == EPS {
            return EPS;
        }
        if let Node::Star(_) = self.nodes[a as usize] {
            return a;
        }
        self.intern(Node::Star(a))
    }
    fn universal(&mut self) -> Id {
        let v: Vec<Letter> = (0..self.classes.n() as u8).map(|c| (c, 0)).collect();
        let s = self.intern(Node::Sym(v));
        self.star(s)
    }

    pub fn compile(&mut self, k: &K) -> Id {
        match k {
            K::Letters(v) => {
                // a union of classes per marker (by construction of the classes)
                let mut ls: BTreeSet<Letter> = BTreeSet::new();
                for (b, m) in v {
                    ls.insert((self.classes.of_byte[*b as usize], *m));
                }
                if ls.is_empty() {
                    EMPTY
                } else {
                    self.intern(Node::Sym(ls.into_iter().collect()))
                }
            }
            K::Eps => EPS,
            K::Empty => EMPTY,
            K::Cat(l) => {
                let v: Vec<Id> = l.iter().map(|x| self.compile(x)).collect();
                self.cat_all(&v)
            }
            K::Union(l) => {
                let v: Vec<Id> = l.iter().map(|x| self.compile(x)).collect();
                self.alt(&v)
            }
            K::Inter(l) => {
                let mut acc = self.universal();
                for x in l {
                    let c = self.compile(x);
                    acc = self.and(acc, c);
                }
                acc
            }
            K::Neg(r) => {
                let c = self.compile(r);
                self.not(c)
            }
            K::Star(r) => {
                let c = self.compile(r);
                self.star(c)
            }
        }
    }

    pub fn is_nullable(&mut self, a: Id) -> bool {
        if let Some(b) = self.nullable[a as usize] {
            return b;
        }
        let r = match self.nodes[a as usize].clone() {
            Node::Empty | Node::Sym(_) => false,
            Node::Eps | Node::Star(_) => true,
            Node::Cat(x, y) => self.is_nullable(x) && self.is_nullable(y),
            Node::Alt(v) => v.iter().any(|x| self.is_nullable(*x)),
            Node::And(x, y) => self.is_nullable(x) && self.is_nullable(y),
            Node::Not(x) => !self.is_nullable(x),
        };
        self.nullable[a as usize] = Some(r);
        r
    }

    /// Brzozowski derivative with respect to the marked letter (class c, marker m).
    pub fn derive(&mut self, a: Id, l: Letter) -> Id {
        if let Some(r) = self.deriv.get(&(a, l)) {
            return *r;
        }
        let (c, m) = l;
        let r = match self.nodes[a as usize].clone() {
            Node::Empty | Node::Eps => EMPTY,
            Node::Sym(v) => {
                if v.contains(&l) {
                    EPS
                } else {
                    EMPTY
                }
            }
            Node::Cat(x, y) => {
                let dx = self.derive(x, l);
                let left = self.cat(dx, y);
                if self.is_nullable(x) {
                    let dy = self.derive(y, l);
                    self.alt(&[left, dy])
                } else {
                    left
                }
            }
            Node::Alt(v) => {
                let d: Vec<Id> = v.iter().map(|x| self.derive(*x, l)).collect();
                self.alt(&d)
            }
            Node::And(x, y) => {
                if m == 0 {
                    let (dx, dy) = (self.derive(x, l), self.derive(y, l));
                    self.and(dx, dy)
                } else {
                    // (m, m), (m, 0), (0, m) are the pairs that join to m
                    let (dxm, dym) = (self.derive(x, l), self.derive(y, l));
                    let (dx0, dy0) = (self.derive(x, (c, 0)), self.derive(y, (c, 0)));
                    let t1 = self.and(dxm, dym);
                    let t2 = self.and(dxm, dy0);
                    let t3 = self.and(dx0, dym);
                    self.alt(&[t1, t2, t3])
                }
            }
            Node::Not(x) => {
                if m == 0 {
                    let dx = self.derive(x, l);
                    self.not(dx)
                } else {
                    EMPTY
                }
            }
            Node::Star(x) => {
                let dx = self.derive(x, l);
                self.cat(dx, a)
            }
        };
        self.deriv.insert((a, l), r);
        r
    }
}

// ---------------------------------------------------------------------------------------------
// the reference automaton
// ---------------------------------------------------------------------------------------------

#[derive(Clone, Debug)]
pub struct RefAut {
    pub classes: Classes,
    pub markers: Vec<Marker>,
    pub n: usize,
    /// delta[s][class][marker index]
    pub delta: Vec<Vec<Vec<u32>>>,
    pub nullable: Vec<bool>,
    pub live: Vec<bool>,
    /// Some((state, class, [markers])) = a live state reachable through live states in which one
    /// byte class has two live markers: the expression is not output-deterministic.
    pub non_od: Option<(u32, u8, Vec<Marker>)>,
    /// for output-deterministic automata: the unique live successor
    pub succ: Vec<Vec<Option<(Marker, u32)>>>,
    /// shortest accepted continuation from a live state: (class, marker, next)
    pub to_accept: Vec<Option<(u8, Marker, u32)>>,
    pub dist_accept: Vec<u32>,
}

pub const REF_STATE_CAP: usize = 4000;

impl RefAut {
    /// `Err(n)` if the derivative closure exceeded the cap (never expected).
    pub fn build(e: &RefExpr) -> Result<RefAut, usize> {
        Self::build_k(&e.kernel())
    }

    pub fn build_k(k: &K) -> Result<RefAut, usize> {
        let mut g = Engine::new(k);
        let root = g.compile(k);
        let nc = g.classes.n();
        let ms = g.markers.clone();
        let mut ids: Vec<Id> = vec![root];
        let mut num: HashMap<Id, u32> = HashMap::new();
        num.insert(root, 0);
        let mut delta: Vec<Vec<Vec<u32>>> = vec![];
        let mut i = 0;
        while i < ids.len() {
            let s = ids[i];
            let mut row = vec![vec![0u32; ms.len()]; nc];
            for c in 0..nc {
                for (mi, m) in ms.iter().enumerate() {
                    let d = g.derive(s, (c as u8, *m));
                    let k = match num.get(&d) {
                        Some(k) => *k,
                        None => {
                            let k = ids.len() as u32;
                            num.insert(d, k);
                            ids.push(d);
                            k
                        }
                    };
                    row[c][mi] = k;
                }
            }
            delta.push(row);
            i += 1;
            if ids.len() > REF_STATE_CAP {
                return Err(ids.len());
            }
        }
        let n = ids.len();
        let nullable: Vec<bool> = ids.iter().map(|s| g.is_nullable(*s)).collect();
        // co-accessibility (backward from nullable states) with distances
        let mut rev: Vec<Vec<(u32, u8, usize)>> = vec![vec![]; n];
        for s in 0..n {
            for c in 0..nc {
                for mi in 0..ms.len() {
                    rev[delta[s][c][mi] as usize].push((s as u32, c as u8, mi));
                }
            }
        }
        let mut dist = vec![u32::MAX; n];
        let mut to_accept: Vec<Option<(u8, Marker, u32)>> = vec![None; n];
        let mut queue: std::collections::VecDeque<u32> = Default::default();
        for s in 0..n {
            if nullable[s] {
                dist[s] = 0;
                queue.push_back(s as u32);
            }
        }
        while let Some(t) = queue.pop_front() {
            for (s, c, mi) in &rev[t as usize] {
                if dist[*s as usize] == u32::MAX {
                    dist[*s as usize] = dist[t as usize] + 1;
                    to_accept[*s as usize] = Some((*c, ms[*mi], t));
                    queue.push_back(*s);
                }
            }
        }
        let live: Vec<bool> = dist.iter().map(|d| *d != u32::MAX).collect();
        // output determinism on the part reachable through live states
        let mut succ: Vec<Vec<Option<(Marker, u32)>>> = vec![vec![None; nc]; n];
        let mut non_od = None;
        let mut seen = vec![false; n];
        let mut stack = vec![];
        if live[0] {
            stack.push(0u32);
            seen[0] = true;
        }
        while let Some(s) = stack.pop() {
            for c in 0..nc {
                let lm: Vec<(Marker, u32)> = (0..ms.len())
                    .filter(|mi| live[delta[s as usize][c][*mi] as usize])
                    .map(|mi| (ms[mi], delta[s as usize][c][mi]))
                    .collect();
                if lm.len() > 1 && non_od.is_none() {
                    non_od = Some((s, c as u8, lm.iter().map(|x| x.0).collect()));
                }
                if let Some(x) = lm.first() {
                    succ[s as usize][c] = Some(*x);
                }
                for (_, t) in lm {
                    if !seen[t as usize] {
                        seen[t as usize] = true;
                        stack.push(t);
                    }
                }
            }
        }
        Ok(RefAut {
            classes: g.classes.clone(),
            markers: ms,
            n,
            delta,
            nullable,
            live,
            non_od,
            succ,
            to_accept,
            dist_accept: dist,
        })
    }

    /// Runs the (output-deterministic) reference on a word: Some(markers) iff accepted.
    pub fn run(&self, w: &[u8]) -> Option<Vec<Marker>> {
        let mut s = 0u32;
        if !self.live[0] {
            return None;
        }
        let mut out = vec![];
        for b in w {
            let c = self.classes.of_byte[*b as usize] as usize;
            let (m, t) = self.succ[s as usize][c]?;
            out.push(m);
            s = t;
        }
        if self.nullable[s as usize] {
            Some(out)
        } else {
            None
        }
    }

    /// Shortest accepted continuation from a live state (bytes = class representatives).
    pub fn accept_suffix(&self, mut s: u32) -> (Vec<u8>, Vec<Marker>) {
        let (mut w, mut ms) = (vec![], vec![]);
        while self.dist_accept[s as usize] != 0 {
            let Some((c, m, t)) = self.to_accept[s as usize] else { break };
            w.push(self.classes.rep[c as usize]);
            ms.push(m);
            s = t;
        }
        (w, ms)
    }

    /// "0" = empty language, "e" = exactly {epsilon}, "_" = anything else.
    pub fn language_class(&self) -> &'static str {
        if !self.live[0] {
            "0"
        } else if self.nullable[0] && (0..self.classes.n()).all(|c| (0..self.markers.len()).all(|mi| !self.live[self.delta[0][c][mi] as usize])) {
            "e"
        } else {
            "_"
        }
    }
}

// ---------------------------------------------------------------------------------------------
// self-check of the derivative automaton: a direct set semantics on bounded-length marked words
// ---------------------------------------------------------------------------------------------

/// A marked word over byte classes.
pub type MWord = Vec<(u8, Marker)>;

/// The set of marked words of length <= k in the language of the kernel term (no derivatives, no
/// automata).
pub fn denote(t: &K, cl: &Classes, k: usize) -> BTreeSet<MWord> {
    let cat = |a: &BTreeSet<MWord>, b: &BTreeSet<MWord>| -> BTreeSet<MWord> {
        let mut out = BTreeSet::new();
        for x in a {
            for y in b {
                if x.len() + y.len() <= k {
                    let mut w = x.clone();
                    w.extend(y.iter().copied());
                    out.insert(w);
                }
            }
        }
        out
    };
    let eps: BTreeSet<MWord> = [vec![]].into_iter().collect();
    let all_unmarked = || -> BTreeSet<MWord> {
        let mut acc = eps.clone();
        let letters: BTreeSet<MWord> = (0..cl.n() as u8).map(|c| vec![(c, 0)]).collect();
        for _ in 0..k {
            let mut next = acc.clone();
            next.extend(cat(&acc, &letters));
            acc = next;
        }
        acc
    };
    match t {
        K::Letters(v) => {
            if k == 0 {
                return BTreeSet::new();
            }
            v.iter().map(|(b, m)| vec![(cl.of_byte[*b as usize], *m)]).collect()
        }
        K::Eps => eps,
        K::Empty => BTreeSet::new(),
        K::Cat(l) => {
            let mut acc = eps.clone();
            for x in l {
                acc = cat(&acc, &denote(x, cl, k));
            }
            acc
        }
        K::Union(l) => {
            let mut acc = BTreeSet::new();
            for x in l {
                acc.extend(denote(x, cl, k));
            }
            acc
        }
        K::Inter(l) => {
            let mut acc = all_unmarked();
            for x in l {
                let b = denote(x, cl, k);
                let mut out = BTreeSet::new();
                for x in &acc {
                    'next: for y in &b {
                        if x.len() != y.len() {
                            continue;
                        }
                        let mut w = vec![];
                        for ((c1, m1), (c2, m2)) in x.iter().zip(y) {
                            if c1 != c2 || !(m1 == m2 || *m1 == 0 || *m2 == 0) {
                                continue 'next;
                            }
                            w.push((*c1, *m1.max(m2)));
                        }
                        out.insert(w);
                    }
                }
                acc = out;
            }
            acc
        }
        K::Neg(r) => {
            let a = denote(r, cl, k);
            all_unmarked().into_iter().filter(|w| !a.contains(w)).collect()
        }
        K::Star(r) => {
            let a = denote(r, cl, k);
            let mut acc = eps.clone();
            loop {
                let mut next = acc.clone();
                next.extend(cat(&acc, &a));
                if next.len() == acc.len() {
                    return acc;
                }
                acc = next;
            }
        }
    }
}

impl RefAut {
    /// Membership of a marked word (the automaton over marked letters is deterministic).
    pub fn accepts_marked(&self, w: &MWord) -> bool {
        let mut s = 0usize;
        for (c, m) in w {
            let Some(mi) = self.markers.iter().position(|x| x == m) else { return false };
            s = self.delta[s][*c as usize][mi] as usize;
        }
        self.nullable[s]
    }

    /// Compares the automaton with the direct set semantics on every marked word of length <= k.
    /// Returns (words compared, first disagreement).
    pub fn selfcheck(&self, t: &K, k: usize) -> (u64, Option<MWord>) {
        let lang = denote(t, &self.classes, k);
        let mut frontier: Vec<MWord> = vec![vec![]];
        let mut n = 0;
        for len in 0..=k {
            for w in &frontier {
                n += 1;
                if lang.contains(w) != self.accepts_marked(w) {
                    return (n, Some(w.clone()));
                }
            }
            if len == k {
                break;
            }
            let mut next = vec![];
            for w in &frontier {
                for c in 0..self.classes.n() as u8 {
                    for m in &self.markers {
                        let mut x = w.clone();
                        x.push((c, *m));
                        next.push(x);
                    }
                }
            }
            frontier = next;
        }
        (n, None)
    }
}
