//! `RefExpr` — the checker's own AST mirroring the public combinators of
//! `midnight_circuits::parsing::regex::RegexInstructions`, with
//!  * `to_regex()`   : builds the real `Regex` through the public API only;
//!  * a reference semantics by Brzozowski derivatives over *marked letters* (a letter is a pair
//!    (byte class, marker)), normalised modulo associativity / commutativity / idempotence of
//!    union, so that the derivative closure is a finite automaton (`RefAut`).
//!
//! Semantics of an expression = a set of marked words (sequences of (byte, marker)).
//!  * `byte_from(l)`            : one letter (b, 0), b in l
//!  * `cat`, `union`            : as usual
//!  * `inter`                   : two marked words with the same bytes are joined position-wise;
//!                                markers m1, m2 are compatible iff m1 == m2 or one of them is 0,
//!                                and the join carries max(m1, m2) (doc of `RegexInstructions::inter`)
//!  * `neg(r)` (r marker-free)  : every *unmarked* word that is not in r
//!  * `minus(r, s)`             : `inter(r, neg(s))`
//!  * `non_empty_list` / `list` : 1.. / 0.. copies
//!  * `mark_bytes(r, S, m)`     : every word of r with the marker of every byte of S overwritten by m

use std::collections::{BTreeSet, HashMap};

use midnight_circuits::parsing::regex::{Regex, RegexInstructions};

pub type Marker = usize;

#[derive(Clone, Debug, PartialEq, Eq, Hash, PartialOrd, Ord)]
pub enum RefExpr {
    /// `byte_from(l)`
    Bytes(Vec<u8>),
    /// `byte_not_from(l)`
    NotBytes(Vec<u8>),
    /// `any_byte()`
    AnyByte,
    /// `epsilon()`
    Eps,
    /// `union([])`
    Empty,
    /// `any()`
    Any,
    /// `word(w)`
    Word(Vec<u8>),
    /// `cat(l)`
    Cat(Vec<RefExpr>),
    /// `union(l)`
    Union(Vec<RefExpr>),
    /// `inter(l)`
    Inter(Vec<RefExpr>),
    /// `r.neg()`
    Neg(Box<RefExpr>),
    /// `r.minus(s)`
    Minus(Box<RefExpr>, Box<RefExpr>),
    /// `r.list()`
    Star(Box<RefExpr>),
    /// `r.non_empty_list()`
    Plus(Box<RefExpr>),
    /// `r.optional()`
    Opt(Box<RefExpr>),
    /// `r.repeat(n)`
    Repeat(Box<RefExpr>, usize),
    /// `r.repeat_at_most(n)`
    AtMost(Box<RefExpr>, usize),
    /// `r.separated_list(sep)`
    SepList(Box<RefExpr>, Box<RefExpr>),
    /// `r.separated_non_empty_list(sep)`
    SepNeList(Box<RefExpr>, Box<RefExpr>),
    /// `separated_cat(l, sep)`
    SepCat(Vec<RefExpr>, Box<RefExpr>),
    /// `r.separated_repeat(n, sep)`
    SepRepeat(Box<RefExpr>, usize, Box<RefExpr>),
    /// `r.separated_repeat_at_most(n, sep)`
    SepAtMost(Box<RefExpr>, usize, Box<RefExpr>),
    /// `r.delimited(open, close)`
    Delimited(Box<RefExpr>, Box<RefExpr>, Box<RefExpr>),
    /// `r.mark_bytes(bytes, m)`
    MarkBytes(Box<RefExpr>, Vec<u8>, Marker),
    /// `r.mark(f)` with f(b) = Some(m) for (b, m) in the table, None otherwise
    MarkFn(Box<RefExpr>, Vec<(u8, Marker)>),
    /// `r.replace_markers(upd)` with upd(m) = Some(m') for (m, m') in the table
    ReplaceMarkers(Box<RefExpr>, Vec<(Marker, Marker)>),
    /// `blanks()` / `blanks_strict()` / `one_blank()`
    Blanks,
    BlanksStrict,
    OneBlank,
    /// `spaced_cat(l)`
    SpacedCat(Vec<RefExpr>),
    /// `r.spaced_list()`
    SpacedList(Box<RefExpr>),
    /// `r.spaced_non_empty_list()`
    SpacedNeList(Box<RefExpr>),
    /// `r.spaced_terminated(s)`
    SpacedTerminated(Box<RefExpr>, Box<RefExpr>),
    /// `r.spaced_delimited(open, close)`
    SpacedDelimited(Box<RefExpr>, Box<RefExpr>, Box<RefExpr>),
    /// `r.spaced_separated_list(sep)`
    SpacedSepList(Box<RefExpr>, Box<RefExpr>),
    /// `r.spaced_separated_non_empty_list(sep)`
    SpacedSepNeList(Box<RefExpr>, Box<RefExpr>),
    /// `spaced_separated_cat(l, sep)`
    SpacedSepCat(Vec<RefExpr>, Box<RefExpr>),
    /// `r.spaced_repeat(n)`
    SpacedRepeat(Box<RefExpr>, usize),
    /// `r.spaced_repeat_at_most(n)`
    SpacedAtMost(Box<RefExpr>, usize),
    /// `r.spaced_separated_repeat(n, sep)`
    SpacedSepRepeat(Box<RefExpr>, usize, Box<RefExpr>),
    /// `r.spaced_separated_repeat_at_most(n, sep)`
    SpacedSepAtMost(Box<RefExpr>, usize, Box<RefExpr>),
    /// `digit()`
    Digit,
}

pub const BLANKS: [u8; 3] = [b' ', b'\t', b'\n'];

fn show_bytes(v: &[u8]) -> String {
    v.iter()
        .map(|b| if b.is_ascii_alphanumeric() { (*b as char).to_string() } else { format!("\\x{b:02x}") })
        .collect::<Vec<_>>()
        .join("")
}

fn list(v: &[RefExpr]) -> String {
    v.iter().map(|e| e.show()).collect::<Vec<_>>().join(",")
}

impl RefExpr {
    pub fn byte(b: u8) -> RefExpr {
        RefExpr::Bytes(vec![b])
    }
    pub fn marked(b: u8, m: Marker) -> RefExpr {
        RefExpr::MarkBytes(Box::new(RefExpr::byte(b)), vec![b], m)
    }

    /// Name of the top-level combinator (used in finding keys).
    pub fn top(&self) -> &'static str {
        use RefExpr::*;
        match self {
            Bytes(_) => "byte_from",
            NotBytes(_) => "byte_not_from",
            AnyByte => "any_byte",
            Eps => "epsilon",
            Empty => "empty",
            Any => "any",
            Word(_) => "word",
            Cat(_) => "cat",
            Union(_) => "union",
            Inter(_) => "inter",
            Neg(_) => "neg",
            Minus(..) => "minus",
            Star(_) => "list",
            Plus(_) => "non_empty_list",
            Opt(_) => "optional",
            Repeat(..) => "repeat",
            AtMost(..) => "repeat_at_most",
            SepList(..) => "separated_list",
            SepNeList(..) => "separated_non_empty_list",
            SepCat(..) => "separated_cat",
            SepRepeat(..) => "separated_repeat",
            SepAtMost(..) => "separated_repeat_at_most",
            Delimited(..) => "delimited",
            MarkBytes(..) => "mark_bytes",
            MarkFn(..) => "mark",
            ReplaceMarkers(..) => "replace_markers",
            Blanks => "blanks",
            BlanksStrict => "blanks_strict",
            OneBlank => "one_blank",
            SpacedCat(_) => "spaced_cat",
            SpacedList(_) => "spaced_list",
            SpacedNeList(_) => "spaced_non_empty_list",
            SpacedTerminated(..) => "spaced_terminated",
            SpacedDelimited(..) => "spaced_delimited",
            SpacedSepList(..) => "spaced_separated_list",
            SpacedSepNeList(..) => "spaced_separated_non_empty_list",
            SpacedSepCat(..) => "spaced_separated_cat",
            SpacedRepeat(..) => "spaced_repeat",
            SpacedAtMost(..) => "spaced_repeat_at_most",
            SpacedSepRepeat(..) => "spaced_separated_repeat",
            SpacedSepAtMost(..) => "spaced_separated_repeat_at_most",
            Digit => "digit",
        }
    }

    /// Canonical compact rendering (case keys, finding details).
    pub fn show(&self) -> String {
        use RefExpr::*;
        match self {
            Bytes(v) if v.len() == 1 => show_bytes(v),
            Bytes(v) => format!("[{}]", show_bytes(v)),
            NotBytes(v) => format!("[^{}]", show_bytes(v)),
            AnyByte => ".".into(),
            Eps => "eps".into(),
            Empty => "empty".into(),
            Any => "any".into(),
            Word(w) => format!("\"{}\"", show_bytes(w)),
            Cat(l) => format!("cat({})", list(l)),
            Union(l) => format!("union({})", list(l)),
            Inter(l) => format!("inter({})", list(l)),
            Neg(r) => format!("neg({})", r.show()),
            Minus(r, s) => format!("minus({},{})", r.show(), s.show()),
            Star(r) => format!("list({})", r.show()),
            Plus(r) => format!("nelist({})", r.show()),
            Opt(r) => format!("opt({})", r.show()),
            Repeat(r, n) => format!("rep{n}({})", r.show()),
            AtMost(r, n) => format!("atmost{n}({})", r.show()),
            SepList(r, s) => format!("seplist({},{})", r.show(), s.show()),
            SepNeList(r, s) => format!("sepnelist({},{})", r.show(), s.show()),
            SepCat(l, s) => format!("sepcat([{}],{})", list(l), s.show()),
            SepRepeat(r, n, s) => format!("seprep{n}({},{})", r.show(), s.show()),
            SepAtMost(r, n, s) => format!("sepatmost{n}({},{})", r.show(), s.show()),
            Delimited(r, o, c) => format!("delim({},{},{})", r.show(), o.show(), c.show()),
            MarkBytes(r, b, m) => match &**r {
                Bytes(v) if v == b && v.len() == 1 => format!("{}@{m}", show_bytes(v)),
                _ => format!("mark({},[{}]->{m})", r.show(), show_bytes(b)),
            },
            MarkFn(r, t) => format!(
                "markfn({},{{{}}})",
                r.show(),
                t.iter().map(|(b, m)| format!("{}->{m}", show_bytes(&[*b]))).collect::<Vec<_>>().join(",")
            ),
            ReplaceMarkers(r, t) => format!(
                "remark({},{{{}}})",
                r.show(),
                t.iter().map(|(a, b)| format!("{a}->{b}")).collect::<Vec<_>>().join(",")
            ),
            Blanks => "blanks".into(),
            BlanksStrict => "blanks1".into(),
            OneBlank => "blank".into(),
            SpacedCat(l) => format!("spcat({})", list(l)),
            SpacedList(r) => format!("splist({})", r.show()),
            SpacedNeList(r) => format!("spnelist({})", r.show()),
            SpacedTerminated(r, s) => format!("spterm({},{})", r.show(), s.show()),
            SpacedDelimited(r, o, c) => format!("spdelim({},{},{})", r.show(), o.show(), c.show()),
            SpacedSepList(r, s) => format!("spseplist({},{})", r.show(), s.show()),
            SpacedSepNeList(r, s) => format!("spsepnelist({},{})", r.show(), s.show()),
            SpacedSepCat(l, s) => format!("spsepcat([{}],{})", list(l), s.show()),
            SpacedRepeat(r, n) => format!("sprep{n}({})", r.show()),
            SpacedAtMost(r, n) => format!("spatmost{n}({})", r.show()),
            SpacedSepRepeat(r, n, s) => format!("spseprep{n}({},{})", r.show(), s.show()),
            SpacedSepAtMost(r, n, s) => format!("spsepatmost{n}({},{})", r.show(), s.show()),
            Digit => "digit".into(),
        }
    }

    pub fn children(&self) -> Vec<&RefExpr> {
        use RefExpr::*;
        match self {
            Bytes(_) | NotBytes(_) | AnyByte | Eps | Empty | Any | Word(_) | Blanks | BlanksStrict | OneBlank | Digit => vec![],
            Cat(l) | Union(l) | Inter(l) | SpacedCat(l) => l.iter().collect(),
            Neg(r) | Star(r) | Plus(r) | Opt(r) | Repeat(r, _) | AtMost(r, _) | MarkBytes(r, ..) | MarkFn(r, _)
            | ReplaceMarkers(r, _) | SpacedList(r) | SpacedNeList(r) | SpacedRepeat(r, _) | SpacedAtMost(r, _) => vec![r],
            Minus(r, s) | SepList(r, s) | SepNeList(r, s) | SepRepeat(r, _, s) | SepAtMost(r, _, s) | SpacedTerminated(r, s)
            | SpacedSepList(r, s) | SpacedSepNeList(r, s) | SpacedSepRepeat(r, _, s) | SpacedSepAtMost(r, _, s) => vec![r, s],
            SepCat(l, s) | SpacedSepCat(l, s) => l.iter().chain(std::iter::once(&**s)).collect(),
            Delimited(r, o, c) | SpacedDelimited(r, o, c) => vec![r, o, c],
        }
    }

    pub fn depth(&self) -> usize {
        let c = self.children();
        if c.is_empty() {
            return 0;
        }
        // an atom `a@1` counts as depth 0
        if let RefExpr::MarkBytes(r, b, _) = self {
            if let RefExpr::Bytes(v) = &**r {
                if v == b {
                    return 0;
                }
            }
        }
        1 + c.iter().map(|e| e.depth()).max().unwrap()
    }

    pub fn size(&self) -> usize {
        1 + self.children().iter().map(|e| e.size()).sum::<usize>()
    }

    pub fn contains_complement(&self) -> bool {
        matches!(self, RefExpr::Neg(_) | RefExpr::Minus(..)) || self.children().iter().any(|c| c.contains_complement())
    }

    /// The set of letters (byte, marker) that syntactically occur in the expression — the model of
    /// `Regex::contains_markers` (which decides whether `neg` panics).
    pub fn letters(&self) -> BTreeSet<(u8, Marker)> {
        use RefExpr::*;
        let all = |f: &dyn Fn(u8) -> bool| -> BTreeSet<(u8, Marker)> { (0..=255u8).filter(|b| f(*b)).map(|b| (b, 0)).collect() };
        match self {
            Bytes(v) => v.iter().map(|b| (*b, 0)).collect(),
            NotBytes(v) => all(&|b| !v.contains(&b)),
            AnyByte | Any => all(&|_| true),
            Eps | Empty => BTreeSet::new(),
            Word(w) => w.iter().map(|b| (*b, 0)).collect(),
            Blanks | BlanksStrict | OneBlank => BLANKS.iter().map(|b| (*b, 0)).collect(),
            Digit => (b'0'..=b'9').map(|b| (b, 0)).collect(),
            MarkBytes(r, bytes, m) => r.letters().into_iter().map(|(b, k)| if bytes.contains(&b) { (b, *m) } else { (b, k) }).collect(),
            MarkFn(r, t) => r
                .letters()
                .into_iter()
                .map(|(b, k)| match t.iter().find(|(x, _)| *x == b) {
                    Some((_, m)) => (b, *m),
                    None => (b, k),
                })
                .collect(),
            ReplaceMarkers(r, t) => r
                .letters()
                .into_iter()
                .map(|(b, k)| match t.iter().find(|(x, _)| *x == k) {
                    Some((_, m)) => (b, *m),
                    None => (b, k),
                })
                .collect(),
            // the spaced variants add unmarked blanks
            SpacedCat(_) | SpacedList(_) | SpacedNeList(_) | SpacedTerminated(..) | SpacedDelimited(..) | SpacedSepList(..)
            | SpacedSepNeList(..) | SpacedSepCat(..) | SpacedRepeat(..) | SpacedAtMost(..) | SpacedSepRepeat(..) | SpacedSepAtMost(..) => {
                let mut s: BTreeSet<(u8, Marker)> = BLANKS.iter().map(|b| (*b, 0)).collect();
                for c in self.children() {
                    s.extend(c.letters());
                }
                s
            }
            _ => {
                let mut s = BTreeSet::new();
                for c in self.children() {
                    s.extend(c.letters());
                }
                s
            }
        }
    }

    pub fn has_markers(&self) -> bool {
        self.letters().iter().any(|(_, m)| *m != 0)
    }

    /// Well-formed = `neg` / the right operand of `minus` never see a marked letter (the library
    /// asserts this when the complement is built).
    pub fn well_formed(&self) -> bool {
        use RefExpr::*;
        let here = match self {
            Neg(r) => !r.has_markers(),
            Minus(_, s) => !s.has_markers(),
            _ => true,
        };
        here && self.children().iter().all(|c| c.well_formed())
    }

    /// Builds the real `Regex` through the public API.
    pub fn to_regex(&self) -> Regex {
        use RefExpr::*;
        let v = |l: &Vec<RefExpr>| l.iter().map(|e| e.to_regex()).collect::<Vec<_>>();
        match self {
            Bytes(b) => Regex::byte_from(b.iter().copied()),
            NotBytes(b) => Regex::byte_not_from(b.iter().copied()),
            AnyByte => Regex::any_byte(),
            Eps => Regex::epsilon(),
            Empty => Regex::union(Vec::<Regex>::new()),
            Any => Regex::any(),
            Word(w) => Regex::word(std::str::from_utf8(w).expect("ascii word")),
            Cat(l) => Regex::cat(v(l)),
            Union(l) => Regex::union(v(l)),
            Inter(l) => Regex::inter(v(l)),
            Neg(r) => r.to_regex().neg(),
            Minus(r, s) => r.to_regex().minus(s.to_regex()),
            Star(r) => r.to_regex().list(),
            Plus(r) => r.to_regex().non_empty_list(),
            Opt(r) => r.to_regex().optional(),
            Repeat(r, n) => r.to_regex().repeat(*n),
            AtMost(r, n) => r.to_regex().repeat_at_most(*n),
            SepList(r, s) => r.to_regex().separated_list(s.to_regex()),
            SepNeList(r, s) => r.to_regex().separated_non_empty_list(s.to_regex()),
            SepCat(l, s) => Regex::separated_cat(v(l), s.to_regex()),
            SepRepeat(r, n, s) => r.to_regex().separated_repeat(*n, s.to_regex()),
            SepAtMost(r, n, s) => r.to_regex().separated_repeat_at_most(*n, s.to_regex()),
            Delimited(r, o, c) => r.to_regex().delimited(o.to_regex(), c.to_regex()),
            MarkBytes(r, b, m) => r.to_regex().mark_bytes(b.iter().copied(), *m),
            MarkFn(r, t) => {
                let t = t.clone();
                r.to_regex().mark(&move |b| t.iter().find(|(x, _)| *x == b).map(|(_, m)| *m))
            }
            ReplaceMarkers(r, t) => {
                let t = t.clone();
                r.to_regex().replace_markers(&move |m| t.iter().find(|(x, _)| *x == m).map(|(_, y)| *y))
            }
            Blanks => Regex::blanks(),
            BlanksStrict => Regex::blanks_strict(),
            OneBlank => Regex::one_blank(),
            SpacedCat(l) => Regex::spaced_cat(v(l)),
            SpacedList(r) => r.to_regex().spaced_list(),
            SpacedNeList(r) => r.to_regex().spaced_non_empty_list(),
            SpacedTerminated(r, s) => r.to_regex().spaced_terminated(s.to_regex()),
            SpacedDelimited(r, o, c) => r.to_regex().spaced_delimited(o.to_regex(), c.to_regex()),
            SpacedSepList(r, s) => r.to_regex().spaced_separated_list(s.to_regex()),
            SpacedSepNeList(r, s) => r.to_regex().spaced_separated_non_empty_list(s.to_regex()),
            SpacedSepCat(l, s) => Regex::spaced_separated_cat(v(l), s.to_regex()),
            SpacedRepeat(r, n) => r.to_regex().spaced_repeat(*n),
            SpacedAtMost(r, n) => r.to_regex().spaced_repeat_at_most(*n),
            SpacedSepRepeat(r, n, s) => r.to_regex().spaced_separated_repeat(*n, s.to_regex()),
            SpacedSepAtMost(r, n, s) => r.to_regex().spaced_separated_repeat_at_most(*n, s.to_regex()),
            Digit => Regex::digit(),
        }
    }

    /// All byte sets mentioned by the expression (to partition the 256 bytes into classes that the
    /// expression cannot tell apart).
    fn byte_sets(&self, out: &mut Vec<[bool; 256]>) {
        use RefExpr::*;
        let mut push = |f: &dyn Fn(u8) -> bool| {
            let mut s = [false; 256];
            for b in 0..=255u8 {
                s[b as usize] = f(b);
            }
            out.push(s);
        };
        match self {
            Bytes(v) | NotBytes(v) => push(&|b| v.contains(&b)),
            Word(w) => {
                for x in w {
                    push(&|b| b == *x)
                }
            }
            MarkBytes(_, v, _) => push(&|b| v.contains(&b)),
            MarkFn(_, t) => {
                for (x, _) in t {
                    push(&|b| b == *x)
                }
            }
            Blanks | BlanksStrict | OneBlank => push(&|b| BLANKS.contains(&b)),
            Digit => push(&|b| b.is_ascii_digit()),
            SpacedCat(_) | SpacedList(_) | SpacedNeList(_) | SpacedTerminated(..) | SpacedDelimited(..) | SpacedSepList(..)
            | SpacedSepNeList(..) | SpacedSepCat(..) | SpacedRepeat(..) | SpacedAtMost(..) | SpacedSepRepeat(..) | SpacedSepAtMost(..) => {
                push(&|b| BLANKS.contains(&b))
            }
            _ => {}
        }
        for c in self.children() {
            c.byte_sets(out);
        }
    }

    fn markers(&self, out: &mut BTreeSet<Marker>) {
        use RefExpr::*;
        match self {
            MarkBytes(_, _, m) => {
                out.insert(*m);
            }
            MarkFn(_, t) => out.extend(t.iter().map(|x| x.1)),
            ReplaceMarkers(_, t) => out.extend(t.iter().map(|x| x.1)),
            _ => {}
        }
        for c in self.children() {
            c.markers(out);
        }
    }
}

// ---------------------------------------------------------------------------------------------
// byte classes
// ---------------------------------------------------------------------------------------------

#[derive(Clone, Debug)]
pub struct Classes {
    pub of_byte: [u8; 256],
    /// smallest byte of each class
    pub rep: Vec<u8>,
    pub members: Vec<Vec<u8>>,
}

impl Classes {
    pub fn of(e: &RefExpr) -> Classes {
        let mut sets = vec![];
        e.byte_sets(&mut sets);
        let mut sig_to_class: HashMap<Vec<bool>, u8> = HashMap::new();
        let mut of_byte = [0u8; 256];
        let mut rep = vec![];
        let mut members: Vec<Vec<u8>> = vec![];
        for b in 0..256usize {
            let sig: Vec<bool> = sets.iter().map(|s| s[b]).collect();
            let n = sig_to_class.len() as u8;
            let c = *sig_to_class.entry(sig).or_insert_with(|| {
                rep.push(b as u8);
                members.push(vec![]);
                n
            });
            of_byte[b] = c;
            members[c as usize].push(b as u8);
        }
        Classes { of_byte, rep, members }
    }
    pub fn n(&self) -> usize {
        self.rep.len()
    }
    fn set_of(&self, f: impl Fn(u8) -> bool) -> u64 {
        // classes are unions of signature-equal bytes, so f is constant on each class
        let mut m = 0u64;
        for (c, r) in self.rep.iter().enumerate() {
            if f(*r) {
                m |= 1 << c;
            }
        }
        m
    }
}

// ---------------------------------------------------------------------------------------------
// core terms, hash-consed
// ---------------------------------------------------------------------------------------------

type Id = u32;
/// (class, marker)
type Letter = (u8, Marker);

#[derive(Clone, Debug, PartialEq, Eq, Hash)]
enum Node {
    Empty,
    Eps,
    /// one letter out of the set (sorted)
    Sym(Vec<Letter>),
    Cat(Id, Id),
    /// sorted, deduplicated, no nested Alt, no Empty, len >= 2
    Alt(Vec<Id>),
    /// marker-unifying intersection; operands ordered
    And(Id, Id),
    /// complement within the unmarked words
    Not(Id),
    Star(Id),
    /// relabel: letters whose class is in the mask get marker m
    Mark(u64, Marker, Id),
    /// relabel markers through a table
    Remark(Vec<(Marker, Marker)>, Id),
}

const EMPTY: Id = 0;
const EPS: Id = 1;

pub struct Engine {
    nodes: Vec<Node>,
    index: HashMap<Node, Id>,
    nullable: Vec<Option<bool>>,
    deriv: HashMap<(Id, Letter), Id>,
    pub classes: Classes,
    pub markers: Vec<Marker>,
}

impl Engine {
    pub fn new(e: &RefExpr) -> Engine {
        let mut ms = BTreeSet::new();
        ms.insert(0);
        e.markers(&mut ms);
        let mut g = Engine {
            nodes: vec![],
            index: HashMap::new(),
            nullable: vec![],
            deriv: HashMap::new(),
            classes: Classes::of(e),
            markers: ms.into_iter().collect(),
        };
        assert_eq!(g.intern(Node::Empty), EMPTY);
        assert_eq!(g.intern(Node::Eps), EPS);
        assert!(g.classes.n() <= 64);
        g
    }

    fn intern(&mut self, n: Node) -> Id {
        if let Some(i) = self.index.get(&n) {
            return *i;
        }
        let i = self.nodes.len() as Id;
        self.nodes.push(n.clone());
        self.index.insert(n, i);
        self.nullable.push(None);
        i
    }

    fn sym(&mut self, mask: u64, m: Marker) -> Id {
        let v: Vec<Letter> = (0..self.classes.n() as u8).filter(|c| mask >> c & 1 == 1).map(|c| (c, m)).collect();
        if v.is_empty() {
            EMPTY
        } else {
            self.intern(Node::Sym(v))
        }
    }
    fn cat(&mut self, a: Id, b: Id) -> Id {
        if a == EMPTY || b == EMPTY {
            return EMPTY;
        }
        if a == EPS {
            return b;
        }
        if b == EPS {
            return a;
        }
        if let Node::Cat(x, y) = self.nodes[a as usize].clone() {
            let t = self.cat(y, b);
            return self.cat(x, t);
        }
        self.intern(Node::Cat(a, b))
    }
    fn cat_all(&mut self, l: &[Id]) -> Id {
        let mut acc = EPS;
        for x in l.iter().rev() {
            acc = self.cat(*x, acc);
        }
        acc
    }
    fn alt(&mut self, l: &[Id]) -> Id {
        let mut s: BTreeSet<Id> = BTreeSet::new();
        for x in l {
            match &self.nodes[*x as usize] {
                Node::Empty => {}
                Node::Alt(v) => s.extend(v.iter().copied()),
                _ => {
                    s.insert(*x);
                }
            }
        }
        match s.len() {
            0 => EMPTY,
            1 => *s.iter().next().unwrap(),
            _ => self.intern(Node::Alt(s.into_iter().collect())),
        }
    }
    fn and(&mut self, a: Id, b: Id) -> Id {
        if a == EMPTY || b == EMPTY {
            return EMPTY;
        }
        if a == EPS {
            return if self.is_nullable(b) { EPS } else { EMPTY };
        }
        if b == EPS {
            return if self.is_nullable(a) { EPS } else { EMPTY };
        }
        let (a, b) = if a <= b { (a, b) } else { (b, a) };
        self.intern(Node::And(a, b))
    }
    fn not(&mut self, a: Id) -> Id {
        self.intern(Node::Not(a))
    }
    fn star(&mut self, a: Id) -> Id {
        if a == EMPTY || a == EPS {
            return EPS;
        }
        if let Node::Star(_) = self.nodes[a as usize] {
            return a;
        }
        self.intern(Node::Star(a))
    }
    fn plus(&mut self, a: Id) -> Id {
        let s = self.star(a);
        self.cat(a, s)
    }
    fn mark(&mut self, mask: u64, m: Marker, a: Id) -> Id {
        if a == EMPTY || a == EPS {
            return a;
        }
        self.intern(Node::Mark(mask, m, a))
    }
    fn remark(&mut self, t: &[(Marker, Marker)], a: Id) -> Id {
        if a == EMPTY || a == EPS {
            return a;
        }
        self.intern(Node::Remark(t.to_vec(), a))
    }
    fn universal(&mut self) -> Id {
        let all = self.classes.set_of(|_| true);
        let s = self.sym(all, 0);
        self.star(s)
    }
    fn blanks(&mut self) -> Id {
        let m = self.classes.set_of(|b| BLANKS.contains(&b));
        let s = self.sym(m, 0);
        self.star(s)
    }
    fn pow(&mut self, a: Id, n: usize) -> Id {
        let v = vec![a; n];
        self.cat_all(&v)
    }
    /// r (s r)^*
    fn sep_ne(&mut self, r: Id, s: Id) -> Id {
        let sr = self.cat(s, r);
        let st = self.star(sr);
        self.cat(r, st)
    }
    /// r1 s r2 s ... rn  (epsilon for the empty list)
    fn sep_cat(&mut self, l: &[Id], s: Id) -> Id {
        let mut parts = vec![];
        for (i, x) in l.iter().enumerate() {
            if i > 0 {
                parts.push(s);
            }
            parts.push(*x);
        }
        self.cat_all(&parts)
    }

    /// Translation of the surface combinators into core terms, following the doc comments of
    /// `RegexInstructions`.
    pub fn compile(&mut self, e: &RefExpr) -> Id {
        use RefExpr::*;
        match e {
            Bytes(v) => {
                let m = self.classes.set_of(|b| v.contains(&b));
                self.sym(m, 0)
            }
            NotBytes(v) => {
                let m = self.classes.set_of(|b| !v.contains(&b));
                self.sym(m, 0)
            }
            AnyByte => {
                let m = self.classes.set_of(|_| true);
                self.sym(m, 0)
            }
            Digit => {
                let m = self.classes.set_of(|b| b.is_ascii_digit());
                self.sym(m, 0)
            }
            OneBlank => {
                let m = self.classes.set_of(|b| BLANKS.contains(&b));
                self.sym(m, 0)
            }
            Blanks => self.blanks(),
            BlanksStrict => {
                let m = self.classes.set_of(|b| BLANKS.contains(&b));
                let s = self.sym(m, 0);
                self.plus(s)
            }
            Eps => EPS,
            Empty => EMPTY,
            Any => self.universal(),
            Word(w) => {
                let l: Vec<Id> = w
                    .iter()
                    .map(|x| {
                        let m = self.classes.set_of(|b| b == *x);
                        self.sym(m, 0)
                    })
                    .collect();
                self.cat_all(&l)
            }
            Cat(l) => {
                let v: Vec<Id> = l.iter().map(|x| self.compile(x)).collect();
                self.cat_all(&v)
            }
            Union(l) => {
                let v: Vec<Id> = l.iter().map(|x| self.compile(x)).collect();
                self.alt(&v)
            }
            Inter(l) => {
                let mut acc = self.universal();
                for x in l {
                    let c = self.compile(x);
                    acc = self.and(acc, c);
                }
                acc
            }
            Neg(r) => {
                let c = self.compile(r);
                self.not(c)
            }
            Minus(r, s) => {
                let a = self.compile(r);
                let b = self.compile(s);
                let nb = self.not(b);
                self.and(a, nb)
            }
            Star(r) => {
                let c = self.compile(r);
                self.star(c)
            }
            Plus(r) => {
                let c = self.compile(r);
                self.plus(c)
            }
            Opt(r) => {
                let c = self.compile(r);
                self.alt(&[c, EPS])
            }
            Repeat(r, n) => {
                let c = self.compile(r);
                self.pow(c, *n)
            }
            AtMost(r, n) => {
                let c = self.compile(r);
                let v: Vec<Id> = (0..=*n).map(|i| self.pow(c, i)).collect();
                self.alt(&v)
            }
            SepNeList(r, s) => {
                let (a, b) = (self.compile(r), self.compile(s));
                self.sep_ne(a, b)
            }
            SepList(r, s) => {
                let (a, b) = (self.compile(r), self.compile(s));
                let x = self.sep_ne(a, b);
                self.alt(&[EPS, x])
            }
            SepCat(l, s) => {
                let v: Vec<Id> = l.iter().map(|x| self.compile(x)).collect();
                let b = self.compile(s);
                self.sep_cat(&v, b)
            }
            SepRepeat(r, n, s) => {
                let (a, b) = (self.compile(r), self.compile(s));
                self.sep_cat(&vec![a; *n], b)
            }
            SepAtMost(r, n, s) => {
                let (a, b) = (self.compile(r), self.compile(s));
                let v: Vec<Id> = (0..=*n).map(|i| self.sep_cat(&vec![a; i], b)).collect();
                self.alt(&v)
            }
            Delimited(r, o, c) => {
                let (a, b, d) = (self.compile(r), self.compile(o), self.compile(c));
                self.cat_all(&[b, a, d])
            }
            MarkBytes(r, bytes, m) => {
                let c = self.compile(r);
                let mask = self.classes.set_of(|b| bytes.contains(&b));
                self.mark(mask, *m, c)
            }
            MarkFn(r, t) => {
                let mut c = self.compile(r);
                // disjoint byte sets: the order is irrelevant; group by marker
                let ms: BTreeSet<Marker> = t.iter().map(|x| x.1).collect();
                for m in ms {
                    let mask = self.classes.set_of(|b| t.iter().any(|(x, k)| *x == b && *k == m));
                    c = self.mark(mask, m, c);
                }
                c
            }
            ReplaceMarkers(r, t) => {
                let c = self.compile(r);
                self.remark(t, c)
            }
            SpacedCat(l) => {
                let v: Vec<Id> = l.iter().map(|x| self.compile(x)).collect();
                let b = self.blanks();
                self.sep_cat(&v, b)
            }
            SpacedNeList(r) => {
                let a = self.compile(r);
                let b = self.blanks();
                self.sep_ne(a, b)
            }
            SpacedList(r) => {
                let a = self.compile(r);
                let b = self.blanks();
                let x = self.sep_ne(a, b);
                self.alt(&[EPS, x])
            }
            SpacedTerminated(r, s) => {
                let (a, c) = (self.compile(r), self.compile(s));
                let b = self.blanks();
                self.cat_all(&[a, b, c])
            }
            SpacedDelimited(r, o, c) => {
                let (a, x, y) = (self.compile(r), self.compile(o), self.compile(c));
                let b = self.blanks();
                self.cat_all(&[x, b, a, b, y])
            }
            SpacedSepNeList(r, s) => {
                let (a, x) = (self.compile(r), self.compile(s));
                let b = self.blanks();
                let sep = self.cat_all(&[b, x, b]);
                self.sep_ne(a, sep)
            }
            SpacedSepList(r, s) => {
                let (a, x) = (self.compile(r), self.compile(s));
                let b = self.blanks();
                let sep = self.cat_all(&[b, x, b]);
                let y = self.sep_ne(a, sep);
                self.alt(&[EPS, y])
            }
            SpacedSepCat(l, s) => {
                let v: Vec<Id> = l.iter().map(|x| self.compile(x)).collect();
                let x = self.compile(s);
                let b = self.blanks();
                let sep = self.cat_all(&[b, x, b]);
                self.sep_cat(&v, sep)
            }
            SpacedRepeat(r, n) => {
                let a = self.compile(r);
                let b = self.blanks();
                self.sep_cat(&vec![a; *n], b)
            }
            SpacedAtMost(r, n) => {
                let a = self.compile(r);
                let b = self.blanks();
                let v: Vec<Id> = (0..=*n).map(|i| self.sep_cat(&vec![a; i], b)).collect();
                self.alt(&v)
            }
            SpacedSepRepeat(r, n, s) => {
                let (a, x) = (self.compile(r), self.compile(s));
                let b = self.blanks();
                let sep = self.cat_all(&[b, x, b]);
                self.sep_cat(&vec![a; *n], sep)
            }
            SpacedSepAtMost(r, n, s) => {
                let (a, x) = (self.compile(r), self.compile(s));
                let b = self.blanks();
                let sep = self.cat_all(&[b, x, b]);
                let v: Vec<Id> = (0..=*n).map(|i| self.sep_cat(&vec![a; i], sep)).collect();
                self.alt(&v)
            }
        }
    }

    pub fn is_nullable(&mut self, a: Id) -> bool {
        if let Some(b) = self.nullable[a as usize] {
            return b;
        }
        let r = match self.nodes[a as usize].clone() {
            Node::Empty | Node::Sym(_) => false,
            Node::Eps | Node::Star(_) => true,
            Node::Cat(x, y) => self.is_nullable(x) && self.is_nullable(y),
            Node::Alt(v) => v.iter().any(|x| self.is_nullable(*x)),
            Node::And(x, y) => self.is_nullable(x) && self.is_nullable(y),
            Node::Not(x) => !self.is_nullable(x),
            Node::Mark(_, _, x) | Node::Remark(_, x) => self.is_nullable(x),
        };
        self.nullable[a as usize] = Some(r);
        r
    }

    /// Brzozowski derivative with respect to the marked letter (class c, marker m).
    pub fn derive(&mut self, a: Id, l: Letter) -> Id {
        if let Some(r) = self.deriv.get(&(a, l)) {
            return *r;
        }
        let (c, m) = l;
        let r = match self.nodes[a as usize].clone() {
            Node::Empty | Node::Eps => EMPTY,
            Node::Sym(v) => {
                if v.contains(&l) {
                    EPS
                } else {
                    EMPTY
                }
            }
            Node::Cat(x, y) => {
                let dx = self.derive(x, l);
                let left = self.cat(dx, y);
                if self.is_nullable(x) {
                    let dy = self.derive(y, l);
                    self.alt(&[left, dy])
                } else {
                    left
                }
            }
            Node::Alt(v) => {
                let d: Vec<Id> = v.iter().map(|x| self.derive(*x, l)).collect();
                self.alt(&d)
            }
            Node::And(x, y) => {
                if m == 0 {
                    let (dx, dy) = (self.derive(x, l), self.derive(y, l));
                    self.and(dx, dy)
                } else {
                    let (dxm, dym) = (self.derive(x, l), self.derive(y, l));
                    let (dx0, dy0) = (self.derive(x, (c, 0)), self.derive(y, (c, 0)));
                    let t1 = self.and(dxm, dym);
                    let t2 = self.and(dxm, dy0);
                    let t3 = self.and(dx0, dym);
                    self.alt(&[t1, t2, t3])
                }
            }
            Node::Not(x) => {
                if m == 0 {
                    let dx = self.derive(x, l);
                    self.not(dx)
                } else {
                    EMPTY
                }
            }
            Node::Star(x) => {
                let dx = self.derive(x, l);
                self.cat(dx, a)
            }
            Node::Mark(mask, k, x) => {
                if mask >> c & 1 == 1 {
                    if m == k {
                        let ms = self.markers.clone();
                        let mut d = vec![];
                        for m2 in ms {
                            let dx = self.derive(x, (c, m2));
                            d.push(self.mark(mask, k, dx));
                        }
                        self.alt(&d)
                    } else {
                        EMPTY
                    }
                } else {
                    let dx = self.derive(x, l);
                    self.mark(mask, k, dx)
                }
            }
            Node::Remark(t, x) => {
                // markers m2 with upd(m2) == m
                let ms = self.markers.clone();
                let mut d = vec![];
                for m2 in ms {
                    let img = t.iter().find(|(a, _)| *a == m2).map(|(_, b)| *b).unwrap_or(m2);
                    if img == m {
                        let dx = self.derive(x, (c, m2));
                        d.push(self.remark(&t, dx));
                    }
                }
                self.alt(&d)
            }
        };
        self.deriv.insert((a, l), r);
        r
    }
}

// ---------------------------------------------------------------------------------------------
// the reference automaton
// ---------------------------------------------------------------------------------------------

#[derive(Clone, Debug)]
pub struct RefAut {
    pub classes: Classes,
    pub markers: Vec<Marker>,
    pub n: usize,
    /// delta[s][class][marker index]
    pub delta: Vec<Vec<Vec<u32>>>,
    pub nullable: Vec<bool>,
    pub live: Vec<bool>,
    /// Some((state, class, [markers])) = a live state reachable through live states in which one
    /// byte class has two live markers: the expression is not output-deterministic.
    pub non_od: Option<(u32, u8, Vec<Marker>)>,
    /// for output-deterministic automata: the unique live successor
    pub succ: Vec<Vec<Option<(Marker, u32)>>>,
    /// shortest accepted continuation from a live state: (class, marker, next)
    pub to_accept: Vec<Option<(u8, Marker, u32)>>,
    pub dist_accept: Vec<u32>,
}

pub const REF_STATE_CAP: usize = 4000;

impl RefAut {
    /// `Err(n)` if the derivative closure exceeded the cap (never expected).
    pub fn build(e: &RefExpr) -> Result<RefAut, usize> {
        let mut g = Engine::new(e);
        let root = g.compile(e);
        let nc = g.classes.n();
        let ms = g.markers.clone();
        let mut ids: Vec<Id> = vec![root];
        let mut num: HashMap<Id, u32> = HashMap::new();
        num.insert(root, 0);
        let mut delta: Vec<Vec<Vec<u32>>> = vec![];
        let mut i = 0;
        while i < ids.len() {
            let s = ids[i];
            let mut row = vec![vec![0u32; ms.len()]; nc];
            for c in 0..nc {
                for (mi, m) in ms.iter().enumerate() {
                    let d = g.derive(s, (c as u8, *m));
                    let k = match num.get(&d) {
                        Some(k) => *k,
                        None => {
                            let k = ids.len() as u32;
                            num.insert(d, k);
                            ids.push(d);
                            k
                        }
                    };
                    row[c][mi] = k;
                }
            }
            delta.push(row);
            i += 1;
            if ids.len() > REF_STATE_CAP {
                return Err(ids.len());
            }
        }
        let n = ids.len();
        let nullable: Vec<bool> = ids.iter().map(|s| g.is_nullable(*s)).collect();
        // co-accessibility (backward from nullable states) with distances
        let mut rev: Vec<Vec<(u32, u8, usize)>> = vec![vec![]; n];
        for s in 0..n {
            for c in 0..nc {
                for mi in 0..ms.len() {
                    rev[delta[s][c][mi] as usize].push((s as u32, c as u8, mi));
                }
            }
        }
        let mut dist = vec![u32::MAX; n];
        let mut to_accept: Vec<Option<(u8, Marker, u32)>> = vec![None; n];
        let mut queue: std::collections::VecDeque<u32> = Default::default();
        for s in 0..n {
            if nullable[s] {
                dist[s] = 0;
                queue.push_back(s as u32);
            }
        }
        while let Some(t) = queue.pop_front() {
            for (s, c, mi) in &rev[t as usize] {
                if dist[*s as usize] == u32::MAX {
                    dist[*s as usize] = dist[t as usize] + 1;
                    to_accept[*s as usize] = Some((*c, ms[*mi], t));
                    queue.push_back(*s);
                }
            }
        }
        let live: Vec<bool> = dist.iter().map(|d| *d != u32::MAX).collect();
        // output determinism on the part reachable through live states
        let mut succ: Vec<Vec<Option<(Marker, u32)>>> = vec![vec![None; nc]; n];
        let mut non_od = None;
        let mut seen = vec![false; n];
        let mut stack = vec![];
        if live[0] {
            stack.push(0u32);
            seen[0] = true;
        }
        while let Some(s) = stack.pop() {
            for c in 0..nc {
                let lm: Vec<(Marker, u32)> = (0..ms.len())
                    .filter(|mi| live[delta[s as usize][c][*mi] as usize])
                    .map(|mi| (ms[mi], delta[s as usize][c][mi]))
                    .collect();
                if lm.len() > 1 && non_od.is_none() {
                    non_od = Some((s, c as u8, lm.iter().map(|x| x.0).collect()));
                }
                if let Some(x) = lm.first() {
                    succ[s as usize][c] = Some(*x);
                }
                for (_, t) in lm {
                    if !seen[t as usize] {
                        seen[t as usize] = true;
                        stack.push(t);
                    }
                }
            }
        }
        Ok(RefAut {
            classes: g.classes.clone(),
            markers: ms,
            n,
            delta,
            nullable,
            live,
            non_od,
            succ,
            to_accept,
            dist_accept: dist,
        })
    }

    /// Runs the (output-deterministic) reference on a word: Some(markers) iff accepted.
    pub fn run(&self, w: &[u8]) -> Option<Vec<Marker>> {
        let mut s = 0u32;
        if !self.live[0] {
            return None;
        }
        let mut out = vec![];
        for b in w {
            let c = self.classes.of_byte[*b as usize] as usize;
            let (m, t) = self.succ[s as usize][c]?;
            out.push(m);
            s = t;
        }
        if self.nullable[s as usize] {
            Some(out)
        } else {
            None
        }
    }

    /// Shortest accepted continuation from a live state (bytes = class representatives).
    pub fn accept_suffix(&self, mut s: u32) -> (Vec<u8>, Vec<Marker>) {
        let (mut w, mut ms) = (vec![], vec![]);
        while self.dist_accept[s as usize] != 0 {
            let Some((c, m, t)) = self.to_accept[s as usize] else { break };
            w.push(self.classes.rep[c as usize]);
            ms.push(m);
            s = t;
        }
        (w, ms)
    }
}
