//! `RefExpr` — the checker's own AST mirroring the public combinators of
//! `midnight_circuits::parsing::regex::RegexInstructions`, with
//!  * `to_regex()`   : builds the real `Regex` through the public API only;
//!  * the reference semantics lives in `kern.rs`.

use midnight_circuits::parsing::regex::{Regex, RegexInstructions};

pub type Marker = usize;

#[derive(Clone, Debug, PartialEq, Eq, Hash, PartialOrd, Ord)]
pub enum RefExpr {
    /// `byte_from(l)`
    Bytes(Vec<u8>),
    /// `byte_not_from(l)`
    NotBytes(Vec<u8>),
    /// `any_byte()`
    AnyByte,
    /// `epsilon()`
    Eps,
    /// `union([])`
    Empty,
    /// `any()`
    Any,
    /// `word(w)`
    Word(Vec<u8>),
    /// `cat(l)`
    Cat(Vec<RefExpr>),
    /// `union(l)`
    Union(Vec<RefExpr>),
    /// `inter(l)`
    Inter(Vec<RefExpr>),
    /// `r.neg()`
    Neg(Box<RefExpr>),
    /// `r.minus(s)`
    Minus(Box<RefExpr>, Box<RefExpr>),
    /// `r.list()`
    Star(Box<RefExpr>),
    /// `r.non_empty_list()`
    Plus(Box<RefExpr>),
    /// `r.optional()`
    Opt(Box<RefExpr>),
    /// `r.repeat(n)`
    Repeat(Box<RefExpr>, usize),
    /// `r.repeat_at_most(n)`
    AtMost(Box<RefExpr>, usize),
    /// `r.separated_list(sep)`
    SepList(Box<RefExpr>, Box<RefExpr>),
    /// `r.separated_non_empty_list(sep)`
    SepNeList(Box<RefExpr>, Box<RefExpr>),
    /// `separated_cat(l, sep)`
    SepCat(Vec<RefExpr>, Box<RefExpr>),
    /// `r.separated_repeat(n, sep)`
    SepRepeat(Box<RefExpr>, usize, Box<RefExpr>),
    /// `r.separated_repeat_at_most(n, sep)`
    SepAtMost(Box<RefExpr>, usize, Box<RefExpr>),
    /// `r.delimited(open, close)`
    Delimited(Box<RefExpr>, Box<RefExpr>, Box<RefExpr>),
    /// `r.mark_bytes(bytes, m)`
    MarkBytes(Box<RefExpr>, Vec<u8>, Marker),
    /// `r.mark(f)` with f(b) = Some(m) for (b, m) in the table, None otherwise
    MarkFn(Box<RefExpr>, Vec<(u8, Marker)>),
    /// `r.replace_markers(upd)` with upd(m) = Some(m') for (m, m') in the table
    ReplaceMarkers(Box<RefExpr>, Vec<(Marker, Marker)>),
    /// `blanks()` / `blanks_strict()` / `one_blank()`
    Blanks,
    BlanksStrict,
    OneBlank,
    /// `spaced_cat(l)`
    SpacedCat(Vec<RefExpr>),
    /// `r.spaced_list()`
    SpacedList(Box<RefExpr>),
    /// `r.spaced_non_empty_list()`
    SpacedNeList(Box<RefExpr>),
    /// `r.spaced_terminated(s)`
    SpacedTerminated(Box<RefExpr>, Box<RefExpr>),
    /// `r.spaced_delimited(open, close)`
    SpacedDelimited(Box<RefExpr>, Box<RefExpr>, Box<RefExpr>),
    /// `r.spaced_separated_list(sep)`
    SpacedSepList(Box<RefExpr>, Box<RefExpr>),
    /// `r.spaced_separated_non_empty_list(sep)`
    SpacedSepNeList(Box<RefExpr>, Box<RefExpr>),
    /// `spaced_separated_cat(l, sep)`
    SpacedSepCat(Vec<RefExpr>, Box<RefExpr>),
    /// `r.spaced_repeat(n)`
    SpacedRepeat(Box<RefExpr>, usize),
    /// `r.spaced_repeat_at_most(n)`
    SpacedAtMost(Box<RefExpr>, usize),
    /// `r.spaced_separated_repeat(n, sep)`
    SpacedSepRepeat(Box<RefExpr>, usize, Box<RefExpr>),
    /// `r.spaced_separated_repeat_at_most(n, sep)`
    SpacedSepAtMost(Box<RefExpr>, usize, Box<RefExpr>),
    /// `digit()`
    Digit,
    /// `utf8_cps()`
    Utf8Cps,
    /// `utf8()`
    Utf8,
    /// `json_string()`
    JsonString,
}

pub const BLANKS: [u8; 3] = [b' ', b'\t', b'\n'];

fn show_bytes(v: &[u8]) -> String {
    v.iter()
        .map(|b| if b.is_ascii_alphanumeric() { (*b as char).to_string() } else { format!("\\x{b:02x}") })
        .collect::<Vec<_>>()
        .join("")
}

fn list(v: &[RefExpr]) -> String {
    v.iter().map(|e| e.show()).collect::<Vec<_>>().join(",")
}

impl RefExpr {
    pub fn byte(b: u8) -> RefExpr {
        RefExpr::Bytes(vec![b])
    }
    pub fn marked(b: u8, m: Marker) -> RefExpr {
        RefExpr::MarkBytes(Box::new(RefExpr::byte(b)), vec![b], m)
    }

    /// Name of the top-level combinator (used in finding keys).
    pub fn top(&self) -> &'static str {
        use RefExpr::*;
        match self {
            Bytes(_) => "byte_from",
            NotBytes(_) => "byte_not_from",
            AnyByte => "any_byte",
            Eps => "epsilon",
            Empty => "empty",
            Any => "any",
            Word(_) => "word",
            Cat(_) => "cat",
            Union(_) => "union",
            Inter(_) => "inter",
            Neg(_) => "neg",
            Minus(..) => "minus",
            Star(_) => "list",
            Plus(_) => "non_empty_list",
            Opt(_) => "optional",
            Repeat(..) => "repeat",
            AtMost(..) => "repeat_at_most",
            SepList(..) => "separated_list",
            SepNeList(..) => "separated_non_empty_list",
            SepCat(..) => "separated_cat",
            SepRepeat(..) => "separated_repeat",
            SepAtMost(..) => "separated_repeat_at_most",
            Delimited(..) => "delimited",
            MarkBytes(..) => "mark_bytes",
            MarkFn(..) => "mark",
            ReplaceMarkers(..) => "replace_markers",
            Blanks => "blanks",
            BlanksStrict => "blanks_strict",
            OneBlank => "one_blank",
            SpacedCat(_) => "spaced_cat",
            SpacedList(_) => "spaced_list",
            SpacedNeList(_) => "spaced_non_empty_list",
            SpacedTerminated(..) => "spaced_terminated",
            SpacedDelimited(..) => "spaced_delimited",
            SpacedSepList(..) => "spaced_separated_list",
            SpacedSepNeList(..) => "spaced_separated_non_empty_list",
            SpacedSepCat(..) => "spaced_separated_cat",
            SpacedRepeat(..) => "spaced_repeat",
            SpacedAtMost(..) => "spaced_repeat_at_most",
            SpacedSepRepeat(..) => "spaced_separated_repeat",
            SpacedSepAtMost(..) => "spaced_separated_repeat_at_most",
            Digit => "digit",
            Utf8Cps => "utf8_cps",
            Utf8 => "utf8",
            JsonString => "json_string",
        }
    }

    /// Canonical compact rendering (case keys, finding details).
    pub fn show(&self) -> String {
        use RefExpr::*;
        match self {
            Bytes(v) if v.len() == 1 => show_bytes(v),
            Bytes(v) => format!("[{}]", show_bytes(v)),
            NotBytes(v) => format!("[^{}]", show_bytes(v)),
            AnyByte => ".".into(),
            Eps => "eps".into(),
            Empty => "empty".into(),
            Any => "any".into(),
            Word(w) => format!("\"{}\"", show_bytes(w)),
            Cat(l) => format!("cat({})", list(l)),
            Union(l) => format!("union({})", list(l)),
            Inter(l) => format!("inter({})", list(l)),
            Neg(r) => format!("neg({})", r.show()),
            Minus(r, s) => format!("minus({},{})", r.show(), s.show()),
            Star(r) => format!("list({})", r.show()),
            Plus(r) => format!("nelist({})", r.show()),
            Opt(r) => format!("opt({})", r.show()),
            Repeat(r, n) => format!("rep{n}({})", r.show()),
            AtMost(r, n) => format!("atmost{n}({})", r.show()),
            SepList(r, s) => format!("seplist({},{})", r.show(), s.show()),
            SepNeList(r, s) => format!("sepnelist({},{})", r.show(), s.show()),
            SepCat(l, s) => format!("sepcat([{}],{})", list(l), s.show()),
            SepRepeat(r, n, s) => format!("seprep{n}({},{})", r.show(), s.show()),
            SepAtMost(r, n, s) => format!("sepatmost{n}({},{})", r.show(), s.show()),
            Delimited(r, o, c) => format!("delim({},{},{})", r.show(), o.show(), c.show()),
            MarkBytes(r, b, m) => match &**r {
                Bytes(v) if v == b && v.len() == 1 => format!("{}@{m}", show_bytes(v)),
                _ => format!("mark({},[{}]->{m})", r.show(), show_bytes(b)),
            },
            MarkFn(r, t) => format!(
                "markfn({},{{{}}})",
                r.show(),
                t.iter().map(|(b, m)| format!("{}->{m}", show_bytes(&[*b]))).collect::<Vec<_>>().join(",")
            ),
            ReplaceMarkers(r, t) => format!(
                "remark({},{{{}}})",
                r.show(),
                t.iter().map(|(a, b)| format!("{a}->{b}")).collect::<Vec<_>>().join(",")
            ),
            Blanks => "blanks".into(),
            BlanksStrict => "blanks1".into(),
            OneBlank => "blank".into(),
            SpacedCat(l) => format!("spcat({})", list(l)),
            SpacedList(r) => format!("splist({})", r.show()),
            SpacedNeList(r) => format!("spnelist({})", r.show()),
            SpacedTerminated(r, s) => format!("spterm({},{})", r.show(), s.show()),
            SpacedDelimited(r, o, c) => format!("spdelim({},{},{})", r.show(), o.show(), c.show()),
            SpacedSepList(r, s) => format!("spseplist({},{})", r.show(), s.show()),
            SpacedSepNeList(r, s) => format!("spsepnelist({},{})", r.show(), s.show()),
            SpacedSepCat(l, s) => format!("spsepcat([{}],{})", list(l), s.show()),
            SpacedRepeat(r, n) => format!("sprep{n}({})", r.show()),
            SpacedAtMost(r, n) => format!("spatmost{n}({})", r.show()),
            SpacedSepRepeat(r, n, s) => format!("spseprep{n}({},{})", r.show(), s.show()),
            SpacedSepAtMost(r, n, s) => format!("spsepatmost{n}({},{})", r.show(), s.show()),
            Digit => "digit".into(),
            Utf8Cps => "utf8_cps".into(),
            Utf8 => "utf8".into(),
            JsonString => "json_string".into(),
        }
    }

    pub fn children(&self) -> Vec<&RefExpr> {
        use RefExpr::*;
        match self {
            Bytes(_) | NotBytes(_) | AnyByte | Eps | Empty | Any | Word(_) | Blanks | BlanksStrict | OneBlank | Digit | Utf8Cps | Utf8 | JsonString => vec![],
            Cat(l) | Union(l) | Inter(l) | SpacedCat(l) => l.iter().collect(),
            Neg(r) | Star(r) | Plus(r) | Opt(r) | Repeat(r, _) | AtMost(r, _) | MarkBytes(r, ..) | MarkFn(r, _)
            | ReplaceMarkers(r, _) | SpacedList(r) | SpacedNeList(r) | SpacedRepeat(r, _) | SpacedAtMost(r, _) => vec![r],
            Minus(r, s) | SepList(r, s) | SepNeList(r, s) | SepRepeat(r, _, s) | SepAtMost(r, _, s) | SpacedTerminated(r, s)
            | SpacedSepList(r, s) | SpacedSepNeList(r, s) | SpacedSepRepeat(r, _, s) | SpacedSepAtMost(r, _, s) => vec![r, s],
            SepCat(l, s) | SpacedSepCat(l, s) => l.iter().chain(std::iter::once(&**s)).collect(),
            Delimited(r, o, c) | SpacedDelimited(r, o, c) => vec![r, o, c],
        }
    }

    pub fn depth(&self) -> usize {
        let c = self.children();
        if c.is_empty() {
            return 0;
        }
        // an atom `a@1` counts as depth 0
        if let RefExpr::MarkBytes(r, b, _) = self {
            if let RefExpr::Bytes(v) = &**r {
                if v == b {
                    return 0;
                }
            }
        }
        1 + c.iter().map(|e| e.depth()).max().unwrap()
    }

    pub fn size(&self) -> usize {
        1 + self.children().iter().map(|e| e.size()).sum::<usize>()
    }

    /// Builds the real `Regex` through the public API.
    pub fn to_regex(&self) -> Regex {
        use RefExpr::*;
        let v = |l: &Vec<RefExpr>| l.iter().map(|e| e.to_regex()).collect::<Vec<_>>();
        match self {
            Bytes(b) => Regex::byte_from(b.iter().copied()),
            NotBytes(b) => Regex::byte_not_from(b.iter().copied()),
            AnyByte => Regex::any_byte(),
            Eps => Regex::epsilon(),
            Empty => Regex::union(Vec::<Regex>::new()),
            Any => Regex::any(),
            Word(w) => Regex::word(std::str::from_utf8(w).expect("ascii word")),
            Cat(l) => Regex::cat(v(l)),
            Union(l) => Regex::union(v(l)),
            Inter(l) => Regex::inter(v(l)),
            Neg(r) => r.to_regex().neg(),
            Minus(r, s) => r.to_regex().minus(s.to_regex()),
            Star(r) => r.to_regex().list(),
            Plus(r) => r.to_regex().non_empty_list(),
            Opt(r) => r.to_regex().optional(),
            Repeat(r, n) => r.to_regex().repeat(*n),
            AtMost(r, n) => r.to_regex().repeat_at_most(*n),
            SepList(r, s) => r.to_regex().separated_list(s.to_regex()),
            SepNeList(r, s) => r.to_regex().separated_non_empty_list(s.to_regex()),
            SepCat(l, s) => Regex::separated_cat(v(l), s.to_regex()),
            SepRepeat(r, n, s) => r.to_regex().separated_repeat(*n, s.to_regex()),
            SepAtMost(r, n, s) => r.to_regex().separated_repeat_at_most(*n, s.to_regex()),
            Delimited(r, o, c) => r.to_regex().delimited(o.to_regex(), c.to_regex()),
            MarkBytes(r, b, m) => r.to_regex().mark_bytes(b.iter().copied(), *m),
            MarkFn(r, t) => {
                let t = t.clone();
                r.to_regex().mark(&move |b| t.iter().find(|(x, _)| *x == b).map(|(_, m)| *m))
            }
            ReplaceMarkers(r, t) => {
                let t = t.clone();
                r.to_regex().replace_markers(&move |m| t.iter().find(|(x, _)| *x == m).map(|(_, y)| *y))
            }
            Blanks => Regex::blanks(),
            BlanksStrict => Regex::blanks_strict(),
            OneBlank => Regex::one_blank(),
            SpacedCat(l) => Regex::spaced_cat(v(l)),
            SpacedList(r) => r.to_regex().spaced_list(),
            SpacedNeList(r) => r.to_regex().spaced_non_empty_list(),
            SpacedTerminated(r, s) => r.to_regex().spaced_terminated(s.to_regex()),
            SpacedDelimited(r, o, c) => r.to_regex().spaced_delimited(o.to_regex(), c.to_regex()),
            SpacedSepList(r, s) => r.to_regex().spaced_separated_list(s.to_regex()),
            SpacedSepNeList(r, s) => r.to_regex().spaced_separated_non_empty_list(s.to_regex()),
            SpacedSepCat(l, s) => Regex::spaced_separated_cat(v(l), s.to_regex()),
            SpacedRepeat(r, n) => r.to_regex().spaced_repeat(*n),
            SpacedAtMost(r, n) => r.to_regex().spaced_repeat_at_most(*n),
            SpacedSepRepeat(r, n, s) => r.to_regex().spaced_separated_repeat(*n, s.to_regex()),
            SpacedSepAtMost(r, n, s) => r.to_regex().spaced_separated_repeat_at_most(*n, s.to_regex()),
            Digit => Regex::digit(),
            Utf8Cps => Regex::utf8_cps(),
            Utf8 => Regex::utf8(),
            JsonString => Regex::json_string(),
        }
    }
}

/// The *documented* meaning of the derived combinators `utf8_cps`, `utf8` and `json_string`
/// (doc comments of `RegexInstructions`), written with the primitive combinators.
pub fn desugar(e: &RefExpr) -> RefExpr {
    use RefExpr::*;
    let r = |a: u8, b: u8| Bytes((a..=b).collect());
    let cont = || r(0x80, 0xBF);
    let cps = |ascii: RefExpr| {
        Union(vec![
            ascii,
            Cat(vec![r(0xC2, 0xDF), cont()]),
            Cat(vec![RefExpr::byte(0xE0), r(0xA0, 0xBF), cont()]),
            Cat(vec![Bytes((0xE1..=0xEC).chain(0xEE..=0xEF).collect()), cont(), cont()]),
            Cat(vec![RefExpr::byte(0xED), r(0x80, 0x9F), cont()]),
            Cat(vec![RefExpr::byte(0xF0), r(0x90, 0xBF), cont(), cont()]),
            Cat(vec![r(0xF1, 0xF3), cont(), cont(), cont()]),
            Cat(vec![RefExpr::byte(0xF4), r(0x80, 0x8F), cont(), cont()]),
        ])
    };
    match e {
        Utf8Cps => cps(r(0x00, 0x7F)),
        Utf8 => Star(Box::new(cps(r(0x00, 0x7F)))),
        JsonString => {
            // 0x22 ( [0x20-0x21] | [0x23-0x5B] | [0x5D-0x10FFFF] | \\["\\/bfnrt] | \\u[0-9a-fA-F]{4} )* 0x22,
            // code points in UTF-8, quoted content marked 1
            let unescaped = cps(Bytes((0x20..=0x7Fu8).filter(|b| *b != b'"' && *b != b'\\').collect()));
            let simple = Cat(vec![RefExpr::byte(b'\\'), Bytes(b"\"\\/bfnrt".to_vec())]);
            let hex = Bytes((b'0'..=b'9').chain(b'a'..=b'f').chain(b'A'..=b'F').collect());
            let uni = Cat(vec![RefExpr::byte(b'\\'), RefExpr::byte(b'u'), hex.clone(), hex.clone(), hex.clone(), hex]);
            let content = Star(Box::new(Union(vec![unescaped, simple, uni])));
            let marked = MarkFn(Box::new(content), (0..=255u8).map(|b| (b, 1)).collect());
            Cat(vec![RefExpr::byte(b'"'), marked, RefExpr::byte(b'"')])
        }
        _ => e.clone(),
    }
}

