//! The harness circuit: the same chips and column sharing as `ZkStdLib::configure` (native chip,
//! pow2range, decomposition, base64, automaton), but with an automaton chosen by the check
//! (through the circuit parameters) instead of the shipped parsing library.

use std::cell::RefCell;

use midnight_circuits::{
    field::{
        decomposition::{
            chip::{P2RDecompositionChip, P2RDecompositionConfig},
            pow2range::Pow2RangeChip,
        },
        native::{NB_ARITH_COLS, NB_ARITH_FIXED_COLS},
        NativeChip, NativeGadget,
    },
    instructions::{base64::Base64VarInstructions, AssertionInstructions, AssignmentInstructions, PublicInputInstructions, VectorInstructions},
    parsing::{
        automaton_chip::{AutomatonChip, AutomatonConfig, NB_AUTOMATA_COLS},
        spec_library, Base64Chip, Base64Config, NB_BASE64_ADVICE_COLS,
    },
    types::{AssignedByte, AssignedNative, AssignedVector, ComposableChip, InnerValue},
    vec::vector_gadget::VectorGadget,
};
use midnight_proofs::{
    circuit::{Layouter, SimpleFloorPlanner, Value},
    dev::MockProver,
    plonk::{Advice, Circuit, Column, ConstraintSystem, Error},
    verif::{self, Fault, Mode},
};
use vcore::catch;

use crate::refx::RefExpr;

pub type F = midnight_curves::Fq;
type NG = NativeGadget<F, P2RDecompositionChip<F>, NativeChip<F>>;

/// Which automaton the circuit is configured with.
#[derive(Clone, Debug, Default)]
pub enum ASpec {
    #[default]
    None,
    Expr(RefExpr),
    /// the shipped, deserialised JWT automaton
    Jwt,
    /// a library of several automata (keys 0..n); the word is parsed with automaton `.1`
    Multi(Vec<RefExpr>, usize),
}

pub const VAR_M: usize = 32;
pub const VAR_M_OUT: usize = 24;

#[derive(Clone, Debug)]
pub enum Job {
    /// parse the word; every letter and then every marker is constrained as a public input
    Parse(Vec<u8>),
    /// variable-length base64 decoding (capacity 32 -> 24). `filler`: None = `assign_var_base64`,
    /// Some(f) = `assign_with_filler(.., Some(f))` followed by `base64_from_vec`.
    B64Var {
        input: Vec<u8>,
        url: bool,
        filler: Option<u8>,
        /// None: the output is left unconstrained
        expected: Option<Vec<u8>>,
    },
}

#[derive(Clone, Debug)]
pub struct HCircuit {
    pub spec: ASpec,
    pub job: Job,
}

#[derive(Clone, Debug)]
pub struct HConfig {
    dec: P2RDecompositionConfig,
    b64: Option<Base64Config>,
    aut: Option<AutomatonConfig<usize, F>>,
}

thread_local! {
    /// values observed during synthesis (markers / decoded payload)
    static OBSERVED: RefCell<Vec<Option<F>>> = const { RefCell::new(vec![]) };
}

fn observe(v: &AssignedNative<F>) {
    let mut x = None;
    v.value().map(|y| x = Some(*y));
    OBSERVED.with(|o| o.borrow_mut().push(x));
}

impl Circuit<F> for HCircuit {
    type Config = HConfig;
    type FloorPlanner = SimpleFloorPlanner;
    type Params = ASpec;

    fn without_witnesses(&self) -> Self {
        self.clone()
    }

    fn params(&self) -> ASpec {
        self.spec.clone()
    }

    fn configure(_: &mut ConstraintSystem<F>) -> HConfig {
        unreachable!("configured through configure_with_params")
    }

    fn configure_with_params(meta: &mut ConstraintSystem<F>, spec: ASpec) -> HConfig {
        let advice: Vec<Column<Advice>> = (0..NB_ARITH_COLS).map(|_| meta.advice_column()).collect();
        let fixed: Vec<_> = (0..NB_ARITH_FIXED_COLS).map(|_| meta.fixed_column()).collect();
        let committed_instance = meta.instance_column();
        let instance = meta.instance_column();
        let native_config = NativeChip::<F>::configure(
            meta,
            &(advice[..NB_ARITH_COLS].try_into().unwrap(), fixed[..NB_ARITH_FIXED_COLS].try_into().unwrap(), [committed_instance, instance]),
        );
        let p2r = Pow2RangeChip::<F>::configure(meta, &advice[1..=4]);
        let dec = P2RDecompositionChip::<F>::configure(meta, &(native_config, p2r));
        // like ZkStdLib: a chip is only configured if it is used (ASpec::None = the base64 jobs)
        let b64 = matches!(spec, ASpec::None).then(|| Base64Chip::<F>::configure(meta, &advice[..NB_BASE64_ADVICE_COLS].try_into().unwrap()));
        let cols: [Column<Advice>; NB_AUTOMATA_COLS] = advice[..NB_AUTOMATA_COLS].try_into().unwrap();
        let aut = match spec {
            ASpec::None => None,
            ASpec::Expr(e) => Some(AutomatonChip::<usize, F>::configure(meta, &(cols, std::iter::once((0usize, e.to_regex().to_automaton())).collect()))),
            ASpec::Jwt => Some(AutomatonChip::<usize, F>::configure(meta, &(cols, spec_library().into_iter().map(|(_, a)| (0usize, a)).collect()))),
            ASpec::Multi(es, _) => Some(AutomatonChip::<usize, F>::configure(meta, &(cols, es.iter().enumerate().map(|(i, e)| (i, e.to_regex().to_automaton())).collect()))),
        };
        HConfig { dec, b64, aut }
    }

    fn synthesize(&self, config: HConfig, mut layouter: impl Layouter<F>) -> Result<(), Error> {
        let native = NativeChip::<F>::new(&config.dec.native_config(), &());
        let dec = P2RDecompositionChip::<F>::new(&config.dec, &8usize);
        let ng: NG = NativeGadget::new(dec.clone(), native);
        let b64 = config.b64.as_ref().map(|c| Base64Chip::<F>::new(c, &ng));
        let aut = config.aut.as_ref().map(|c| AutomatonChip::<usize, F>::new(c, &ng));
        let l = &mut layouter;
        match &self.job {
            Job::Parse(word) => {
                let chip = aut.as_ref().expect("automaton configured");
                let vals: Vec<Value<u8>> = word.iter().map(|b| Value::known(*b)).collect();
                let input: Vec<AssignedByte<F>> = ng.assign_many(l, &vals)?;
                // the statement is (word, markers): both are public
                for b in &input {
                    ng.constrain_as_public_input(l, b)?;
                }
                let which = match &self.spec {
                    ASpec::Multi(_, w) => *w,
                    _ => 0usize,
                };
                let markers = chip.parse(l, &which, &input)?;
                for m in &markers {
                    observe(m);
                    ng.constrain_as_public_input(l, m)?;
                }
                chip.load(l)?;
            }
            Job::B64Var { input, url, filler, expected } => {
                let b64 = b64.as_ref().expect("base64 configured");
                let vg = VectorGadget::<F>::new(&ng);
                let v = match filler {
                    None => <Base64Chip<F> as Base64VarInstructions<F, VAR_M, 4>>::assign_var_base64(b64, l, Value::known(input.clone()))?,
                    Some(f) => {
                        let raw: AssignedVector<F, AssignedByte<F>, VAR_M, 4> = vg.assign_with_filler(l, Value::known(input.clone()), Some(*f))?;
                        b64.base64_from_vec(l, &raw)?
                    }
                };
                let out: AssignedVector<F, AssignedByte<F>, VAR_M_OUT, 3> =
                    if *url { b64.var_decode_base64url(l, &v)? } else { b64.var_decode_base64(l, &v)? };
                let mut seen = None;
                if input.len() % 4 == 0 {
                    out.value().map(|p| seen = Some(p));
                }
                OBSERVED.with(|o| {
                    let mut o = o.borrow_mut();
                    if let Some(p) = seen {
                        o.extend(p.into_iter().map(|b| Some(F::from(b as u64))));
                    }
                });
                if let Some(exp) = expected {
                    vg.assert_equal_to_fixed(l, &out, exp.clone())?;
                }
                b64.load(l)?;
            }
        }
        dec.load(l)
    }
}

#[derive(Clone, Debug, PartialEq)]
pub enum Outcome {
    Sat,
    Unsat(String),
    SynthErr(String),
    Panic(String),
}

impl Outcome {
    pub fn name(&self) -> &'static str {
        match self {
            Outcome::Sat => "sat",
            Outcome::Unsat(_) => "unsat",
            Outcome::SynthErr(_) => "synth-err",
            Outcome::Panic(_) => "crash",
        }
    }
    pub fn is_sat(&self) -> bool {
        *self == Outcome::Sat
    }
}

pub struct Run {
    pub outcome: Outcome,
    /// values observed by the honest synthesis (markers / decoded payload)
    pub observed: Vec<Option<F>>,
    pub n_assign: u64,
    pub fired: Option<bool>,
    pub prover: Option<MockProver<F>>,
}

/// One MockProver run; `instance` is the content of the plain instance column.
pub fn run(c: &HCircuit, k: u32, instance: Vec<F>, plan: Vec<(u64, Fault, Mode)>, keep: bool) -> Run {
    OBSERVED.with(|o| o.borrow_mut().clear());
    verif::set_plan(plan);
    let r = catch(|| MockProver::run(k, c, vec![vec![], instance]));
    let (n_assign, _) = verif::counters();
    let fired = verif::applied().first().map(|a| a.changed);
    verif::reset();
    let observed = OBSERVED.with(|o| std::mem::take(&mut *o.borrow_mut()));
    let mut out = Run { outcome: Outcome::Sat, observed, n_assign, fired, prover: None };
    match r {
        Err(p) => out.outcome = Outcome::Panic(p),
        Ok(Err(e)) => out.outcome = Outcome::SynthErr(format!("{e:?}")),
        Ok(Ok(prover)) => {
            match catch(|| prover.verify()) {
                Err(p) => out.outcome = Outcome::Panic(format!("verify: {p}")),
                Ok(Err(errs)) => {
                    let s: Vec<String> = errs.iter().take(2).map(|e| format!("{e:?}").split_whitespace().collect::<Vec<_>>().join(" ").chars().take(160).collect()).collect();
                    out.outcome = Outcome::Unsat(s.join(" | "))
                }
                Ok(Ok(())) => {}
            }
            if keep {
                out.prover = Some(prover);
            }
        }
    }
    out
}

/// Smallest k that is certainly enough for an automaton with `table_rows` lookup rows and a word
/// of `len` letters (pow2range table for 8 bits: 2^9 rows; base64 table: 4096 rows).
pub fn k_for(table_rows: usize, len: usize, base64: bool) -> u32 {
    let need = (table_rows + 64).max(600).max(8 * len + 200).max(if base64 { 4096 + 64 } else { 0 });
    let mut k = 9;
    while (1usize << k) < need + 16 {
        k += 1;
    }
    k
}

pub fn is_not_enough_rows(o: &Outcome) -> bool {
    match o {
        Outcome::SynthErr(e) => e.contains("NotEnoughRows"),
        Outcome::Panic(e) => e.contains("NotEnoughRows") || e.contains("not enough rows"),
        _ => false,
    }
}


/// The content of the automaton lookup table as laid out in the fixed columns of a finished
/// MockProver run: the set of (source, letter, target, marker) rows (as u64; None if some entry
/// does not fit or the lookup cannot be located).
pub fn automaton_table(prover: &MockProver<F>) -> Option<std::collections::BTreeSet<[u64; 4]>> {
    use midnight_proofs::{dev::CellValue, plonk::Expression};
    let cs = prover.cs();
    let lk = cs.lookups().iter().find(|l| l.name() == "automaton transition check")?;
    let cols: Vec<usize> = lk
        .table_expressions()
        .iter()
        .map(|e| match e {
            Expression::Fixed(q) => Some(q.column_index()),
            _ => None,
        })
        .collect::<Option<Vec<_>>>()?;
    if cols.len() != 4 {
        return None;
    }
    let mut rows = std::collections::BTreeSet::new();
    for r in prover.usable_rows().clone() {
        let mut t = [0u64; 4];
        for (j, c) in cols.iter().enumerate() {
            match prover.fixed()[*c][r] {
                CellValue::Assigned(v) => {
                    let b = vgad::val::to_big(&v);
                    let d = b.to_u64_digits();
                    if d.len() > 1 {
                        return None;
                    }
                    t[j] = d.first().copied().unwrap_or(0);
                }
                _ => return None,
            }
        }
        rows.insert(t);
    }
    Some(rows)
}
