//! Specifications written as `RefExpr`:
//!  * a transcription of the private `spec_jwt()` of circuits/src/parsing/specs.rs (the library
//!    does not export the spec source; `verif-hooks` has no re-export for it),
//!  * the two hard-coded test automata of automaton_chip.rs (`#[cfg(test)]` in the repository),
//!  * the repository's regex / automaton unit-test expressions,
//!  * one instance of every remaining public combinator ("extras").

use crate::refx::{Marker, RefExpr};
use RefExpr::*;

fn bx(e: RefExpr) -> Box<RefExpr> {
    Box::new(e)
}
fn w(s: &str) -> RefExpr {
    Word(s.as_bytes().to_vec())
}

/// Transcription of `spec_jwt()`.
pub fn jwt_spec() -> RefExpr {
    let string = |marker: Marker| -> RefExpr { ReplaceMarkers(bx(JsonString), vec![(1, marker)]) };
    let field = |name: &str, content: RefExpr| -> RefExpr { SpacedCat(vec![w(&format!("\"{name}\"")), w(":"), content]) };
    let string_field = |name: &str, marker: Marker| -> RefExpr { field(name, string(marker)) };
    let int_field = |name: &str| -> RefExpr { field(name, Plus(bx(Digit))) };
    let collec = |opening: &str, items: Vec<RefExpr>, closing: &str| -> RefExpr {
        SpacedDelimited(bx(SpacedSepCat(items, bx(w(",")))), bx(w(opening)), bx(w(closing)))
    };
    let string_list = SpacedDelimited(bx(SpacedSepList(bx(string(0)), bx(w(",")))), bx(w("[")), bx(w("]")));
    let credential_schema = field(
        "credentialSchema",
        SpacedDelimited(
            bx(SpacedSepList(bx(collec("{", vec![string_field("id", 0), string_field("type", 0)], "}")), bx(w(",")))),
            bx(w("[")),
            bx(w("]")),
        ),
    );
    let public_key_jwk = field(
        "publicKeyJwk",
        collec("{", vec![string_field("kty", 0), string_field("crv", 0), string_field("x", 5), string_field("y", 6)], "}"),
    );
    let credential_subject = field(
        "credentialSubject",
        collec(
            "{",
            vec![
                string_field("nationalId", 1),
                string_field("familyName", 2),
                string_field("givenName", 3),
                public_key_jwk,
                string_field("id", 0),
                string_field("birthDate", 4),
            ],
            "}",
        ),
    );
    let issuer = field(
        "issuer",
        Union(vec![
            string(0),
            collec("{", vec![string_field("id", 0), string_field("type", 0)], "}"),
            collec("{", vec![string_field("id", 0)], "}"),
        ]),
    );
    let credential_status = field(
        "credentialStatus",
        collec(
            "{",
            vec![
                string_field("statusPurpose", 0),
                int_field("statusListIndex"),
                string_field("id", 0),
                string_field("type", 0),
                string_field("statusListCredential", 0),
            ],
            "}",
        ),
    );
    collec(
        "{",
        vec![
            string_field("iss", 0),
            string_field("sub", 0),
            int_field("nbf"),
            int_field("exp"),
            field(
                "vc",
                collec(
                    "{",
                    vec![
                        Union(vec![credential_subject.clone(), SpacedCat(vec![credential_schema, w(","), credential_subject])]),
                        field("type", string_list.clone()),
                        field("@context", string_list),
                        issuer,
                        credential_status,
                    ],
                    "}",
                ),
            ),
        ],
        "}",
    )
}

/// `Automaton::hard_coded_example0()` of automaton_chip.rs.
pub fn hard0() -> RefExpr {
    let hellos = SepNeList(bx(w("hello")), bx(BlanksStrict));
    let worlds = SepNeList(bx(w("world")), bx(Cat(vec![Blanks, w(","), Blanks])));
    let marks5 = Repeat(bx(w("!")), 5);
    let trail = Star(bx(Minus(bx(AnyByte), bx(w("!")))));
    SepCat(
        vec![
            Cat(vec![hellos, OneBlank]),
            Delimited(bx(Delimited(bx(worlds), bx(Blanks), bx(Blanks))), bx(w("(")), bx(w(")"))),
            marks5,
            trail,
        ],
        bx(Blanks),
    )
}

/// `Automaton::hard_coded_example1()` of automaton_chip.rs.
pub fn hard1() -> RefExpr {
    let table: Vec<(u8, Marker)> = (0..=255u8)
        .filter_map(|b| if b == b'l' { Some((b, 2)) } else if !b"h\n\t ".contains(&b) { Some((b, 1)) } else { None })
        .collect();
    let marker_regex = Star(bx(MarkFn(bx(AnyByte), table)));
    let holy = Cat(vec![w("holy"), Star(bx(w("y")))]);
    let sentence = SepCat(vec![holy, w("hell"), Plus(bx(w("!")))], bx(BlanksStrict));
    Inter(vec![sentence, marker_regex])
}

/// (input, expected markers or None for "must be rejected") of the repository's `parsing_test`.
pub fn hard_vectors(i: usize) -> Vec<(&'static str, Option<Vec<Marker>>)> {
    if i == 0 {
        let ok = |s: &'static str| (s, Some(vec![0; s.len()]));
        vec![
            ok("hello (world)!!!!!"),
            ok("hello (world)!!!!!oipdsfihs32,;'p'';@"),
            ok("hello (world)  !!!!!"),
            ok("hello (world  )!!!!!"),
            ok("hello (  world)!!!!!"),
            ok("hello  hello hello  (world , world ) !!!!!"),
            ok("hello   hello  hello ( world,world  , world )!!!!!"),
            ("hello (world)!!!!", None),
            ("hello (world)!!!!!!", None),
            ("hello world)!!!!!", None),
            ("hello (warudo)!!!!!", None),
            ("hello hello hello(world)!!!!!", None),
            ("hello  hello hello  (world  world ) !!!!!", None),
            ("hello hellohello ( world,world )!!!!!", None),
            ("hello hellohello ( world,world )!!! !!", None),
        ]
    } else {
        vec![
            ("holy hell !!!", Some(vec![0, 1, 2, 1, 0, 0, 1, 2, 2, 0, 1, 1, 1])),
            ("holy   hell    !!!!!!", Some(vec![0, 1, 2, 1, 0, 0, 0, 0, 1, 2, 2, 0, 0, 0, 0, 1, 1, 1, 1, 1, 1])),
            ("holyyyy hell !!!", Some(vec![0, 1, 2, 1, 1, 1, 1, 0, 0, 1, 2, 2, 0, 1, 1, 1])),
            ("holy hell!!!", None),
            ("holyhell !!!", None),
            ("holyhell!!!", None),
            ("holyyyy hell!!!", None),
            ("holyyyyhell    !!!!!!", None),
            ("holy hell ", None),
            ("holyyyy      hell   ", None),
            ("holy hellllll !!!", None),
        ]
    }
}

/// The expressions of the repository's `regex_test` / `automaton_test`, plus one instance of every
/// public combinator that the systematic enumeration does not use.
pub fn extras() -> Vec<(String, RefExpr)> {
    let a = || RefExpr::byte(b'a');
    let b = || RefExpr::byte(b'b');
    let c = || RefExpr::byte(b'c');
    let a1 = || RefExpr::marked(b'a', 1);
    let b2 = || RefExpr::marked(b'b', 2);
    let hello = w("hello");
    let test = w("test");
    let lmao = w("lmao!");
    let regex0 = SepCat(vec![hello.clone(), test.clone(), lmao.clone()], bx(BlanksStrict));
    let bracket_list = |r: RefExpr| Delimited(bx(Delimited(bx(SepList(bx(r), bx(BlanksStrict))), bx(Blanks), bx(Blanks))), bx(w("{")), bx(w("}")));
    let lower: Vec<(u8, Marker)> = (b'a'..=b'z').map(|x| (x, 1)).collect();
    let regex1 = MarkFn(bx(SepCat(vec![w("["), bracket_list(hello.clone()), bracket_list(test.clone()), w("]")], bx(Blanks))), lower);
    let regex2 = Star(bx(MarkBytes(bx(AnyByte), b" \n\t".to_vec(), 1)));
    let regex3 = Star(bx(MarkFn(bx(AnyByte), vec![(b' ', 1), (b'\n', 2), (b'\t', 3)])));
    let regex4 = Inter(vec![regex0.clone(), regex3.clone()]);
    // automaton_test (alphabet {0,1,2} there; bytes a,b,c here)
    let t5 = Minus(bx(Any), bx(Star(bx(Union(vec![a(), b()])))));
    let t6 = Minus(bx(t5.clone()), bx(Minus(bx(Any), bx(Star(bx(Minus(bx(AnyByte), bx(c()))))))));
    let t7 = Minus(bx(Star(bx(Minus(bx(AnyByte), bx(c()))))), bx(a()));
    let t8 = SepList(bx(MarkBytes(bx(Plus(bx(b()))), vec![b'b'], 1)), bx(c()));
    let mut v: Vec<(&str, RefExpr)> = vec![
        ("repo:regex0", regex0),
        ("repo:regex1", regex1),
        ("repo:regex2", regex2),
        ("repo:regex3", regex3),
        ("repo:regex4", regex4),
        ("repo:aut2", Cat(vec![b(), Star(bx(c())), a()])),
        ("repo:aut3", Cat(vec![b(), Plus(bx(c())), Star(bx(a()))])),
        ("repo:aut4", Minus(bx(b()), bx(b()))),
        ("repo:aut5", t5),
        ("repo:aut6", t6),
        ("repo:aut7", t7),
        ("repo:aut8", t8),
        ("repo:hard0", hard0()),
        ("repo:hard1", hard1()),
        // atoms and derived atoms
        ("x:empty", Empty),
        ("x:eps", Eps),
        ("x:any", Any),
        ("x:any_byte", AnyByte),
        ("x:byte_from[]", Bytes(vec![])),
        ("x:byte_not_from", NotBytes(vec![b'a', b'b'])),
        ("x:byte_not_from[]", NotBytes(vec![])),
        ("x:word", w("ab")),
        ("x:word-empty", w("")),
        ("x:digit", Digit),
        ("x:one_blank", OneBlank),
        ("x:blanks", Blanks),
        ("x:blanks_strict", BlanksStrict),
        ("x:utf8_cps", Utf8Cps),
        ("x:utf8", Utf8),
        ("x:json_string", JsonString),
        // n-ary forms
        ("x:cat0", Cat(vec![])),
        ("x:cat1", Cat(vec![a()])),
        ("x:cat3", Cat(vec![a(), b2(), c()])),
        ("x:union0", Union(vec![])),
        ("x:union1", Union(vec![a1()])),
        ("x:union3", Union(vec![a(), b2(), w("ab")])),
        ("x:inter0", Inter(vec![])),
        ("x:inter1", Inter(vec![a1()])),
        ("x:inter3", Inter(vec![Star(bx(Bytes(vec![b'a', b'b']))), Star(bx(Union(vec![a1(), b()]))), Star(bx(Union(vec![a(), b2()])))])),
        ("x:inter-marker-clash", Inter(vec![a1(), RefExpr::marked(b'a', 2)])),
        // repetition
        ("x:repeat0", Repeat(bx(a()), 0)),
        ("x:repeat1", Repeat(bx(a1()), 1)),
        ("x:repeat3", Repeat(bx(Union(vec![a(), w("ab")])), 3)),
        ("x:atmost0", AtMost(bx(a()), 0)),
        ("x:atmost1", AtMost(bx(a1()), 1)),
        ("x:atmost3", AtMost(bx(w("ab")), 3)),
        ("x:seprep0", SepRepeat(bx(a()), 0, bx(c()))),
        ("x:seprep3", SepRepeat(bx(a1()), 3, bx(c()))),
        ("x:sepatmost2", SepAtMost(bx(a1()), 2, bx(c()))),
        ("x:sepcat0", SepCat(vec![], bx(c()))),
        ("x:sepcat3", SepCat(vec![a(), b2(), a1()], bx(c()))),
        ("x:delimited", Delimited(bx(Star(bx(a1()))), bx(w("(")), bx(w(")")))),
        // spaced variants
        ("x:spaced_cat0", SpacedCat(vec![])),
        ("x:spaced_cat3", SpacedCat(vec![a(), b2(), c()])),
        ("x:spaced_list", SpacedList(bx(a1()))),
        ("x:spaced_non_empty_list", SpacedNeList(bx(w("ab")))),
        ("x:spaced_terminated", SpacedTerminated(bx(a()), bx(b2()))),
        ("x:spaced_delimited", SpacedDelimited(bx(Star(bx(a1()))), bx(w("[")), bx(w("]")))),
        ("x:spaced_separated_list", SpacedSepList(bx(a1()), bx(w(",")))),
        ("x:spaced_separated_non_empty_list", SpacedSepNeList(bx(a1()), bx(w(",")))),
        ("x:spaced_separated_cat", SpacedSepCat(vec![a(), b2(), c()], bx(w(",")))),
        ("x:spaced_repeat2", SpacedRepeat(bx(a1()), 2)),
        ("x:spaced_repeat0", SpacedRepeat(bx(a1()), 0)),
        ("x:spaced_repeat_at_most2", SpacedAtMost(bx(a1()), 2)),
        ("x:spaced_separated_repeat2", SpacedSepRepeat(bx(a1()), 2, bx(w(",")))),
        ("x:spaced_separated_repeat_at_most2", SpacedSepAtMost(bx(a1()), 2, bx(w(",")))),
        // markers
        ("x:mark_bytes-erase", MarkBytes(bx(Star(bx(Union(vec![a1(), b2()])))), vec![b'a'], 0)),
        ("x:mark_bytes-overwrite", MarkBytes(bx(Star(bx(Union(vec![a1(), b2()])))), vec![b'a', b'b'], 3)),
        ("x:mark-fn", MarkFn(bx(Star(bx(Union(vec![a1(), b(), c()])))), vec![(b'a', 0), (b'b', 5)])),
        ("x:replace_markers", ReplaceMarkers(bx(Star(bx(Union(vec![a1(), b2(), c()])))), vec![(1, 2), (2, 1)])),
        ("x:replace_markers-merge", ReplaceMarkers(bx(Star(bx(Union(vec![a1(), b2()])))), vec![(1, 7), (2, 7)])),
        ("x:replace_markers-0", ReplaceMarkers(bx(Star(bx(Union(vec![a1(), b()])))), vec![(0, 4)])),
        // complement
        ("x:neg-neg", Neg(bx(Neg(bx(w("ab")))))),
        ("x:neg-any", Neg(bx(Any))),
        ("x:neg-eps", Neg(bx(Eps))),
        ("x:neg-empty", Neg(bx(Empty))),
        ("x:neg-any_byte", Neg(bx(AnyByte))),
        ("x:minus-marked-left", Minus(bx(Star(bx(Union(vec![a1(), b()])))), bx(w("ab")))),
        ("x:cat-eps-like", Cat(vec![a(), Opt(bx(Eps))])),
        ("x:cat-eps-like-left", Cat(vec![Opt(bx(Eps)), a()])),
        ("x:cat-list-eps", Cat(vec![a(), Star(bx(Eps)), b()])),
        ("x:list-of-list", Star(bx(Star(bx(a1()))))),
        ("x:nelist-of-opt", Plus(bx(Opt(bx(w("ab")))))),
        ("x:list-of-empty", Star(bx(Empty))),
        ("x:union-with-empty", Union(vec![Empty, a1()])),
        ("x:cat-with-empty", Cat(vec![a1(), Empty])),
    ];
    v.drain(..).map(|(k, e)| (k.to_string(), e)).collect()
}

pub const FULL_INPUT_JWT: &str = r#"{
    "iss":"did:prism:954e59ea4c212f4b4be8688bd3fe63dd7079d218ef6282205a70131f87f2887c",
    "sub":"did:prism:73bb516fe88beec5b3b8d283eaec5964d1c13cd54ef8f1784217f4fe42688626:CtQBCtEBEkgKFG15LWF1dGgta2V5LW1pZG5pZ2h0EARKLgoJc2VjcDI1NmsxEiECS0kj3ydSeF86LU9BpHuVntMFN8SCKcHyci1tXFbRW8MSOwoHbWFzdGVyMBABSi4KCXNlY3AyNTZrMRIhAimWDggNDswAIJWKbexkfDxV0PEa58tcVcS1dk2phkDjGkgKDmFnZW50LWJhc2UtdXJsEhBMaW5rZWRSZXNvdXJjZVYxGiRodHRwOi8vMTkyLjE2OC4xLjg2OjgzMDAvY2xvdWQtYWdlbnQ",
    "nbf":1740482175,
    "exp":1740485775,
    "vc":{
       "credentialSchema":[
          {
             "id":"http:\/\/192.168.1.86:8400\/cloud-agent\/schema-registry\/schemas\/2fcfeeae-9532-3869-ad89-cdf5060c3a3c",
             "type":"CredentialSchema2022"
          }
       ],
       "credentialSubject":{
          "nationalId":"12345",
          "familyName":"Wonderland",
          "givenName":"Alice",
          "publicKeyJwk":{
             "kty":"EC",
             "crv":"secp256k1",
             "x":"S0kj3ydSeF86LU9BpHuVntMFN8SCKcHyci1tXFbRW8M",
             "y":"dux8h-QcIA3aZG9CSPIltDwVvOkf0kfJRJLH7K1KSlQ"
          },
          "id":"did:prism:73bb516fe88beec5b3b8d283eaec5964d1c13cd54ef8f1784217f4fe42688626:CtQBCtEBEkgKFG15LWF1dGgta2V5LW1pZG5pZ2h0EARKLgoJc2VjcDI1NmsxEiECS0kj3ydSeF86LU9BpHuVntMFN8SCKcHyci1tXFbRW8MSOwoHbWFzdGVyMBABSi4KCXNlY3AyNTZrMRIhAimWDggNDswAIJWKbexkfDxV0PEa58tcVcS1dk2phkDjGkgKDmFnZW50LWJhc2UtdXJsEhBMaW5rZWRSZXNvdXJjZVYxGiRodHRwOi8vMTkyLjE2OC4xLjg2OjgzMDAvY2xvdWQtYWdlbnQ",
          "birthDate":"2000-11-13"
       },
       "type":[
          "VerifiableCredential"
       ],
       "@context":[
          "https:\/\/www.w3.org\/2018\/credentials\/v1"
       ],
       "issuer":{
          "id":"did:prism:954e59ea4c212f4b4be8688bd3fe63dd7079d218ef6282205a70131f87f2887c",
          "type":"Profile"
       },
       "credentialStatus":{
          "statusPurpose":"Revocation",
          "statusListIndex":3,
          "id":"http:\/\/192.168.1.86:8400\/cloud-agent\/credential-status\/2054e2ea-f191-4640-86dd-6dde6b2f77f7#3",
          "type":"StatusList2021Entry",
          "statusListCredential":"http:\/\/192.168.1.86:8400\/cloud-agent\/credential-status\/2054e2ea-f191-4640-86dd-6dde6b2f77f7"
       }
    }
}"#;

pub const MINIMAL_JWT: &str = r#"{
    "iss" : "",
    "sub" : "",
    "nbf" : 0,
    "exp" : 1,
    "vc" : {
       "credentialSubject" : {
          "nationalId" : "id",
          "familyName" : "fn",
          "givenName" : "gn",
          "publicKeyJwk" : {
             "kty" : "",
             "crv" : "",
             "x" : "x",
             "y" : "y"
          },
          "id" : "",
          "birthDate" : "bd"
       },
       "type" : [],
       "@context" : [],
       "issuer" : "",
       "credentialStatus" : {
          "statusPurpose" : "",
          "statusListIndex" : 3,
          "id" : "",
          "type" : "",
          "statusListCredential" : ""
       }
    }
}"#;
