//! Explicit-state exploration of the product (compiled automaton) x (reference automaton), and of
//! the product of two compiled automata (shipped bytes vs. fresh compilation).

use std::collections::{BTreeSet, HashMap, VecDeque};

use crate::{kern::RefAut, refx::Marker};

const NONE: u32 = u32::MAX;

/// A faithful copy of `midnight_circuits::parsing::automaton::Automaton` (whose type cannot be
/// named outside the crate): same states, same transition map, same final states.
#[derive(Clone, Debug)]
pub struct ImplAut {
    pub nb_states: usize,
    pub initial: usize,
    pub finals: Vec<bool>,
    /// table[state][byte] = (target, marker) or (NONE, NONE)
    pub table: Vec<[(u32, u32); 256]>,
    pub n_trans: usize,
    pub n_finals: usize,
    /// some state index used by the automaton is >= nb_states
    pub out_of_range: bool,
    /// can reach a final state
    pub coacc: Vec<bool>,
    /// reachable from the initial state
    pub reach: Vec<bool>,
    /// sorted copy of the transitions / final states (for the serialiser)
    pub sorted_trans: Vec<((usize, u8), (usize, usize))>,
    pub sorted_finals: Vec<usize>,
}

/// Converts the value returned by `Regex::to_automaton()` / `spec_library()`.
#[macro_export]
macro_rules! impl_aut {
    ($a:expr) => {{
        let a = $a;
        let mut tr: Vec<((usize, u8), (usize, usize))> = a.transitions.iter().map(|(k, v)| (*k, *v)).collect();
        tr.sort();
        let mut fin: Vec<usize> = a.final_states.iter().copied().collect();
        fin.sort();
        $crate::product::ImplAut::from_parts(a.nb_states, a.initial_state, fin, tr)
    }};
}

impl ImplAut {
    pub fn from_parts(nb_states: usize, initial: usize, fin: Vec<usize>, tr: Vec<((usize, u8), (usize, usize))>) -> ImplAut {
        let mut max_state = initial;
        for ((s, _), (t, _)) in &tr {
            max_state = max_state.max(*s).max(*t);
        }
        for f in &fin {
            max_state = max_state.max(*f);
        }
        let n = nb_states.max(max_state + 1);
        let mut table = vec![[(NONE, NONE); 256]; n];
        for ((s, b), (t, m)) in &tr {
            table[*s][*b as usize] = (*t as u32, *m as u32);
        }
        let mut finals = vec![false; n];
        for f in &fin {
            finals[*f] = true;
        }
        // co-accessible
        let mut rev: Vec<Vec<u32>> = vec![vec![]; n];
        for ((s, _), (t, _)) in &tr {
            rev[*t].push(*s as u32);
        }
        let mut coacc = finals.clone();
        let mut stack: Vec<u32> = (0..n as u32).filter(|s| finals[*s as usize]).collect();
        while let Some(t) = stack.pop() {
            for s in &rev[t as usize] {
                if !coacc[*s as usize] {
                    coacc[*s as usize] = true;
                    stack.push(*s);
                }
            }
        }
        let mut reach = vec![false; n];
        reach[initial] = true;
        let mut stack = vec![initial];
        while let Some(s) = stack.pop() {
            for b in 0..256 {
                let t = table[s][b].0;
                if t != NONE && !reach[t as usize] {
                    reach[t as usize] = true;
                    stack.push(t as usize);
                }
            }
        }
        ImplAut {
            nb_states,
            initial,
            n_trans: tr.len(),
            n_finals: fin.len(),
            out_of_range: max_state >= nb_states,
            finals,
            table,
            coacc,
            reach,
            sorted_trans: tr,
            sorted_finals: fin,
        }
    }

    /// Live successor: defined and able to reach a final state.
    #[inline]
    pub fn step(&self, s: usize, b: u8) -> Option<(usize, usize)> {
        let (t, m) = self.table[s][b as usize];
        if t != NONE && self.coacc[t as usize] {
            Some((t as usize, m as usize))
        } else {
            None
        }
    }

    pub fn run(&self, w: &[u8]) -> Option<Vec<usize>> {
        let mut s = self.initial;
        let mut out = vec![];
        for b in w {
            let (t, m) = self.table[s][*b as usize];
            if t == NONE {
                return None;
            }
            out.push(m as usize);
            s = t as usize;
        }
        if self.finals[s] {
            Some(out)
        } else {
            None
        }
    }

    /// Shortest word from `s` to a final state.
    pub fn accept_suffix(&self, s: usize) -> Option<Vec<u8>> {
        let mut prev: HashMap<usize, (usize, u8)> = HashMap::new();
        let mut q = VecDeque::from([s]);
        let mut seen = BTreeSet::from([s]);
        let mut hit = None;
        while let Some(x) = q.pop_front() {
            if self.finals[x] {
                hit = Some(x);
                break;
            }
            for b in 0..=255u8 {
                if let Some((t, _)) = self.step(x, b) {
                    if seen.insert(t) {
                        prev.insert(t, (x, b));
                        q.push_back(t);
                    }
                }
            }
        }
        let mut x = hit?;
        let mut w = vec![];
        while x != s {
            let (p, b) = prev[&x];
            w.push(b);
            x = p;
        }
        w.reverse();
        Some(w)
    }

    /// Number of reachable states that cannot reach a final state (the doc of `to_automaton`
    /// promises there are none, except for the empty language).
    pub fn dead_reachable(&self) -> usize {
        (0..self.table.len()).filter(|s| self.reach[*s] && !self.coacc[*s]).count()
    }
}

#[derive(Clone, Debug)]
pub struct Mismatch {
    /// "language-mismatch" | "marker-mismatch"
    pub kind: &'static str,
    pub word: Vec<u8>,
    pub reference: Option<Vec<Marker>>,
    pub implementation: Option<Vec<usize>>,
}

#[derive(Clone, Debug, Default)]
pub struct Product {
    pub states: u64,
    pub transitions: u64,
    pub mismatch: Option<Mismatch>,
    /// product states in BFS order with the shortest word reaching them
    pub pairs: Vec<(u32, u32)>,
    pub words: Vec<Vec<u8>>,
}

fn mk_mismatch(kind: &'static str, word: Vec<u8>, r: &RefAut, i: &ImplAut) -> Mismatch {
    Mismatch {
        kind,
        reference: r.run(&word),
        implementation: i.run(&word),
        word,
    }
}

/// Complete exploration of the product; stops at the first (hence shortest-prefix) mismatch.
/// `keep_words`: remember the shortest word into every product state.
pub fn explore(i: &ImplAut, r: &RefAut, keep_words: bool) -> Product {
    let mut p = Product::default();
    let i_live = i.coacc[i.initial];
    let r_live = r.live[0];
    p.states = 1;
    if i_live != r_live {
        // one side has the empty language
        let word = if i_live { i.accept_suffix(i.initial).unwrap_or_default() } else { r.accept_suffix(0).0 };
        p.mismatch = Some(mk_mismatch("language-mismatch", word, r, i));
        return p;
    }
    if !i_live {
        return p;
    }
    let mut index: HashMap<(u32, u32), u32> = HashMap::new();
    let mut pairs: Vec<(u32, u32)> = vec![(i.initial as u32, 0)];
    let mut parent: Vec<(u32, u8)> = vec![(NONE, 0)];
    index.insert(pairs[0], 0);
    let word_to = |parent: &Vec<(u32, u8)>, mut k: u32| -> Vec<u8> {
        let mut w = vec![];
        while parent[k as usize].0 != NONE {
            w.push(parent[k as usize].1);
            k = parent[k as usize].0;
        }
        w.reverse();
        w
    };
    let mut k = 0usize;
    while k < pairs.len() {
        let (q, d) = pairs[k];
        let (q, d) = (q as usize, d as usize);
        if i.finals[q] != r.nullable[d] {
            p.mismatch = Some(mk_mismatch("language-mismatch", word_to(&parent, k as u32), r, i));
            break;
        }
        let mut bad: Option<(&'static str, u8)> = None;
        for b in 0..=255u8 {
            p.transitions += 1;
            let c = r.classes.of_byte[b as usize] as usize;
            let is = i.step(q, b);
            let rs = r.succ[d][c];
            match (is, rs) {
                (None, None) => {}
                (Some((t, m)), Some((rm, rt))) => {
                    if m != rm {
                        bad = Some(("marker-mismatch", b));
                        break;
                    }
                    let key = (t as u32, rt);
                    if !index.contains_key(&key) {
                        index.insert(key, pairs.len() as u32);
                        pairs.push(key);
                        parent.push((k as u32, b));
                    }
                }
                _ => {
                    bad = Some(("language-mismatch", b));
                    break;
                }
            }
        }
        if let Some((kind, b)) = bad {
            let mut w = word_to(&parent, k as u32);
            w.push(b);
            // extend to a complete distinguishing word on the side that is still live
            let c = r.classes.of_byte[b as usize] as usize;
            match (i.step(q, b), r.succ[d][c]) {
                (_, Some((_, rt))) => w.extend(r.accept_suffix(rt).0),
                (Some((t, _)), None) => w.extend(i.accept_suffix(t).unwrap_or_default()),
                _ => {}
            }
            p.mismatch = Some(mk_mismatch(kind, w, r, i));
            break;
        }
        k += 1;
    }
    p.states = pairs.len() as u64;
    if keep_words {
        p.words = (0..pairs.len() as u32).map(|k| word_to(&parent, k)).collect();
        p.pairs = pairs;
    }
    p
}

/// Words for the in-circuit conformance half, derived from a *mismatch-free* product.
pub struct Words {
    /// accepted words with their reference markers
    pub accepted: Vec<(Vec<u8>, Vec<Marker>)>,
    pub rejected: Vec<Vec<u8>>,
}

pub fn words_from(p: &Product, r: &RefAut, max_len: usize, extra_bytes: &[u8]) -> Words {
    let mut acc: BTreeSet<Vec<u8>> = BTreeSet::new();
    let mut rej: BTreeSet<Vec<u8>> = BTreeSet::new();
    let classify = |w: Vec<u8>, acc: &mut BTreeSet<Vec<u8>>, rej: &mut BTreeSet<Vec<u8>>| {
        if w.len() > max_len {
            return;
        }
        if r.run(&w).is_some() {
            acc.insert(w);
        } else {
            rej.insert(w);
        }
    };
    if p.pairs.is_empty() {
        // empty language: the empty word and one letter per class are rejected
        classify(vec![], &mut acc, &mut rej);
        for rep in &r.classes.rep {
            classify(vec![*rep], &mut acc, &mut rej);
        }
    }
    for (k, (_, d)) in p.pairs.iter().enumerate() {
        let w = &p.words[k];
        // the prefix itself (accepted or a non-final prefix)
        classify(w.clone(), &mut acc, &mut rej);
        // extended to the shortest accepted word
        let mut full = w.clone();
        full.extend(r.accept_suffix(*d).0);
        classify(full, &mut acc, &mut rej);
        // leaving the live region
        for (c, rep) in r.classes.rep.iter().enumerate() {
            if r.succ[*d as usize][c].is_none() {
                let mut x = w.clone();
                x.push(*rep);
                classify(x, &mut acc, &mut rej);
            }
        }
    }
    // every single-byte substitution (by class representatives and the extra bytes) of an accepted word
    let base: Vec<Vec<u8>> = acc.iter().cloned().collect();
    let mut subst: Vec<u8> = r.classes.rep.clone();
    subst.extend_from_slice(extra_bytes);
    subst.sort();
    subst.dedup();
    for w in &base {
        for pos in 0..w.len() {
            for b in &subst {
                if *b != w[pos] {
                    let mut x = w.clone();
                    x[pos] = *b;
                    classify(x, &mut acc, &mut rej);
                }
            }
        }
        // one letter too many / too few
        if !w.is_empty() {
            classify(w[..w.len() - 1].to_vec(), &mut acc, &mut rej);
        }
        for rep in &r.classes.rep {
            let mut x = w.clone();
            x.push(*rep);
            classify(x, &mut acc, &mut rej);
        }
    }
    Words {
        accepted: acc.into_iter().map(|w| { let m = r.run(&w).unwrap(); (w, m) }).collect(),
        rejected: rej.into_iter().collect(),
    }
}

/// impl x impl product over all 256 bytes: language-with-markers equality up to state renaming.
/// Returns (product states, transitions, first distinguishing word).
pub fn equivalent(a: &ImplAut, b: &ImplAut) -> (u64, u64, Option<Vec<u8>>) {
    let (al, bl) = (a.coacc[a.initial], b.coacc[b.initial]);
    if al != bl {
        return (1, 0, Some(vec![]));
    }
    if !al {
        return (1, 0, None);
    }
    let mut index: HashMap<(u32, u32), u32> = HashMap::new();
    let mut pairs = vec![(a.initial as u32, b.initial as u32)];
    let mut parent: Vec<(u32, u8)> = vec![(NONE, 0)];
    index.insert(pairs[0], 0);
    let word_to = |parent: &Vec<(u32, u8)>, mut k: u32| -> Vec<u8> {
        let mut w = vec![];
        while parent[k as usize].0 != NONE {
            w.push(parent[k as usize].1);
            k = parent[k as usize].0;
        }
        w.reverse();
        w
    };
    let mut trans = 0u64;
    let mut k = 0;
    while k < pairs.len() {
        let (x, y) = (pairs[k].0 as usize, pairs[k].1 as usize);
        if a.finals[x] != b.finals[y] {
            return (pairs.len() as u64, trans, Some(word_to(&parent, k as u32)));
        }
        for byte in 0..=255u8 {
            trans += 1;
            match (a.step(x, byte), b.step(y, byte)) {
                (None, None) => {}
                (Some((t, m)), Some((u, n))) if m == n => {
                    let key = (t as u32, u as u32);
                    if !index.contains_key(&key) {
                        index.insert(key, pairs.len() as u32);
                        pairs.push(key);
                        parent.push((k as u32, byte));
                    }
                }
                _ => {
                    let mut w = word_to(&parent, k as u32);
                    w.push(byte);
                    return (pairs.len() as u64, trans, Some(w));
                }
            }
        }
        k += 1;
    }
    (pairs.len() as u64, trans, None)
}

/// The checker's own serialiser of the library's automaton format (little endian): nb_states: u64,
/// initial_state: u64, final_states: len u64 + sorted u64s, transitions: len u64 + entries sorted by
/// key, each (source u64, byte u8, target u64, marker u64).
pub fn serialize(a: &ImplAut) -> Vec<u8> {
    let mut out = vec![];
    let u = |out: &mut Vec<u8>, x: usize| out.extend_from_slice(&(x as u64).to_le_bytes());
    u(&mut out, a.nb_states);
    u(&mut out, a.initial);
    u(&mut out, a.sorted_finals.len());
    for f in &a.sorted_finals {
        u(&mut out, *f);
    }
    u(&mut out, a.sorted_trans.len());
    for ((s, b), (t, m)) in &a.sorted_trans {
        u(&mut out, *s);
        out.push(*b);
        u(&mut out, *t);
        u(&mut out, *m);
    }
    out
}

/// The checker's own deserialiser (to cross-check `spec_library()`'s reading of the bytes).
pub fn deserialize(mut buf: &[u8]) -> Option<ImplAut> {
    fn u(buf: &mut &[u8]) -> Option<usize> {
        if buf.len() < 8 {
            return None;
        }
        let v = u64::from_le_bytes(buf[..8].try_into().unwrap());
        *buf = &buf[8..];
        Some(v as usize)
    }
    let nb = u(&mut buf)?;
    let init = u(&mut buf)?;
    let nf = u(&mut buf)?;
    let mut fin = vec![];
    for _ in 0..nf {
        fin.push(u(&mut buf)?);
    }
    let nt = u(&mut buf)?;
    let mut tr = vec![];
    for _ in 0..nt {
        let s = u(&mut buf)?;
        let b = *buf.first()?;
        buf = &buf[1..];
        let t = u(&mut buf)?;
        let m = u(&mut buf)?;
        tr.push(((s, b), (t, m)));
    }
    if !buf.is_empty() {
        return None;
    }
    Some(ImplAut::from_parts(nb, init, fin, tr))
}
