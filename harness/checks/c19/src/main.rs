//! C19 — regex compilation, automaton parsing and base64 decoding are exact.
//!
//! Part 1 (model checking): for every expression of a structurally enumerated space, the product of
//!   the automaton compiled by the library (all 256 bytes per state) with the derivative automaton
//!   of the checker's reference semantics is explored completely.
//! Part 2 (conformance): words read off the product are replayed through `AutomatonChip::parse` in a
//!   circuit configured with exactly that automaton.
//! Part 3: shipped automata (deserialised bytes vs. compilation of the specification, round trip),
//!   base64 / base64url decoding, fixed and variable length.

mod b64;
mod circ;
mod kern;
mod product;
mod refx;
mod specs;

use std::{collections::BTreeSet, sync::Mutex};

use b64::B64Case;
use circ::{ASpec, HCircuit, Job, Outcome};
use ff::Field;
use midnight_circuits::parsing::{spec_library, StdLibParser};
use midnight_proofs::{
    dev::InstanceValue,
    verif::{Fault, Mode},
};
use product::{explore, ImplAut};
use kern::RefAut;
use refx::{Marker, RefExpr};
use serde_json::json;
use vcore::{catch, CaseOut, Ctx, Level, Viol};
use vgad::OpCase;

type F = midnight_curves::Fq;

// ---------------------------------------------------------------------------------------------
// the expression space
// ---------------------------------------------------------------------------------------------

#[derive(Clone, Copy, Debug, PartialEq)]
pub enum U {
    Neg,
    Star,
    Plus,
    Opt,
    Rep2,
    AtMost2,
    MarkA2,
}
#[derive(Clone, Copy, Debug, PartialEq)]
pub enum B {
    Cat,
    Union,
    Inter,
    Minus,
    SepList,
    SepNeList,
}
pub const UNARY: [U; 7] = [U::Neg, U::Star, U::Plus, U::Opt, U::Rep2, U::AtMost2, U::MarkA2];
pub const BINARY: [B; 6] = [B::Cat, B::Union, B::Inter, B::Minus, B::SepList, B::SepNeList];

pub fn un(op: U, e: &RefExpr) -> RefExpr {
    let b = Box::new(e.clone());
    match op {
        U::Neg => RefExpr::Neg(b),
        U::Star => RefExpr::Star(b),
        U::Plus => RefExpr::Plus(b),
        U::Opt => RefExpr::Opt(b),
        U::Rep2 => RefExpr::Repeat(b, 2),
        U::AtMost2 => RefExpr::AtMost(b, 2),
        U::MarkA2 => RefExpr::MarkBytes(b, vec![b'a'], 2),
    }
}
pub fn bin(op: B, l: &RefExpr, r: &RefExpr) -> RefExpr {
    let (x, y) = (Box::new(l.clone()), Box::new(r.clone()));
    match op {
        B::Cat => RefExpr::Cat(vec![l.clone(), r.clone()]),
        B::Union => RefExpr::Union(vec![l.clone(), r.clone()]),
        B::Inter => RefExpr::Inter(vec![l.clone(), r.clone()]),
        B::Minus => RefExpr::Minus(x, y),
        B::SepList => RefExpr::SepList(x, y),
        B::SepNeList => RefExpr::SepNeList(x, y),
    }
}

fn atoms(n: usize) -> Vec<RefExpr> {
    let all = vec![
        RefExpr::byte(b'a'),
        RefExpr::Bytes(vec![b'a', b'b']),
        RefExpr::marked(b'a', 1),
        RefExpr::byte(b'b'),
        RefExpr::AnyByte,
        RefExpr::Eps,
        RefExpr::marked(b'b', 2),
    ];
    all[..n].to_vec()
}

/// All expressions of depth exactly 1 over the atoms.
fn depth1(at: &[RefExpr]) -> Vec<RefExpr> {
    let mut v = vec![];
    for a in at {
        for op in UNARY {
            v.push(un(op, a));
        }
    }
    for op in BINARY {
        for a in at {
            for b in at {
                v.push(bin(op, a, b));
            }
        }
    }
    v
}

// ---------------------------------------------------------------------------------------------
// one expression
// ---------------------------------------------------------------------------------------------

pub enum Verdict {
    IllFormed,
    RefCapped(usize),
    NonOd { impl_panicked: bool },
    Panic(String),
    Checked { states: u64, transitions: u64, mismatch: Option<product::Mismatch>, dead: usize, out_of_range: bool },
}

pub fn compile(e: &RefExpr) -> Result<ImplAut, String> {
    catch(|| {
        let r = e.to_regex();
        let a = r.to_automaton();
        impl_aut!(&a)
    })
}

pub fn check_expr(e: &RefExpr) -> Verdict {
    if !e.well_formed() {
        return Verdict::IllFormed;
    }
    let r = match RefAut::build(e) {
        Ok(r) => r,
        Err(n) => return Verdict::RefCapped(n),
    };
    let i = compile(e);
    if r.non_od.is_some() {
        return Verdict::NonOd { impl_panicked: i.is_err() };
    }
    match i {
        Err(p) => Verdict::Panic(p),
        Ok(i) => {
            let p = explore(&i, &r, false);
            Verdict::Checked {
                states: p.states,
                transitions: p.transitions,
                mismatch: p.mismatch,
                dead: if r.live[0] { i.dead_reachable() } else { 0 },
                out_of_range: i.out_of_range,
            }
        }
    }
}

fn fails(e: &RefExpr) -> bool {
    matches!(check_expr(e), Verdict::Panic(_) | Verdict::Checked { mismatch: Some(_), .. })
}

/// The innermost failing sub-expression (the defect is attributed to its top combinator).
fn blame(e: &RefExpr) -> RefExpr {
    for c in e.children() {
        if fails(c) {
            return blame(c);
        }
    }
    e.clone()
}

fn lang_class(e: &RefExpr) -> &'static str {
    if !e.well_formed() {
        return "_";
    }
    match RefAut::build(e) {
        Ok(r) => r.language_class(),
        Err(_) => "_",
    }
}

/// Input class of the blamed expression (part of the finding key). The compilation defects found so
/// far all need a degenerate operand, so the class says whether somewhere in the blamed expression
/// a complement (`neg`, right operand of `minus`) is applied to an operand whose language is empty or
/// exactly {epsilon}, or whether any other combinator has such an operand; otherwise the class is
/// the top combinator of the blamed expression.
fn input_class(b: &RefExpr) -> String {
    fn scan(e: &RefExpr, compl: &mut BTreeSet<&'static str>, oper: &mut BTreeSet<&'static str>) {
        for (j, c) in e.children().iter().enumerate() {
            let cl = lang_class(c);
            if cl != "_" {
                let complemented = matches!(e, RefExpr::Neg(_)) || (matches!(e, RefExpr::Minus(..)) && j == 1);
                if complemented {
                    compl.insert(cl);
                } else {
                    oper.insert(cl);
                }
            }
            scan(c, compl, oper);
        }
    }
    let (mut compl, mut oper) = (BTreeSet::new(), BTreeSet::new());
    scan(b, &mut compl, &mut oper);
    if compl.contains("0") {
        "complement-of-empty-language".into()
    } else if compl.contains("e") {
        "complement-of-epsilon-language".into()
    } else if oper.contains("0") {
        "empty-language-operand".into()
    } else if oper.contains("e") {
        "epsilon-language-operand".into()
    } else if matches!(b, RefExpr::Inter(l) if l.is_empty()) {
        "any".into()
    } else {
        b.top().to_string()
    }
}

fn show_word(w: &[u8]) -> String {
    format!("{:?}", String::from_utf8_lossy(w))
}

fn account(e: &RefExpr, out: &mut CaseOut) {
    match check_expr(e) {
        Verdict::IllFormed => out.count(if e.mark_over_complement() { "ill-formed(mark applied over a complement)" } else { "ill-formed(marker under complement)" }, 1),
        Verdict::RefCapped(_) => {
            out.eval("reference-capped", false);
            out.counter("reference_capped", 1);
        }
        Verdict::NonOd { impl_panicked } => {
            out.eval("skipped:not-output-deterministic", false);
            out.counter("expressions_skipped_non_output_deterministic", 1);
            out.counter(if impl_panicked { "non_od_rejected_by_library" } else { "non_od_accepted_by_library" }, 1);
        }
        Verdict::Panic(p) => {
            out.eval("panic", true);
            let b = blame(e);
            let p = match compile(&b) {
                Err(p) => p,
                Ok(_) => p,
            };
            let first = p.lines().next().unwrap_or("").to_string();
            out.viol(Viol::new(
                format!("regex:{}:panic", input_class(&b)),
                format!("compiling the output-deterministic expression {} panics: {first} [{}]", b.show(), vcore::panic_site(&p)),
                json!({"expression": e.show(), "blamed_subexpression": b.show(), "panic": p}),
            ));
        }
        Verdict::Checked { states, transitions, mismatch, dead, out_of_range } => {
            out.counter("product_states", states);
            out.counter("product_transitions", transitions);
            out.counter("expressions_checked", 1);
            if dead > 0 {
                out.counter("compiled_automata_with_dead_states", 1);
            }
            if out_of_range {
                out.viol(Viol::new(
                    format!("regex:{}:state-out-of-range", e.top()),
                    format!("the automaton of {} uses a state index >= nb_states", e.show()),
                    json!({"expression": e.show()}),
                ));
            }
            match mismatch {
                None => out.eval("equal", true),
                Some(m0) => {
                    out.eval("mismatch", true);
                    let b = blame(e);
                    let m = match check_expr(&b) {
                        Verdict::Checked { mismatch: Some(m), .. } => m,
                        _ => m0,
                    };
                    out.viol(Viol::new(
                        format!("regex:{}:{}", input_class(&b), m.kind),
                        format!(
                            "{}: on the word {} the reference gives {} but the compiled automaton gives {}",
                            b.show(),
                            show_word(&m.word),
                            m.reference.as_ref().map(|x| format!("accept with markers {x:?}")).unwrap_or("reject".into()),
                            m.implementation.as_ref().map(|x| format!("accept with markers {x:?}")).unwrap_or("reject".into()),
                        ),
                        json!({"expression": e.show(), "blamed_subexpression": b.show(), "word_bytes": m.word, "reference": m.reference, "implementation": m.implementation}),
                    ));
                }
            }
        }
    }
}

// ---------------------------------------------------------------------------------------------
// part 2: in-circuit conformance
// ---------------------------------------------------------------------------------------------

struct Conf {
    e: RefExpr,
    /// extra vectors: (word, Some(markers) | None = rejected) from the repository's tests
    vectors: Vec<(Vec<u8>, Option<Vec<Marker>>)>,
    max_acc: usize,
    max_rej: usize,
    faults: bool,
    extra_bytes: Vec<u8>,
}

fn fe(x: usize) -> F {
    F::from(x as u64)
}

/// The public statement of a parsing circuit: the letters, then the markers.
fn statement(word: &[u8], markers: &[Marker]) -> Vec<F> {
    word.iter().map(|b| fe(*b as usize)).chain(markers.iter().map(|m| fe(*m))).collect()
}

fn run_k(c: &HCircuit, k0: u32, inst: Vec<F>, plan: Vec<(u64, Fault, Mode)>, keep: bool) -> circ::Run {
    let mut k = k0;
    loop {
        let r = circ::run(c, k, inst.clone(), plan.clone(), keep);
        if circ::is_not_enough_rows(&r.outcome) && k < k0 + 3 {
            k += 1;
            continue;
        }
        return r;
    }
}

/// A library of several automata in one chip (`AutomatonChip::configure` with n entries): all of
/// them share one lookup table, each with its own range of states. Checked for every member:
/// accepted words (with the reference markers) are satisfiable, rejected words are not; and once
/// per library the table laid out in the circuit must be a DISJOINT union of the members'
/// automata (each shifted by some offset, no state 0, no two members sharing a state) plus the
/// dummy row - otherwise a run of one member could continue with another member's rows.
fn library_case(es: &Vec<RefExpr>) -> CaseOut {
    let mut out = CaseOut::batch();
    let name = es.iter().map(|e| e.show()).collect::<Vec<_>>().join(" | ");
    let mut auts = vec![];
    for e in es {
        let (Ok(r), Ok(i)) = (RefAut::build(e), compile(e)) else {
            out.count("skipped:member-does-not-compile", 1);
            return out;
        };
        auts.push((r, i));
    }
    let rows: usize = auts.iter().map(|(_, i)| i.n_trans + i.n_finals).sum::<usize>() + 1;
    let k0 = circ::k_for(rows, 16, false);
    let mut table_checked = false;
    for (which, (r, i)) in auts.iter().enumerate() {
        let p = explore(i, r, true);
        if p.mismatch.is_some() {
            out.count("skipped:automaton-mismatch(reported by the product check)", 1);
            continue;
        }
        let mut w = product::words_from(&p, r, 12, &[]);
        w.accepted.sort_by_key(|x| (x.0.len(), x.0.clone()));
        w.accepted.dedup();
        w.accepted.truncate(4);
        w.rejected.sort_by_key(|x| (x.len(), x.clone()));
        w.rejected.dedup();
        w.rejected.truncate(6);
        // words accepted by ANOTHER member and rejected by this one
        for (j, (rj, ij)) in auts.iter().enumerate() {
            if j == which {
                continue;
            }
            let pj = explore(ij, rj, true);
            if pj.mismatch.is_some() {
                continue;
            }
            for (word, _) in product::words_from(&pj, rj, 12, &[]).accepted.into_iter().take(6) {
                if r.run(&word).is_none() && !w.rejected.contains(&word) {
                    w.rejected.push(word);
                }
            }
        }
        let detail = |word: &[u8]| json!({"library": name, "member": which, "word_bytes": word, "word": show_word(word)});
        for (word, markers) in &w.accepted {
            let circuit = HCircuit { spec: ASpec::Multi(es.clone(), which), job: Job::Parse(word.clone()) };
            let run = run_k(&circuit, k0, statement(word, markers), vec![], true);
            out.eval(&format!("library:accepted-word:{}", run.outcome.name()), true);
            out.counter("traces_validated", 1);
            if !run.outcome.is_sat() {
                out.viol(Viol::new(
                    format!("library:{}:accepted-word-not-satisfiable", run.outcome.name()),
                    format!("library [{name}], member {which}: the accepted word {} with its reference markers is not satisfiable ({:?})", show_word(word), run.outcome),
                    detail(word),
                ));
                continue;
            }
            if !table_checked {
                if let Some(t) = run.prover.as_ref().and_then(circ::automaton_table) {
                    table_checked = true;
                    match disjoint_union_offsets(&t, &auts.iter().map(|(_, i)| i).collect::<Vec<_>>()) {
                        Ok(offs) => {
                            out.eval("library:table-is-disjoint-union", true);
                            out.sample = Some(json!({"library": name, "offsets": offs, "table_rows": t.len()}));
                        }
                        Err(why) => {
                            out.eval("library:table-NOT-disjoint-union", true);
                            out.viol(Viol::new(
                                "library:lookup-table-not-a-disjoint-union-of-the-members",
                                format!("library [{name}] ({} members): {why}", es.len()),
                                json!({"library": name, "members": es.len()}),
                            ));
                        }
                    }
                }
            }
        }
        for word in &w.rejected {
            let circuit = HCircuit { spec: ASpec::Multi(es.clone(), which), job: Job::Parse(word.clone()) };
            let mut run = run_k(&circuit, k0, statement(word, &vec![0; word.len()]), vec![], true);
            out.counter("traces_validated", 1);
            let mut outcome = run.outcome.clone();
            if let (Some(prover), true) = (run.prover.as_mut(), run.observed.len() == word.len()) {
                let obs: Vec<F> = run.observed.iter().map(|o| o.unwrap_or(F::ZERO)).collect();
                for (j, v) in obs.iter().enumerate() {
                    prover.instance_mut()[1][word.len() + j] = InstanceValue::Assigned(*v);
                }
                outcome = match catch(|| prover.verify()) {
                    Ok(Ok(())) => Outcome::Sat,
                    Ok(Err(_)) => Outcome::Unsat("final-state / transition lookup".into()),
                    Err(p) => Outcome::Panic(p),
                };
            }
            out.eval(&format!("library:rejected-word:{}", outcome.name()), true);
            if outcome.is_sat() {
                out.viol(Viol::new(
                    "library:rejected-word-satisfiable",
                    format!("library [{name}], member {which}: the word {} is rejected by the reference but the circuit is satisfied", show_word(word)),
                    detail(word),
                ));
            }
        }
    }
    if !table_checked {
        out.count("library:table-not-checked(no accepted word / table not readable)", 1);
    }
    out
}

/// Finds offsets o_i such that `table` = {(0,0,0,0)} + the union over i of member i with every
/// state shifted by o_i (sentinel rows (f + o_i, 256, 0, 0) for the final states), the state
/// ranges [o_i, o_i + n_i) pairwise disjoint and not containing 0. Exhaustive over all offsets
/// up to the largest state of the table (the members are small).
fn disjoint_union_offsets(table: &BTreeSet<[u64; 4]>, members: &[&ImplAut]) -> Result<Vec<u64>, String> {
    if !table.contains(&[0, 0, 0, 0]) {
        return Err("the dummy row (0, 0, 0, 0) is missing".into());
    }
    let max_state = table.iter().map(|r| r[0].max(r[2])).max().unwrap_or(0);
    let rows_of = |i: &ImplAut, o: u64| -> BTreeSet<[u64; 4]> {
        let mut s = BTreeSet::new();
        for ((a, b), (t, m)) in &i.sorted_trans {
            s.insert([*a as u64 + o, *b as u64, *t as u64 + o, *m as u64]);
        }
        for f in &i.sorted_finals {
            s.insert([*f as u64 + o, 256, 0, 0]);
        }
        s
    };
    // states a member really uses (a member without transitions and final states uses none)
    let used = |i: &ImplAut| -> BTreeSet<u64> {
        let mut s = BTreeSet::new();
        for ((a, _), (t, _)) in &i.sorted_trans {
            s.insert(*a as u64);
            s.insert(*t as u64);
        }
        for f in &i.sorted_finals {
            s.insert(*f as u64);
        }
        s
    };
    let cands: Vec<Vec<u64>> = members.iter().map(|i| (1..=max_state.max(1)).filter(|o| rows_of(i, *o).is_subset(table)).collect()).collect();
    for (j, c) in cands.iter().enumerate() {
        if c.is_empty() {
            return Err(format!("no offset places member {j} inside the table (its transitions are not all present)"));
        }
    }
    // depth-first search over the candidate offsets
    fn go(j: usize, cands: &[Vec<u64>], chosen: &mut Vec<u64>, ok: &dyn Fn(&[u64]) -> bool) -> bool {
        if j == cands.len() {
            return ok(chosen);
        }
        for o in &cands[j] {
            chosen.push(*o);
            if go(j + 1, cands, chosen, ok) {
                return true;
            }
            chosen.pop();
        }
        false
    }
    let ok = |offs: &[u64]| -> bool {
        let mut all: BTreeSet<[u64; 4]> = BTreeSet::from([[0, 0, 0, 0]]);
        let mut states: BTreeSet<u64> = BTreeSet::new();
        let mut n_states = 0usize;
        for (i, o) in members.iter().zip(offs) {
            all.extend(rows_of(i, *o));
            let u: BTreeSet<u64> = used(i).into_iter().map(|s| s + *o).collect();
            n_states += u.len();
            states.extend(u);
        }
        all == *table && states.len() == n_states && !states.contains(&0)
    };
    let mut chosen = vec![];
    if go(0, &cands, &mut chosen, &ok) {
        Ok(chosen)
    } else {
        Err(format!("every member can be found in the table (candidate offsets {cands:?}) but no choice of offsets makes the table their disjoint union: members share states or the table has extra rows"))
    }
}

fn conformance(c: &Conf) -> CaseOut {
    let mut out = CaseOut::batch();
    let e = &c.e;
    let Ok(r) = RefAut::build(e) else { return out };
    if !e.well_formed() || r.non_od.is_some() {
        out.count("skipped:outside-contract", 1);
        return out;
    }
    let Ok(i) = compile(e) else {
        out.count("skipped:compile-panics(reported by the product check)", 1);
        return out;
    };
    let p = explore(&i, &r, true);
    if p.mismatch.is_some() {
        out.count("skipped:automaton-mismatch(reported by the product check)", 1);
        return out;
    }
    let mut w = product::words_from(&p, &r, 40, &c.extra_bytes);
    // the repository's own vectors, classified by the reference (and cross-checked with the expectation)
    for (word, exp) in &c.vectors {
        let got = r.run(word);
        if got != *exp {
            out.viol(Viol::new(
                format!("regex:{}:repository-vector-disagrees-with-reference", e.top()),
                format!("{}: the repository's test expects {:?} on {}, the reference semantics gives {:?}", e.show(), exp, show_word(word), got),
                json!({"expression": e.show(), "word": word}),
            ));
        }
        match got {
            Some(m) => w.accepted.insert(0, (word.clone(), m)),
            None => w.rejected.insert(0, word.clone()),
        }
    }
    w.accepted.sort_by_key(|x| (x.0.len() > 40, c.vectors.iter().all(|v| v.0 != x.0), x.0.len(), x.0.clone()));
    w.accepted.dedup();
    w.rejected.sort_by_key(|x| (c.vectors.iter().all(|v| v.0 != *x), x.len(), x.clone()));
    w.rejected.dedup();
    if w.accepted.len() > c.max_acc {
        out.counter("conformance_accepted_words_dropped_by_cap", (w.accepted.len() - c.max_acc) as u64);
        // keep the shortest and the longest ones
        let tail = w.accepted.split_off(c.max_acc / 2);
        let keep = c.max_acc - c.max_acc / 2;
        w.accepted.extend(tail.into_iter().rev().take(keep));
    }
    if w.rejected.len() > c.max_rej {
        out.counter("conformance_rejected_words_dropped_by_cap", (w.rejected.len() - c.max_rej) as u64);
        let step = w.rejected.len() as f64 / c.max_rej as f64;
        w.rejected = (0..c.max_rej).map(|j| w.rejected[(j as f64 * step) as usize].clone()).collect();
    }
    let k0 = circ::k_for(i.n_trans + i.n_finals + 1, 64, false);
    let detail = |word: &[u8]| json!({"expression": e.show(), "word_bytes": word, "word": show_word(word)});
    let mut table_checked = false;
    let mut fault_acc: Option<(Vec<u8>, Vec<Marker>)> = None;
    let mut fault_rej: Option<(Vec<u8>, Vec<F>)> = None;
    for (word, markers) in &w.accepted {
        let circuit = HCircuit { spec: ASpec::Expr(e.clone()), job: Job::Parse(word.clone()) };
        let inst: Vec<F> = statement(word, markers);
        let mut run = run_k(&circuit, k0, inst.clone(), vec![], true);
        out.eval(&format!("accepted-word:{}", run.outcome.name()), true);
        out.counter("traces_validated", 1);
        let observed: Vec<Option<F>> = run.observed.clone();
        if !run.outcome.is_sat() {
            out.viol(Viol::new(
                format!("parse:{}:accepted-word-not-satisfiable", run.outcome.name()),
                format!("{}: the accepted word {} with its reference markers {:?} is not satisfiable in-circuit ({:?}; markers computed by the chip: {:?})", e.show(), show_word(word), markers, run.outcome, observed.iter().map(|o| o.map(|x| vgad::val::hex(&x))).collect::<Vec<_>>()),
                detail(word),
            ));
            continue;
        }
        if observed.len() != markers.len() || observed.iter().zip(markers).any(|(o, m)| *o != Some(fe(*m))) {
            out.viol(Viol::new("parse:observed-markers-differ", format!("{}: chip markers differ from the reference on {}", e.show(), show_word(word)), detail(word)));
        }
        // the exposed markers are bound: one edited position must be rejected
        if let Some(prover) = run.prover.as_mut() {
            if !word.is_empty() {
                let pos = word.len() / 2;
                prover.instance_mut()[1][word.len() + pos] = InstanceValue::Assigned(inst[word.len() + pos] + F::ONE);
                let ok = catch(|| prover.verify().is_ok()).unwrap_or(false);
                out.eval(if ok { "wrong-marker:accepted" } else { "wrong-marker:rejected" }, true);
                if ok {
                    out.viol(Viol::new("parse:wrong-marker-accepted", format!("{}: word {} is satisfiable with marker {} at position {pos} replaced", e.show(), show_word(word), markers[pos]), detail(word)));
                }
            }
        }
        // the lookup table laid out in the circuit is exactly the automaton (+ the dummy row and one
        // sentinel row (f, 256, 0, 0) per final state), states shifted by 1
        if !table_checked {
            if let Some(prover) = run.prover.as_ref() {
                table_checked = true;
                let mut expect: BTreeSet<[u64; 4]> = BTreeSet::from([[0, 0, 0, 0]]);
                for ((s, b), (t, m)) in &i.sorted_trans {
                    expect.insert([*s as u64 + 1, *b as u64, *t as u64 + 1, *m as u64]);
                }
                for f in &i.sorted_finals {
                    expect.insert([*f as u64 + 1, 256, 0, 0]);
                }
                match circ::automaton_table(prover) {
                    Some(t) if t == expect => out.eval("lookup-table:equals-automaton", true),
                    Some(t) => {
                        out.eval("lookup-table:differs", true);
                        let extra: Vec<_> = t.difference(&expect).take(3).collect();
                        let missing: Vec<_> = expect.difference(&t).take(3).collect();
                        out.viol(Viol::new(
                            "parse:lookup-table-differs-from-automaton",
                            format!("{}: rows only in the circuit table {extra:?}, rows missing {missing:?}", e.show()),
                            json!({"expression": e.show()}),
                        ));
                    }
                    None => out.count("lookup-table:not-readable", 1),
                }
            }
        }
        if fault_acc.is_none() && word.len() >= 2 {
            fault_acc = Some((word.clone(), markers.clone()));
        }
    }
    for word in &w.rejected {
        let circuit = HCircuit { spec: ASpec::Expr(e.clone()), job: Job::Parse(word.clone()) };
        let mut run = run_k(&circuit, k0, statement(word, &vec![0; word.len()]), vec![], true);
        out.counter("traces_validated", 1);
        let mut outcome = run.outcome.clone();
        // if the honest prover got through synthesis, give it its own markers as the instance: the
        // only thing left to fail is the final-state check
        if let (Some(prover), true) = (run.prover.as_mut(), run.observed.len() == word.len()) {
            let obs: Vec<F> = run.observed.iter().map(|o| o.unwrap_or(F::ZERO)).collect();
            for (j, v) in obs.iter().enumerate() {
                prover.instance_mut()[1][word.len() + j] = InstanceValue::Assigned(*v);
            }
            outcome = match catch(|| prover.verify()) {
                Ok(Ok(())) => Outcome::Sat,
                Ok(Err(_)) => Outcome::Unsat("final-state / transition lookup".into()),
                Err(p) => Outcome::Panic(p),
            };
            if fault_rej.is_none() && word.len() >= 1 && !outcome.is_sat() {
                fault_rej = Some((word.clone(), word.iter().map(|b| fe(*b as usize)).chain(obs.into_iter()).collect()));
            }
        }
        out.eval(&format!("rejected-word:{}", outcome.name()), true);
        if outcome.is_sat() {
            out.viol(Viol::new(
                "parse:rejected-word-satisfiable",
                format!("{}: the word {} is not in the language but the parsing circuit is satisfiable", e.show(), show_word(word)),
                detail(word),
            ));
        }
    }
    // 1-deviation faults (propagate mode) on false statements: must stay unsatisfiable
    if c.faults {
        let final_state = (0..i.finals.len()).find(|s| i.finals[*s]).map(|s| s as u64 + 1).unwrap_or(1);
        let faults = [("+1", Fault::Add(1)), ("-1", Fault::Add(-1)), ("zero", Fault::Set([0; 4])), ("final-state", Fault::Set([final_state, 0, 0, 0]))];
        let mut jobs: Vec<(&str, Vec<u8>, Vec<F>)> = vec![];
        if let Some((word, markers)) = &fault_acc {
            let mut inst: Vec<F> = statement(word, markers);
            inst[word.len()] += F::ONE;
            jobs.push(("wrong-marker", word.clone(), inst));
        }
        if let Some((word, obs)) = &fault_rej {
            jobs.push(("non-final-end", word.clone(), obs.clone()));
        }
        for (what, word, inst) in jobs {
            let circuit = HCircuit { spec: ASpec::Expr(e.clone()), job: Job::Parse(word.clone()) };
            let base = run_k(&circuit, k0, inst.clone(), vec![], false);
            for idx in 0..base.n_assign {
                for (fname, f) in &faults {
                    let run = run_k(&circuit, k0, inst.clone(), vec![(idx, f.clone(), Mode::Propagate)], false);
                    if run.fired != Some(true) {
                        out.count("fault:no-change", 1);
                        continue;
                    }
                    out.eval(&format!("fault:{}", run.outcome.name()), true);
                    if let Outcome::Panic(p) = &run.outcome {
                        // a panic of the witness generator on a lie is a rejection (the witness is never produced)
                        out.count(&format!("fault:crash@{}", vcore::panic_site(p)), 1);
                    }
                    if run.outcome.is_sat() {
                        out.viol(Viol::new(
                            format!("parse:{what}:unsound-under-1-deviation"),
                            format!("{}: word {} ({what}) becomes satisfiable when advice assignment #{idx} is replaced by {fname}", e.show(), show_word(&word)),
                            json!({"expression": e.show(), "word_bytes": word, "assignment_index": idx, "fault": fname}),
                        ));
                    }
                }
            }
        }
    }
    out.sample = Some(json!({"expression": e.show(), "automaton_states": i.nb_states, "transitions": i.n_trans, "k": k0, "accepted_words": w.accepted.len(), "rejected_words": w.rejected.len()}));
    out
}

// ---------------------------------------------------------------------------------------------
// part 3a: shipped automata
// ---------------------------------------------------------------------------------------------

const JWT_BYTES: &[u8] = include_bytes!("/repo/circuits/src/parsing/automaton_cache/Jwt");

fn shipped_bytes_case(out: &mut CaseOut) -> Option<ImplAut> {
    // what the library reads from the shipped bytes
    let lib = catch(|| {
        let lib = spec_library();
        let a = lib.get(&StdLibParser::Jwt).expect("Jwt entry");
        impl_aut!(a)
    });
    let lib = match lib {
        Ok(a) => a,
        Err(p) => {
            out.eval("shipped:deserialize-panic", true);
            out.viol(Viol::new("shipped:Jwt:deserialize-panic", format!("spec_library() panics: {p}"), json!({})));
            return None;
        }
    };
    // round trip with the checker's own (de)serialiser of the documented format
    let again = product::serialize(&lib);
    let same = again == JWT_BYTES;
    out.eval(if same { "shipped:roundtrip-equal" } else { "shipped:roundtrip-differs" }, true);
    if !same {
        out.viol(Viol::new("shipped:Jwt:serialization-roundtrip", "serialize(deserialize(bytes)) != bytes for the shipped Jwt automaton", json!({"len_bytes": JWT_BYTES.len(), "len_again": again.len()})));
    }
    match product::deserialize(JWT_BYTES) {
        Some(own) => {
            let same = own.sorted_trans == lib.sorted_trans && own.sorted_finals == lib.sorted_finals && own.nb_states == lib.nb_states && own.initial == lib.initial;
            out.eval(if same { "shipped:own-reader-agrees" } else { "shipped:own-reader-differs" }, true);
            if !same {
                out.viol(Viol::new("shipped:Jwt:deserialize-differs", "the library's reading of the shipped bytes differs from the checker's reading of the same format", json!({})));
            }
        }
        None => {
            out.eval("shipped:own-reader-fails", true);
            out.viol(Viol::new("shipped:Jwt:format", "the shipped bytes are not a well-formed serialisation", json!({})));
        }
    }
    if lib.out_of_range {
        out.viol(Viol::new("shipped:Jwt:state-out-of-range", "the shipped automaton uses a state >= nb_states", json!({})));
    }
    out.counter("shipped_automaton_states", lib.nb_states as u64);
    out.counter("shipped_automaton_transitions", lib.n_trans as u64);
    Some(lib)
}

// ---------------------------------------------------------------------------------------------
// part 3b: base64
// ---------------------------------------------------------------------------------------------

fn b64_cases(seed: u64, thorough: bool) -> Vec<B64Case> {
    let mut v: Vec<B64Case> = vec![];
    let mut seen: BTreeSet<(bool, bool, Vec<u8>)> = BTreeSet::new();
    let mut push = |v: &mut Vec<B64Case>, url: bool, padded: bool, input: Vec<u8>| {
        if seen.insert((url, padded, input.clone())) {
            v.push(B64Case { url, padded, input });
        }
    };
    for url in [false, true] {
        let alpha = b64::alphabet(url);
        for n in 0..=64usize {
            for kind in 0..4 {
                // quick: the two constant contents only near the ends of the length range
                if !thorough && kind < 2 && n > 12 && n < 61 {
                    continue;
                }
                // ---- unpadded mode: every length
                let p = match n % 4 {
                    0 => Some(n / 4 * 3),
                    2 => Some(n / 4 * 3 + 1),
                    3 => Some(n / 4 * 3 + 2),
                    _ => None,
                };
                match p {
                    Some(p) => {
                        let enc = b64::encode(&b64::payload(kind, p, seed), url, false);
                        assert_eq!(enc.len(), n);
                        push(&mut v, url, false, enc.clone());
                        // non-canonical trailing bits
                        if n % 4 != 0 && (kind >= 2 || thorough || n < 8) {
                            let mut x = enc.clone();
                            let last = alpha.iter().position(|c| *c == x[n - 1]).unwrap();
                            x[n - 1] = alpha[last | 1];
                            push(&mut v, url, false, x);
                        }
                    }
                    None => {
                        // impossible length: a valid string plus one character
                        let mut enc = b64::encode(&b64::payload(kind, n / 4 * 3, seed), url, false);
                        enc.push(alpha[(kind * 21) % 64]);
                        push(&mut v, url, false, enc);
                    }
                }
                // ---- padded mode
                if n % 4 == 0 {
                    let pmax = n / 4 * 3;
                    for pads in 0..=2usize {
                        if pmax < pads || (n == 0 && pads > 0) {
                            continue;
                        }
                        let enc = b64::encode(&b64::payload(kind, pmax - pads, seed), url, true);
                        assert_eq!(enc.len(), n);
                        push(&mut v, url, true, enc.clone());
                        // the same string given to the unpadded instruction (must be rejected if it has '=')
                        if kind == 2 {
                            push(&mut v, url, false, enc.clone());
                        }
                        if pads > 0 && (kind >= 2 || thorough || n <= 8) {
                            // non-canonical trailing bits
                            let mut x = enc.clone();
                            let j = n - pads - 1;
                            let last = alpha.iter().position(|c| *c == x[j]).unwrap();
                            x[j] = alpha[last | 1];
                            push(&mut v, url, true, x);
                        }
                        if (kind == 2 || (thorough && kind == 3)) && n >= 4 {
                            // misplaced '='
                            for pos in [n - 2, n - 3, n - 4, 0, n / 2] {
                                let mut x = enc.clone();
                                if x[pos] != b'=' || pos == n - 2 {
                                    x[pos] = b'=';
                                    if pos == n - 2 {
                                        x[n - 1] = alpha[0]; // "=A"
                                    }
                                    push(&mut v, url, true, x);
                                }
                            }
                            let mut x = enc.clone();
                            x[n - 3..].copy_from_slice(b"===");
                            push(&mut v, url, true, x);
                            let mut x = enc.clone();
                            x[n - 4..].copy_from_slice(b"====");
                            push(&mut v, url, true, x);
                        }
                    }
                } else if kind == 2 && (n < 12 || thorough) {
                    // outside the documented domain of the padded instruction (documented panic)
                    let enc: Vec<u8> = (0..n).map(|i| alpha[(i * 5 + 1) % 64]).collect();
                    push(&mut v, url, true, enc);
                }
            }
        }
        // ---- every single-character corruption of 6 valid inputs (3 padding forms x 2 modes)
        let corruptors: Vec<u8> = if url { vec![b'=', b'+', b'/', 0x00, 0x80, b' '] } else { vec![b'=', b'-', b'_', 0x00, 0x80, b' '] };
        for (padded, p) in [(true, 9usize), (true, 8), (true, 7), (false, 9), (false, 8), (false, 7)] {
            let enc = b64::encode(&b64::payload(3, p, seed ^ 0x5eed), url, padded);
            for pos in 0..enc.len() {
                for c in &corruptors {
                    if enc[pos] != *c {
                        let mut x = enc.clone();
                        x[pos] = *c;
                        push(&mut v, url, padded, x);
                    }
                }
            }
        }
    }
    v
}

struct VarCase {
    input: Vec<u8>,
    url: bool,
    filler: Option<u8>,
    /// false: do not constrain the output (used for malformed inputs: the decode itself must be unsatisfiable)
    assert_output: bool,
}

fn var_cases(seed: u64, thorough: bool) -> Vec<(String, VarCase)> {
    let mut v = vec![];
    let mut seen = BTreeSet::new();
    let fillers: Vec<Option<u8>> = if thorough { vec![None, Some(0x00u8), Some(b'A'), Some(b'='), Some(0xff)] } else { vec![None, Some(0x00u8), Some(b'=')] };
    for url in [false, true] {
        let alpha = b64::alphabet(url);
        for len in 0..=32usize {
            for filler in fillers.clone() {
                let mut inputs: Vec<Vec<u8>> = vec![];
                if len % 4 == 0 {
                    for pads in 0..=2usize {
                        if len == 0 && pads > 0 {
                            continue;
                        }
                        for kind in if thorough { vec![2usize, 3] } else { vec![3usize] } {
                            inputs.push(b64::encode(&b64::payload(kind, len / 4 * 3 - pads, seed), url, true));
                        }
                    }
                    if len >= 4 {
                        // malformed: foreign character, misplaced '=', non-canonical bits
                        let good = b64::encode(&b64::payload(3, len / 4 * 3 - 1, seed), url, true);
                        for (pos, c) in [(0usize, b' '), (len - 1, 0x80u8), (len / 2, if url { b'+' } else { b'-' }), (len - 4, b'=')] {
                            let mut x = good.clone();
                            x[pos] = c;
                            inputs.push(x);
                        }
                        let mut x = good.clone();
                        let last = alpha.iter().position(|c| *c == x[len - 2]).unwrap();
                        x[len - 2] = alpha[last | 1];
                        inputs.push(x);
                    }
                } else {
                    // actual length not a multiple of 4
                    inputs.push((0..len).map(|i| alpha[(i * 7 + 3) % 64]).collect());
                }
                for input in inputs {
                    let wf = b64::ref_decode(&input, url, true).is_ok();
                    let key = format!("{}:filler={}:{}", if url { "url" } else { "std" }, filler.map(|f| format!("{f:02x}")).unwrap_or("assign_var_base64".into()), vcore::hex(&input));
                    if seen.insert(key.clone()) {
                        v.push((key, VarCase { input, url, filler, assert_output: wf }));
                    }
                }
            }
        }
    }
    v
}

fn main() {
    let mut cx = Ctx::from_args("C19", Level::ModelChecking);
    cx.worker_rayon_threads = Some(1);
    let tier = cx.tier;
    let seed = cx.seed;
    let thorough = tier.is_thorough();
    cx.set_rule(
        "part 1: every RefExpr of depth <= 2 over the atoms (quick: a, [ab], a@1; thorough: + b, any-byte, eps, b@2) and the \
         combinators neg, list, non_empty_list, optional, repeat(2), repeat_at_most(2), mark_bytes, cat, union, inter, minus, \
         separated_list, separated_non_empty_list (thorough: + depth 3 = combinators over depth-2 expressions and atoms, 2 atoms), \
         plus a fixed list with every other public combinator and the repository's test expressions; per expression the product of \
         the compiled automaton (all 256 bytes per state) with the reference derivative automaton is explored completely \
         (invariant: final <=> nullable, live successor <=> live successor, equal markers). Expressions with a marker under a \
         complement or that are not output-deterministic are outside the contract, skipped and counted. part 2: words read off \
         the product (shortest word into every product state, extended to the shortest accepted word; words leaving the live \
         region; non-final prefixes; every single-byte substitution by a class representative; one letter more / less) replayed \
         through AutomatonChip::parse configured with that automaton, plus 1-deviation faults on false statements. part 3: shipped \
         Jwt automaton = compilation of its (transcribed) specification up to state renaming, serialisation round trip; base64 / \
         base64url fixed-length decoding for every length 0..=64, every padding form, 4 contents, every single-character \
         corruption of 6 valid inputs, variable-length decoding for every actual length 0..=32 x filler. A case is one batch of \
         expressions / one expression / one base64 input; evaluations count product explorations and MockProver verdicts.",
    );
    cx.assume("MockProver is the satisfiability oracle (its agreement with the real verifier is C02's subject)");
    cx.assume("in-circuit rejection is explored for the honest prover and for <= 1 deviation from it (propagate mode)");
    cx.assume("the Jwt specification source is private to the library: the check compares against a transcription of spec_jwt() written with the public combinators");
    cx.assume("base64 well-formedness = RFC 4648 canonical encodings (no foreign characters, '=' only as final padding when padding is selected, zero trailing bits); the module documentation of base64_chip.rs says the chip does not enforce the padding format");

    // ------------------------------------------------------------------ part 1
    let at = atoms(tier.pick(3, 7));
    let d1 = depth1(&at);
    let mut le1: Vec<RefExpr> = at.clone();
    le1.extend(d1.iter().cloned());
    let mut cases: Vec<(String, Vec<RefExpr>)> = vec![];
    cases.push(("d0".into(), at.clone()));
    cases.push(("d1".into(), d1.clone()));
    for e in &d1 {
        cases.push((format!("d2:unary:{}", e.show()), UNARY.iter().map(|op| un(*op, e)).collect()));
    }
    for op in BINARY {
        for l in &le1 {
            let v: Vec<RefExpr> = le1.iter().filter(|r| l.depth() == 1 || r.depth() == 1).map(|r| bin(op, l, r)).collect();
            if !v.is_empty() {
                cases.push((format!("d2:{op:?}:{}", l.show()), v));
            }
        }
    }
    for (k, e) in specs::extras() {
        cases.push((format!("extra:{k}"), vec![e]));
    }
    if thorough {
        // depth 3 over 2 atoms: every combinator over (depth-2 expression, atom) in both orders
        let at2 = vec![RefExpr::byte(b'a'), RefExpr::marked(b'a', 1)];
        let d1b = depth1(&at2);
        let mut le1b = at2.clone();
        le1b.extend(d1b.iter().cloned());
        let mut d2b: Vec<RefExpr> = vec![];
        for e in &d1b {
            for op in UNARY {
                d2b.push(un(op, e));
            }
        }
        for op in BINARY {
            for l in &le1b {
                for r in &le1b {
                    if l.depth() == 1 || r.depth() == 1 {
                        d2b.push(bin(op, l, r));
                    }
                }
            }
        }
        let d2b: Vec<RefExpr> = d2b.into_iter().filter(|e| e.well_formed()).collect();
        for (j, chunk) in d2b.chunks(8).enumerate() {
            let mut v = vec![];
            for e in chunk {
                for op in UNARY {
                    v.push(un(op, e));
                }
                for op in BINARY {
                    for a in &at2 {
                        v.push(bin(op, e, a));
                        v.push(bin(op, a, e));
                    }
                }
            }
            cases.push((format!("d3:{j}:{}", chunk[0].show()), v));
        }
    }
    // depth-4 "spines" over the two unmarked letters a, b: U2(B2(U1(B1(x, y)), z)) in both operand
    // orders, with U1, U2 in UNARY + identity. Iteration of a language whose words all have length
    // >= 2, followed or preceded by something else and then made optional / iterated again, needs
    // this depth. Thorough: a further binary combinator with a depth-<=1 unary operand on top.
    {
        let ab = [RefExpr::byte(b'a'), RefExpr::byte(b'b')];
        let un_or_id = |u: Option<U>, e: &RefExpr| match u {
            Some(op) => un(op, e),
            None => e.clone(),
        };
        // quick: the iteration-like unary combinators only (inner: none / star / plus / optional;
        // outer: star / plus / optional / at-most-2); thorough: all of UNARY in both positions
        let mut u_opts: Vec<Option<U>> = vec![None];
        let (inner_u, outer_u): (Vec<U>, Vec<U>) = if thorough { (UNARY.to_vec(), UNARY.to_vec()) } else { (vec![U::Star, U::Plus, U::Opt], vec![U::Star, U::Plus, U::Opt, U::AtMost2]) };
        u_opts.extend(inner_u.iter().map(|u| Some(*u)));
        let mut spines: Vec<RefExpr> = vec![];
        for b1 in BINARY {
            for x in &ab {
                for y in &ab {
                    let inner = bin(b1, x, y);
                    for u1 in &u_opts {
                        let mid = un_or_id(*u1, &inner);
                        for b2 in BINARY {
                            for z in &ab {
                                spines.push(bin(b2, &mid, z));
                                spines.push(bin(b2, z, &mid));
                            }
                        }
                    }
                }
            }
        }
        for (j, chunk) in spines.chunks(64).enumerate() {
            let mut v = vec![];
            for e in chunk {
                for u2 in &outer_u {
                    v.push(un(*u2, e));
                }
            }
            cases.push((format!("d4-spine:{j}:{}", chunk[0].show()), v));
        }
        if thorough {
            let mut tops: Vec<RefExpr> = vec![];
            for w in &ab {
                tops.push(w.clone());
                for u in [U::Star, U::Plus, U::Opt] {
                    tops.push(un(u, w));
                }
            }
            for (j, chunk) in spines.chunks(16).enumerate() {
                let mut v = vec![];
                for e in chunk {
                    for b3 in BINARY {
                        for t in &tops {
                            v.push(bin(b3, t, e));
                            v.push(bin(b3, e, t));
                        }
                    }
                }
                cases.push((format!("d4-top:{j}:{}", chunk[0].show()), v));
            }
        }
    }
    let total: usize = cases.iter().map(|c| c.1.len()).sum();
    cx.extra("expressions_enumerated", json!(total));
    let only = std::env::var("C19_ONLY").ok();
    let want = |g: &str| only.as_ref().map(|o| o.split(',').any(|x| x == g)).unwrap_or(true);
    let no_cases: Vec<(String, Vec<RefExpr>)> = vec![];
    cx.run_cases("product", if want("product") { &cases } else { &no_cases }, |batch| {
        let mut out = CaseOut::batch();
        for e in batch {
            account(e, &mut out);
        }
        out.sample = Some(json!({"expressions_in_batch": batch.len(), "first": batch.first().map(|e| e.show()), "last": batch.last().map(|e| e.show())}));
        out
    });

    // ------------------------------------------------------------------ markers put under a complement by a later `mark`
    // `neg` is documented to fail when a marker is under a negation; a `mark*` applied afterwards puts one there
    {
        let a = || RefExpr::byte(b'a');
        let ab = || RefExpr::Bytes(vec![b'a', b'b']);
        let mut mc: Vec<(String, RefExpr)> = vec![
            RefExpr::MarkBytes(Box::new(RefExpr::Neg(Box::new(a()))), vec![b'a'], 2),
            RefExpr::MarkBytes(Box::new(RefExpr::Neg(Box::new(ab()))), vec![b'a'], 2),
            RefExpr::MarkBytes(Box::new(RefExpr::Minus(Box::new(RefExpr::Star(Box::new(ab()))), Box::new(a()))), vec![b'a'], 2),
            RefExpr::MarkFn(Box::new(RefExpr::Neg(Box::new(a()))), vec![(b'a', 3)]),
            RefExpr::ReplaceMarkers(Box::new(RefExpr::Neg(Box::new(a()))), vec![(0, 1)]),
        ]
        .into_iter()
        .map(|e| (e.show(), e))
        .collect();
        if !want("product") {
            mc.clear();
        }
        cx.run_cases("mark-over-complement", &mc, |e| {
            let mut out = CaseOut::batch();
            let built = catch(|| e.to_regex());
            match built {
                Err(_) => out.eval("refused(documented)", true),
                Ok(r) => {
                    out.eval("not-refused", true);
                    // what the resulting automaton does with a few words
                    let aut = catch(|| impl_aut!(&r.to_automaton()));
                    let mut example = String::new();
                    match &aut {
                        Err(p) => example = format!("to_automaton() then panics: {}", p.lines().next().unwrap_or("")),
                        Ok(i) => {
                            'find: for w in [b"b".to_vec(), b"c".to_vec(), b"bb".to_vec(), b"ab".to_vec(), b"ba".to_vec(), b"a".to_vec(), b"aa".to_vec()] {
                                if let Some(ms) = i.run(&w) {
                                    for (pos, m) in ms.iter().enumerate() {
                                        if *m != 0 && w[pos] != b'a' {
                                            example = format!("the compiled automaton accepts {} with markers {ms:?}: byte {:?} is marked although only 'a' was selected", show_word(&w), w[pos] as char);
                                            break 'find;
                                        }
                                    }
                                }
                            }
                        }
                    }
                    out.viol(Viol::new(
                        "regex:mark-over-neg:marker-under-complement-not-refused",
                        format!("{}: the marking puts a marked letter under a complement; neg() is documented to fail in that situation, the later mark does not. {example}", e.show()),
                        json!({"expression": e.show(), "example": example}),
                    ));
                }
            }
            out
        });
    }

    // ------------------------------------------------------------------ self-check of the reference semantics
    // the derivative automaton against a direct set semantics, on every marked word of length <= 3
    {
        let mut sc: Vec<(String, Vec<RefExpr>)> = vec![("d0-d1".into(), le1.clone())];
        let step = tier.pick(41, 7);
        let mut j = 0usize;
        let mut cur: Vec<RefExpr> = vec![];
        for (k, batch) in &cases {
            if k.starts_with("d2:") {
                for e in batch {
                    j += 1;
                    if j % step == 0 && e.well_formed() {
                        cur.push(e.clone());
                        if cur.len() == 64 {
                            sc.push((format!("d2-sample-{}", sc.len()), std::mem::take(&mut cur)));
                        }
                    }
                }
            }
        }
        if !cur.is_empty() {
            sc.push((format!("d2-sample-{}", sc.len()), cur));
        }
        if !want("selfcheck") {
            sc.clear();
        }
        let bad: Mutex<Vec<String>> = Mutex::new(vec![]);
        cx.run_cases("reference-selfcheck", &sc, |batch| {
            let mut out = CaseOut::batch();
            for e in batch {
                if !e.well_formed() {
                    continue;
                }
                let Ok(r) = RefAut::build(e) else { continue };
                match r.selfcheck(&e.kernel(), 3) {
                    (n, None) => {
                        out.eval("agree", true);
                        out.counter("selfcheck_marked_words", n);
                    }
                    (_, Some(w)) => {
                        out.eval("DISAGREE", true);
                        bad.lock().unwrap().push(format!("{} on {:?}", e.show(), w));
                    }
                }
            }
            out
        });
        let bad = bad.into_inner().unwrap();
        if want("selfcheck") {
            cx.require(bad.is_empty(), &format!("derivative automaton and direct set semantics disagree: {:?}", bad.iter().take(3).collect::<Vec<_>>()));
            cx.require(cx.class_count("reference-selfcheck:agree") > 300, "the reference self-check must cover hundreds of expressions");
        }
    }

    // ------------------------------------------------------------------ part 3a (long-running single cases first in their group)
    let shipped: Mutex<Option<ImplAut>> = Mutex::new(None);
    let jwt = specs::jwt_spec();
    let shipped_cases: Vec<(String, u8)> = vec![("Jwt:bytes".into(), 0), ("Jwt:spec-compilation-vs-shipped".into(), 1), ("Jwt:reference-vs-shipped".into(), 2)];
    cx.run_cases("shipped", &shipped_cases, |which| {
        let mut out = CaseOut::batch();
        match which {
            0 => {
                let a = shipped_bytes_case(&mut out);
                *shipped.lock().unwrap() = a;
            }
            1 => {
                let Some(lib) = catch(|| {
                    let lib = spec_library();
                    impl_aut!(lib.get(&StdLibParser::Jwt).unwrap())
                })
                .ok() else {
                    return out;
                };
                match compile(&jwt) {
                    Err(p) => {
                        out.eval("spec:compile-panic", true);
                        out.viol(Viol::new("shipped:Jwt:spec-compile-panic", format!("compiling the transcribed Jwt specification panics: {p}"), json!({})));
                    }
                    Ok(fresh) => {
                        let (s, t, diff) = product::equivalent(&lib, &fresh);
                        out.counter("product_states", s);
                        out.counter("product_transitions", t);
                        out.counter("shipped_vs_spec_product_states", s);
                        out.eval(if diff.is_none() { "spec:equal-up-to-renaming" } else { "spec:differs" }, true);
                        let same_bytes = product::serialize(&fresh) == JWT_BYTES;
                        out.count(if same_bytes { "spec:fresh-serialisation-identical" } else { "spec:fresh-serialisation-differs(state numbering)" }, 1);
                        if let Some(w) = diff {
                            out.viol(Viol::new(
                                "shipped:Jwt:differs-from-spec-compilation",
                                format!("the shipped Jwt automaton and the compilation of its specification differ after the word {}", show_word(&w)),
                                json!({"word_bytes": w, "shipped": lib.run(&w), "fresh": fresh.run(&w)}),
                            ));
                        }
                    }
                }
            }
            _ => {
                // the checker's reference semantics of the transcribed spec against the shipped automaton
                let Some(lib) = catch(|| {
                    let lib = spec_library();
                    impl_aut!(lib.get(&StdLibParser::Jwt).unwrap())
                })
                .ok() else {
                    return out;
                };
                match RefAut::build(&jwt) {
                    Err(n) => {
                        out.eval("reference:capped", false);
                        out.counter("reference_capped", 1);
                        let _ = n;
                    }
                    Ok(r) => {
                        out.counter("jwt_reference_states", r.n as u64);
                        if r.non_od.is_some() {
                            out.eval("reference:not-output-deterministic", false);
                            return out;
                        }
                        let p = explore(&lib, &r, false);
                        out.counter("product_states", p.states);
                        out.counter("product_transitions", p.transitions);
                        out.eval(if p.mismatch.is_none() { "reference:equal" } else { "reference:differs" }, true);
                        if let Some(m) = p.mismatch {
                            out.viol(Viol::new(
                                format!("shipped:Jwt:differs-from-documented-spec:{}", m.kind),
                                format!(
                                    "shipped Jwt automaton vs. the documented meaning of its specification: on {} the reference gives {:?}, the automaton {:?}",
                                    show_word(&m.word),
                                    m.reference,
                                    m.implementation
                                ),
                                json!({"word_bytes": m.word}),
                            ));
                        }
                    }
                }
            }
        }
        out
    });
    let shipped = shipped.into_inner().unwrap();

    // ------------------------------------------------------------------ part 2
    let mut confs: Vec<(String, Conf)> = vec![];
    let (ma, mr) = (tier.pick(10, 60), tier.pick(20, 200));
    let xb: Vec<u8> = if thorough { vec![0x00, 0xff, b'c'] } else { vec![0xff] };
    for e in at.iter().chain(d1.iter()) {
        let faults = thorough || vcore::fnv(&e.show()) % 2 == 0;
        confs.push((format!("d1:{}", e.show()), Conf { e: e.clone(), vectors: vec![], max_acc: ma, max_rej: mr, faults, extra_bytes: xb.clone() }));
    }
    // depth 2 on a diagonal
    let stride = tier.pick(97, 101);
    let mut j = 0usize;
    for (k, batch) in &cases {
        if !k.starts_with("d2:") {
            continue;
        }
        for e in batch {
            j += 1;
            if j % stride == 0 {
                confs.push((format!("d2:{}", e.show()), Conf { e: e.clone(), vectors: vec![], max_acc: ma / 2, max_rej: mr / 2, faults: false, extra_bytes: xb.clone() }));
            }
        }
    }
    for (k, e) in specs::extras() {
        let vectors: Vec<(Vec<u8>, Option<Vec<Marker>>)> = match k.as_str() {
            "repo:hard0" => specs::hard_vectors(0).into_iter().map(|(s, m)| (s.as_bytes().to_vec(), m)).collect(),
            "repo:hard1" => specs::hard_vectors(1).into_iter().map(|(s, m)| (s.as_bytes().to_vec(), m)).collect(),
            _ => vec![],
        };
        let hard = k.starts_with("repo:hard");
        if hard || k.starts_with("repo:") || thorough {
            confs.push((format!("extra:{k}"), Conf { e, vectors, max_acc: if hard { 40 } else { ma }, max_rej: if hard { 60 } else { mr }, faults: hard, extra_bytes: xb.clone() }));
        }
    }
    if !want("parse") {
        confs.clear();
    }
    // ---- libraries of 2..5 automata in one chip (the shipped library has one member)
    {
        let w = |s: &str| RefExpr::Word(s.as_bytes().to_vec());
        let members: Vec<RefExpr> = vec![
            w("ab"),
            w("cd"),
            w("ef"),
            RefExpr::Union(vec![w("a"), w("abc")]),
            RefExpr::Cat(vec![w("x"), RefExpr::Bytes(vec![b'0', b'1']), w("y")]),
            w("abcde"),
            RefExpr::Eps,
        ];
        let mut libs: Vec<(String, Vec<RefExpr>)> = vec![];
        let mut add = |idx: &[usize]| {
            let l: Vec<RefExpr> = idx.iter().map(|i| members[*i].clone()).collect();
            libs.push((format!("library{:?}", idx), l));
        };
        add(&[0, 1]);
        add(&[0, 1, 2]);
        add(&[5, 0, 1]);
        add(&[0, 5, 1, 2]);
        add(&[3, 4, 0]);
        add(&[0, 0, 0]);
        if tier.is_thorough() {
            add(&[0, 1, 2, 3, 4]);
            add(&[4, 3, 2, 1, 0]);
            add(&[5, 5, 0]);
            add(&[6, 0, 1]);
            add(&[0, 6, 1, 6]);
            add(&[3, 3, 4, 4]);
        }
        // (before the long parse group, with a wall share of its own)
        cx.next_group_share(if tier.is_thorough() { 240.0 } else { 10.0 });
        cx.run_cases("library", &libs, library_case);
    }

    cx.run_cases("parse", &confs, conformance);


    // the shipped Jwt automaton in-circuit: the repository's two accepted documents are too long for
    // the 0..40 window; the minimal one and its corruptions are used in thorough only
    if let Some(lib) = &shipped {
        let mut words: Vec<(String, (Vec<u8>, bool))> = vec![];
        let min = specs::MINIMAL_JWT.as_bytes().to_vec();
        words.push(("minimal".into(), (min.clone(), true)));
        words.push(("minimal-truncated".into(), (min[..min.len() - 1].to_vec(), false)));
        words.push(("hello".into(), (b"hello world".to_vec(), false)));
        words.push(("empty".into(), (vec![], false)));
        if thorough {
            words.push(("full".into(), (specs::FULL_INPUT_JWT.as_bytes().to_vec(), true)));
            for pos in (0..min.len()).step_by(7) {
                let mut x = min.clone();
                x[pos] = if x[pos] == b'"' { b'\'' } else { b'"' };
                let ok = lib.run(&x).is_some();
                words.push((format!("minimal-subst-{pos}"), (x, ok)));
            }
        }
        let k0 = circ::k_for(lib.n_trans + lib.n_finals + 1, 2600, false);
        cx.run_cases("parse-shipped-Jwt", &words, |(word, expect)| {
            let mut out = CaseOut::batch();
            let markers = lib.run(word);
            if markers.is_some() != *expect {
                out.viol(Viol::new("shipped:Jwt:repository-vector", format!("shipped automaton accepts = {}, repository test expects {}", markers.is_some(), expect), json!({"word": show_word(word)})));
            }
            let circuit = HCircuit { spec: ASpec::Jwt, job: Job::Parse(word.clone()) };
            let inst: Vec<F> = statement(word, &markers.clone().unwrap_or(vec![0; word.len()]));
            let run = run_k(&circuit, k0, inst, vec![], false);
            out.eval(&format!("{}:{}", if markers.is_some() { "accepted-word" } else { "rejected-word" }, run.outcome.name()), true);
            out.counter("traces_validated", 1);
            if run.outcome.is_sat() != markers.is_some() {
                out.viol(Viol::new(
                    if markers.is_some() { "parse:Jwt:accepted-word-not-satisfiable" } else { "parse:Jwt:rejected-word-satisfiable" },
                    format!("shipped Jwt parser in-circuit: automaton says accepted = {}, circuit says {:?}", markers.is_some(), run.outcome),
                    json!({"word": show_word(word)}),
                ));
            }
            out
        });
    }

    // ------------------------------------------------------------------ part 3b: base64
    let mut bcases: Vec<(String, B64Case)> = b64_cases(seed, thorough).into_iter().map(|c| (c.key(), c)).collect();
    if !want("base64-fixed") {
        bcases.clear();
    }
    // cross-check of the reference with the base64 crate (padded mode; the crate wants canonical input)
    let mut disagreements = vec![];
    for (_, c) in &bcases {
        if c.padded && c.input.len() % 4 == 0 {
            let mine = b64::ref_decode(&c.input, c.url, true).ok();
            let theirs = b64::crate_decode(&c.input, c.url);
            if mine != theirs {
                // the crate (0.13) also accepts unpadded input in a padded configuration
                let unpadded_ok = !c.input.contains(&b'=');
                if !(unpadded_ok && mine.is_some()) {
                    disagreements.push(vcore::hex(&c.input));
                }
            }
        }
    }
    cx.extra("base64_reference_vs_crate_disagreements", json!(disagreements));
    cx.require(disagreements.is_empty(), "the explicit base64 reference must agree with the base64 crate on padded inputs");
    let kb = {
        let probe = B64Case { url: true, padded: true, input: vec![b'A'; 64] };
        vgad::min_k(&probe).unwrap_or(13)
    };
    cx.extra("base64_k", json!(kb));
    cx.run_cases("base64-fixed", &bcases, |c| {
        let mut out = CaseOut::batch();
        // the full op-circuit exploration (instance binding, exposed-value lies) on a deterministic subset
        let small = if thorough { c.input.len() <= 8 } else { c.input.len() <= 4 && vcore::fnv(&c.key()) % 16 == 0 };
        if small {
            // honest run + instance binding + exposed-value lies
            let rep = vgad::explore_honest(c, kb, &mut out);
            out.counter("traces_validated", 1);
            let _ = rep;
        } else {
            let run = vgad::run_once(c, kb, vec![], false);
            out.eval(&format!("honest:{}", run.outcome.name()), true);
            out.counter("traces_validated", 1);
            let sat = run.outcome == vgad::Outcome::Sat;
            let detail = json!({"case": c.key(), "input": String::from_utf8_lossy(&c.input)});
            if sat {
                if let vgad::Judgement::Wrong(w) = c.judge(&run.ins, &run.outs) {
                    let what = if c.expect_sat() { "honest-result-wrong" } else { "out-of-domain-accepted" };
                    out.viol(Viol::new(format!("{}:{what}", c.op()), format!("{} on {:?}: {w}", c.instr(), String::from_utf8_lossy(&c.input)), detail));
                }
            } else if c.expect_sat() {
                out.viol(Viol::new(format!("{}:completeness:{}", c.op(), run.outcome.name()), format!("well-formed input {:?} is not accepted: {:?}", String::from_utf8_lossy(&c.input), run.outcome), detail));
            }
        }
        out.counter(&format!("base64_class:{}", c.class()), 1);
        out.sample = Some(json!({"case": c.key(), "input": String::from_utf8_lossy(&c.input), "class": c.class()}));
        out
    });
    let mut vcases = var_cases(seed, thorough);
    if !want("base64-var") {
        vcases.clear();
    }
    cx.run_cases("base64-var", &vcases, |c| {
        let mut out = CaseOut::batch();
        let dec = b64::ref_decode(&c.input, c.url, true);
        let expected = dec.clone().map(|d| b64::expected_output(&d, c.input.len())).unwrap_or_default();
        let mk = |expected: Option<Vec<u8>>| HCircuit { spec: ASpec::None, job: Job::B64Var { input: c.input.clone(), url: c.url, filler: c.filler, expected } };
        // first without any constraint on the output: is the decoding itself satisfiable, and what does it give?
        let run = run_k(&mk(None), 13, vec![], vec![], false);
        out.counter("traces_validated", 1);
        let class = match &dec {
            Ok(_) => "well-formed",
            Err(c) => c,
        };
        out.eval(&format!("{class}:{}", run.outcome.name()), true);
        let entry = if c.filler.is_some() { "base64_from_vec+var_decode" } else { "assign_var_base64+var_decode" };
        let observed: Option<Vec<u8>> = run.observed.iter().map(|o| o.and_then(|x| vgad::val::as_u8(&x))).collect();
        let detail = json!({"input": String::from_utf8_lossy(&c.input), "input_hex": vcore::hex(&c.input), "url": c.url, "filler": c.filler, "decoded_by_chip": observed, "standard_decoding": dec.clone().ok()});
        // one input class of its own: through base64_from_vec, a payload that fits in one alignment chunk is
        // replaced by the filler before decoding (everything decodes to zero bytes)
        let one_chunk_zeroed = c.filler.is_some() && c.input.len() == 4 && run.outcome.is_sat() && observed == Some(vec![0, 0, 0]) && dec.clone().ok() != Some(vec![0, 0, 0]);
        if one_chunk_zeroed {
            out.viol(Viol::new(
                "base64:base64_from_vec:len<=4:payload-replaced-by-filler",
                format!("{:?} (actual length 4, capacity 32) decodes in-circuit to [0, 0, 0]; the standard decoding is {:?}", String::from_utf8_lossy(&c.input), dec),
                detail,
            ));
            return out;
        }
        let lc = "";
        match (&dec, run.outcome.is_sat()) {
            (Ok(_), true) => {
                if observed.as_ref() != Some(&expected) {
                    out.viol(Viol::new(
                        format!("base64:var:well-formed{lc}:honest-result-wrong"),
                        format!("{:?} decodes in-circuit to {:?}, the standard decoding (zero-completed) is {:?}", String::from_utf8_lossy(&c.input), observed, expected),
                        detail,
                    ));
                } else if c.assert_output {
                    // the result is bound: equal to the reference => satisfiable, one byte off => not
                    let r2 = run_k(&mk(Some(expected.clone())), 13, vec![], vec![], false);
                    out.eval(&format!("bound-to-reference:{}", r2.outcome.name()), true);
                    if !r2.outcome.is_sat() {
                        out.viol(Viol::new(format!("base64:var:well-formed{lc}:completeness:{}", r2.outcome.name()), format!("asserting the standard decoding of {:?} is not satisfiable: {:?}", String::from_utf8_lossy(&c.input), r2.outcome), detail.clone()));
                    }
                    if !expected.is_empty() {
                        let mut wrong = expected.clone();
                        let j = wrong.len() / 2;
                        wrong[j] ^= 1;
                        let r3 = run_k(&mk(Some(wrong)), 13, vec![], vec![], false);
                        out.eval(&format!("bound-to-wrong-result:{}", r3.outcome.name()), true);
                        if r3.outcome.is_sat() {
                            out.viol(Viol::new(format!("base64:var:well-formed{lc}:wrong-result-accepted"), format!("a wrong decoding of {:?} is accepted", String::from_utf8_lossy(&c.input)), detail));
                        }
                    }
                }
            }
            (Ok(_), false) => out.viol(Viol::new(format!("base64:var:well-formed{lc}:completeness:{}", run.outcome.name()), format!("well-formed input {:?} not accepted: {:?}", String::from_utf8_lossy(&c.input), run.outcome), detail)),
            (Err(cl), true) => out.viol(Viol::new(
                if cl.starts_with("precondition") { format!("base64:base64_from_vec:length-not-multiple-of-4{lc}:out-of-domain-accepted") } else { format!("base64:{cl}{lc}:out-of-domain-accepted") },
                format!("{entry}{}: malformed input ({cl}) {:?} is decoded (to {:?}); the circuit leaves the output unconstrained", if c.url { " (url-safe)" } else { "" }, String::from_utf8_lossy(&c.input), observed),
                detail,
            )),
            (Err(_), false) => {}
        }
        out
    });

    // ------------------------------------------------------------------ totals and self-checks
    let dead = cx.counter_value("compiled_automata_with_dead_states");
    if dead > 0 {
        cx.note(format!(
            "{dead} compiled automata with a non-empty language contain a reachable state that cannot reach a final state (the doc of \
             Regex::to_automaton promises there are none); the accepted language is unaffected, so this is counted, not reported"
        ));
    }
    cx.note(
        "mark / mark_bytes / replace_markers are read as the doc says: they overwrite the markers of the bytes (letters) of self, \\
         i.e. they are applied to every letter of the expression; an expression in which this puts a marked letter under a \\
         complement is outside the contract and is not product-checked; that the library does not refuse such expressions is \\
         checked separately (group mark-over-complement)",
    );
    cx.note("not covered: ParserGadget (fetch_bytes, ascii_to_int, date_to_int) and data_types.rs are anchors of the property but not part of its statement");
    cx.states = cx.counter_value("product_states");
    cx.transitions = cx.counter_value("product_transitions");
    cx.traces_validated = cx.counter_value("traces_validated");
    let checked = cx.counter_value("expressions_checked");
    cx.extra("expressions_checked", json!(checked));
    cx.extra("expressions_skipped_non_output_deterministic", json!(cx.counter_value("expressions_skipped_non_output_deterministic")));
    cx.extra(
        "expressions_ill_formed_not_built",
        json!(cx.class_count("product:ill-formed(marker under complement)") + cx.class_count("product:ill-formed(mark applied over a complement)")),
    );
    // the anti-vacuity thresholds below presuppose that every group ran to completion; if the wall budget
    // was hit the runner reports the cap (exhaustive = false) and the thresholds are not applicable
    if cx.remaining_s() <= 0.0 {
        cx.note("wall budget exhausted: anti-vacuity thresholds not evaluated");
        cx.finish()
    }
    cx.require(cx.counter_value("reference_capped") == 0, "the derivative closure must stay below the state cap");
    cx.require(checked > 5_000, "thousands of expressions must be product-checked");
    cx.require(cx.class_count("product:equal") > 5_000, "most expressions must agree with the reference");
    cx.require(cx.class_count("parse:accepted-word:sat") > 100 && (cx.class_count("parse:rejected-word:unsat") + cx.class_count("parse:rejected-word:synth-err")) > 100, "both accepted and rejected words must be replayed in-circuit");
    cx.require(cx.class_count("parse:lookup-table:equals-automaton") > 50 && cx.class_count("parse:lookup-table:not-readable") == 0, "the circuit's lookup table must be compared with the automaton");
    cx.require(cx.class_count("parse:fault:unsat") + cx.class_count("parse:fault:synth-err") > 100, "faults must be injected and rejected");
    cx.require(
        cx.class_count("base64-fixed:honest:sat") > 300 && cx.class_count("base64-fixed:honest:unsat") + cx.class_count("base64-fixed:honest:crash-unsat") > 100,
        "base64: both well-formed and malformed inputs",
    );
    cx.require(cx.class_count("base64-var:bound-to-reference:sat") > 50 && cx.class_count("base64-var:bound-to-wrong-result:unsat") > 50, "base64 (variable length): results must be bound");
    cx.finish()
}
