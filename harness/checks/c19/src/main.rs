//! C19 — regex compilation, automaton parsing and base64 decoding are exact.

mod product;
mod refx;

use product::{explore, ImplAut};
use refx::{RefAut, RefExpr};
use serde_json::json;
use vcore::{catch, CaseOut, Ctx, Level, Tier, Viol};

// ---------------------------------------------------------------------------------------------
// the expression space
// ---------------------------------------------------------------------------------------------

#[derive(Clone, Copy, Debug, PartialEq)]
pub enum U {
    Neg,
    Star,
    Plus,
    Opt,
    Rep2,
    AtMost2,
    MarkA2,
}
#[derive(Clone, Copy, Debug, PartialEq)]
pub enum B {
    Cat,
    Union,
    Inter,
    Minus,
    SepList,
    SepNeList,
}
pub const UNARY: [U; 7] = [U::Neg, U::Star, U::Plus, U::Opt, U::Rep2, U::AtMost2, U::MarkA2];
pub const BINARY: [B; 6] = [B::Cat, B::Union, B::Inter, B::Minus, B::SepList, B::SepNeList];

pub fn un(op: U, e: &RefExpr) -> RefExpr {
    let b = Box::new(e.clone());
    match op {
        U::Neg => RefExpr::Neg(b),
        U::Star => RefExpr::Star(b),
        U::Plus => RefExpr::Plus(b),
        U::Opt => RefExpr::Opt(b),
        U::Rep2 => RefExpr::Repeat(b, 2),
        U::AtMost2 => RefExpr::AtMost(b, 2),
        U::MarkA2 => RefExpr::MarkBytes(b, vec![b'a'], 2),
    }
}
pub fn bin(op: B, l: &RefExpr, r: &RefExpr) -> RefExpr {
    let (x, y) = (Box::new(l.clone()), Box::new(r.clone()));
    match op {
        B::Cat => RefExpr::Cat(vec![l.clone(), r.clone()]),
        B::Union => RefExpr::Union(vec![l.clone(), r.clone()]),
        B::Inter => RefExpr::Inter(vec![l.clone(), r.clone()]),
        B::Minus => RefExpr::Minus(x, y),
        B::SepList => RefExpr::SepList(x, y),
        B::SepNeList => RefExpr::SepNeList(x, y),
    }
}

fn atoms(n: usize) -> Vec<RefExpr> {
    let all = vec![
        RefExpr::byte(b'a'),
        RefExpr::Bytes(vec![b'a', b'b']),
        RefExpr::marked(b'a', 1),
        RefExpr::byte(b'b'),
        RefExpr::AnyByte,
        RefExpr::Eps,
        RefExpr::marked(b'b', 2),
    ];
    all[..n].to_vec()
}

/// All expressions of depth exactly 1 over the atoms.
fn depth1(at: &[RefExpr]) -> Vec<RefExpr> {
    let mut v = vec![];
    for a in at {
        for op in UNARY {
            v.push(un(op, a));
        }
    }
    for op in BINARY {
        for a in at {
            for b in at {
                v.push(bin(op, a, b));
            }
        }
    }
    v
}

// ---------------------------------------------------------------------------------------------
// one expression
// ---------------------------------------------------------------------------------------------

pub enum Verdict {
    IllFormed,
    RefCapped(usize),
    NonOd { impl_panicked: bool },
    Panic(String),
    Checked { states: u64, transitions: u64, mismatch: Option<product::Mismatch>, dead: usize, out_of_range: bool },
}

pub fn compile(e: &RefExpr) -> Result<ImplAut, String> {
    catch(|| {
        let r = e.to_regex();
        let a = r.to_automaton();
        impl_aut!(&a)
    })
}

pub fn check_expr(e: &RefExpr) -> Verdict {
    if !e.well_formed() {
        return Verdict::IllFormed;
    }
    let r = match RefAut::build(e) {
        Ok(r) => r,
        Err(n) => return Verdict::RefCapped(n),
    };
    let i = compile(e);
    if r.non_od.is_some() {
        return Verdict::NonOd { impl_panicked: i.is_err() };
    }
    match i {
        Err(p) => Verdict::Panic(p),
        Ok(i) => {
            let p = explore(&i, &r, false);
            Verdict::Checked {
                states: p.states,
                transitions: p.transitions,
                mismatch: p.mismatch,
                dead: if r.live[0] { i.dead_reachable() } else { 0 },
                out_of_range: i.out_of_range,
            }
        }
    }
}

fn fails(e: &RefExpr) -> bool {
    matches!(check_expr(e), Verdict::Panic(_) | Verdict::Checked { mismatch: Some(_), .. })
}

/// The innermost failing sub-expression (the defect is attributed to its top combinator).
fn blame(e: &RefExpr) -> RefExpr {
    for c in e.children() {
        if fails(c) {
            return blame(c);
        }
    }
    e.clone()
}

fn show_word(w: &[u8]) -> String {
    format!("{:?}", String::from_utf8_lossy(w))
}

fn account(e: &RefExpr, out: &mut CaseOut) {
    match check_expr(e) {
        Verdict::IllFormed => out.count("ill-formed(marker under complement)", 1),
        Verdict::RefCapped(n) => {
            out.eval("reference-capped", false);
            out.counter("reference_capped", 1);
            let _ = n;
        }
        Verdict::NonOd { impl_panicked } => {
            out.eval("skipped:not-output-deterministic", false);
            out.counter("expressions_skipped_non_output_deterministic", 1);
            out.counter(if impl_panicked { "non_od_rejected_by_library" } else { "non_od_accepted_by_library" }, 1);
            if !impl_panicked && std::env::var("C19_DEBUG").is_ok() {
                eprintln!("NONOD-ACCEPTED {}", e.show());
            }
        }
        Verdict::Panic(p) => {
            out.eval("panic", true);
            let b = blame(e);
            out.viol(Viol::new(
                format!("regex:{}:panic", b.top()),
                format!("compiling the output-deterministic expression {} panics: {p}", b.show()),
                json!({"expression": e.show(), "blamed_subexpression": b.show(), "panic": p}),
            ));
        }
        Verdict::Checked { states, transitions, mismatch, dead, out_of_range } => {
            out.counter("product_states", states);
            out.counter("product_transitions", transitions);
            out.counter("expressions_checked", 1);
            if dead > 0 {
                out.counter("compiled_automata_with_dead_states", 1);
            }
            if out_of_range {
                out.viol(Viol::new(
                    format!("regex:{}:state-out-of-range", e.top()),
                    format!("the automaton of {} uses a state index >= nb_states", e.show()),
                    json!({"expression": e.show()}),
                ));
            }
            match mismatch {
                None => out.eval("equal", true),
                Some(_) => {
                    out.eval("mismatch", true);
                    let b = blame(e);
                    let Verdict::Checked { mismatch: Some(m), .. } = check_expr(&b) else { unreachable!() };
                    let top = if matches!(b, RefExpr::MarkBytes(..) | RefExpr::MarkFn(..)) && b.contains_complement() { "mark-over-neg" } else { b.top() };
                    out.viol(Viol::new(
                        format!("regex:{top}:{}", m.kind),
                        format!(
                            "{}: on the word {} the reference gives {} but the compiled automaton gives {}",
                            b.show(),
                            show_word(&m.word),
                            m.reference.as_ref().map(|x| format!("accept with markers {x:?}")).unwrap_or("reject".into()),
                            m.implementation.as_ref().map(|x| format!("accept with markers {x:?}")).unwrap_or("reject".into()),
                        ),
                        json!({"expression": e.show(), "blamed_subexpression": b.show(), "word_bytes": m.word, "reference": m.reference, "implementation": m.implementation}),
                    ));
                }
            }
        }
    }
}

fn main() {
    let mut cx = Ctx::from_args("C19", Level::ModelChecking);
    cx.worker_rayon_threads = Some(1);
    let tier = cx.tier;
    let at = atoms(tier.pick(3, 7));
    let d1 = depth1(&at);
    let mut le1: Vec<RefExpr> = at.clone();
    le1.extend(d1.iter().cloned());
    // ---- part 1: product check
    let mut cases: Vec<(String, Vec<RefExpr>)> = vec![];
    cases.push(("d0".into(), at.clone()));
    cases.push(("d1".into(), d1.clone()));
    cases.push(("d2:unary".into(), d1.iter().flat_map(|e| UNARY.iter().map(move |op| un(*op, e))).collect()));
    for op in BINARY {
        for l in &le1 {
            let v: Vec<RefExpr> = le1.iter().filter(|r| l.depth() == 1 || r.depth() == 1).map(|r| bin(op, l, r)).collect();
            cases.push((format!("d2:{op:?}:{}", l.show()), v));
        }
    }
    let total: usize = cases.iter().map(|c| c.1.len()).sum();
    eprintln!("expressions: {total}");
    cx.run_cases("product", &cases, |batch| {
        let mut out = CaseOut::batch();
        for e in batch {
            account(e, &mut out);
        }
        out
    });
    cx.states = cx.counter_value("product_states");
    cx.transitions = cx.counter_value("product_transitions");
    let _ = Tier::Quick;
    cx.finish()
}
