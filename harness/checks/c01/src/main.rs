//! C01 — honest proofs verify for every circuit shape and proving configuration.
//!
//! Model checking of the Fiat–Shamir schedule: `vfam::schedule` is an independent description
//! of the event sequence; every configuration of the lattice is proven and verified with the
//! real code under recording transcripts, and the three traces (model, prover, verifier) must
//! agree event by event, with identical bytes on both sides, and the verifier must accept.

use serde_json::json;
use vcore::{CaseOut, Ctx, Level, Viol};
use vfam::{
    fam::FamParams,
    lattice::{self, Config, Hash, Wit},
    rectrans::{Event, Kind},
    schedule::{schedule, Ev, Shape},
};

fn subsets(phases: u8, n_inst: u8) -> Vec<FamParams> {
    // the 2^7 subsets of the independent constraint features, richest other settings
    let mut v = vec![];
    for m in 0u32..128 {
        let b = |i: u32| (m >> i) & 1 == 1;
        v.push(FamParams {
            gate_deg: if b(0) { 1 + (m % 4) as u8 } else { 0 },
            rot: b(1),
            lookup: b(2),
            lookup_any: b(3),
            copy_adv: b(4),
            copy_inst: b(4),
            copy_const: b(4),
            inst_query: b(5),
            trash: b(6),
            unblinded: m % 3 == 0,
            phases,
            n_inst,
            rows: 1 + (m % 3) as u8,
            fx_tweak: 0,
            rot_first: m % 5 == 2,
            lookup_nz: m % 4 == 1,
            copy_dup: m % 3 == 1,
        });
    }
    v
}

fn configs(cx: &Ctx) -> Vec<Config> {
    let thorough = cx.tier.is_thorough();
    let mut out: Vec<Config> = vec![];
    let mut seen_cfg = std::collections::BTreeSet::new();
    let mut push = |c: Config| {
        if seen_cfg.insert(c.clone()) {
            out.push(c)
        }
    };
    let seeded = Wit::Seeded(0);
    // (A) schedule-relevant dimensions, full product, richest circuit
    let nps: Vec<usize> = if thorough { vec![1, 2, 3, 4] } else { vec![1, 2, 3] };
    for &np in &nps {
        for n_inst in 1..=3u8 {
            for nb_c in 0..=2usize.min(n_inst as usize) {
                for phases in 1..=3u8 {
                    for hash in [Hash::Blake2b, Hash::Poseidon] {
                        if !thorough && hash == Hash::Poseidon && (phases == 2 || np == 3) {
                            continue;
                        }
                        push(Config {
                            p: FamParams::rich(phases, n_inst),
                            v1: false,
                            num_proofs: np,
                            nb_committed: nb_c,
                            k: 0,
                            hash,
                            wit: seeded,
                        });
                    }
                }
            }
        }
    }
    // (B) feature subsets with num_proofs in {1,2}
    for p in subsets(1, 2) {
        for np in [1usize, 2] {
            if !thorough && np == 2 && p.rows != 2 {
                continue;
            }
            push(Config {
                p: p.clone(),
                v1: false,
                num_proofs: np,
                nb_committed: 0,
                k: 0,
                hash: Hash::Blake2b,
                wit: seeded,
            });
        }
    }
    if thorough {
        // (B') the feature subsets again under every phase count, instance-column count, both
        // hashes and with / without a committed column
        for phases in 1..=3u8 {
            for n_inst in 1..=3u8 {
                for p in subsets(phases, n_inst) {
                    for np in [1usize, 2] {
                        for hash in [Hash::Blake2b, Hash::Poseidon] {
                            for nb_c in [0usize, 1] {
                                push(Config {
                                    p: p.clone(),
                                    v1: false,
                                    num_proofs: np,
                                    nb_committed: nb_c,
                                    k: 0,
                                    hash,
                                    wit: seeded,
                                });
                            }
                        }
                    }
                }
            }
        }
    }
    // (C) the other floor planner (no instance-query gate: it needs absolute row 0)
    for phases in 1..=3u8 {
        let mut p = FamParams::rich(phases, 2);
        p.inst_query = false;
        for np in [1usize, 2] {
            push(Config {
                p: p.clone(),
                v1: true,
                num_proofs: np,
                nb_committed: 0,
                k: 0,
                hash: Hash::Blake2b,
                wit: seeded,
            });
        }
    }
    // (C') the first opening point is not x: a gate configured first queries Rotation::prev first
    for phases in 1..=2u8 {
        for n_inst in 1..=2u8 {
            for nb_c in 0..=1usize {
                for np in [1usize, 2] {
                    for hash in [Hash::Blake2b, Hash::Poseidon] {
                        let mut p = FamParams::rich(phases, n_inst);
                        p.rot_first = true;
                        push(Config {
                            p: p.clone(),
                            v1: false,
                            num_proofs: np,
                            nb_committed: nb_c,
                            k: 0,
                            hash,
                            wit: seeded,
                        });
                        let mut q = FamParams::minimal();
                        q.rot_first = true;
                        q.n_inst = n_inst;
                        push(Config {
                            p: q,
                            v1: false,
                            num_proofs: np,
                            nb_committed: nb_c,
                            k: 0,
                            hash,
                            wit: seeded,
                        });
                    }
                }
            }
        }
    }
    // (D) witness families and larger k on the richest circuit
    for wit in [Wit::Zero, Wit::Max, Wit::Seeded(1)] {
        for nb_c in [0usize, 2] {
            push(Config {
                p: FamParams::rich(3, 2),
                v1: false,
                num_proofs: 1,
                nb_committed: nb_c,
                k: 0,
                hash: Hash::Blake2b,
                wit,
            });
        }
    }
    let ks: Vec<u32> = if thorough { (4..=9).collect() } else { vec![4, 6] };
    let mut with_k = vec![];
    for c in &out {
        with_k.push(c.clone()); // k = 0 → minimal k
    }
    for &k in &ks {
        for (p, np, nb_c) in [
            (FamParams::rich(2, 2), 2usize, 0usize),
            (FamParams::rich(1, 1), 1, 1),
            (FamParams::minimal(), 1, 0),
            (FamParams::minimal(), 3, 0),
        ] {
            with_k.push(Config {
                p,
                v1: false,
                num_proofs: np,
                nb_committed: nb_c,
                k,
                hash: Hash::Blake2b,
                wit: seeded,
            });
        }
    }
    with_k
}

fn kind_matches(model: &Ev, e: &Event, prover: bool) -> bool {
    match (model, &e.kind) {
        (Ev::Common(t, _), Kind::Common) => *t == e.ty,
        (Ev::Msg(t, _), Kind::Write) if prover => *t == e.ty,
        (Ev::Msg(t, _), Kind::Read) if !prover => *t == e.ty,
        (Ev::Squeeze(_), Kind::Squeeze) => true,
        _ => false,
    }
}

fn name(ev: &Ev) -> &'static str {
    match ev {
        Ev::Common(_, n) | Ev::Msg(_, n) | Ev::Squeeze(n) => n,
    }
}

/// First index where the recorded log departs from the model (None = equal).
fn diverge(model: &[Ev], log: &[Event], prover: bool) -> Option<(usize, String)> {
    for i in 0..model.len().max(log.len()) {
        match (model.get(i), log.get(i)) {
            (Some(m), Some(e)) if kind_matches(m, e, prover) => {}
            (Some(m), Some(e)) => {
                return Some((i, format!("model expects {:?}, implementation did {:?}/{}", m, e.kind, e.ty)))
            }
            (Some(m), None) => return Some((i, format!("implementation stopped; model expects {:?}", m))),
            (None, Some(e)) => return Some((i, format!("model ended; implementation did {:?}/{}", e.kind, e.ty))),
            (None, None) => unreachable!(),
        }
    }
    None
}

fn main() {
    let mut cx = Ctx::from_args("C01", Level::ModelChecking);
    vcore::pin_global_rayon(1);
    cx.set_rule(
        "every configuration of the lattice {Fam feature subsets x num_proofs x instance columns x \
         committed columns x phases x k x transcript hash x witness family x floor planner} is proven \
         and verified by the real code under recording transcripts; model = independent Fiat-Shamir \
         schedule; a case is non-trivial when it has >= 2 proofs, a committed column, a later \
         phase, a lookup or a trash gate. states = total schedule prefixes walked, transitions = \
         events; traces_validated = prover+verifier traces replayed against the model.",
    );
    cx.assume("SRS from unsafe_setup with a seeded secret; nothing checked depends on which secret is used");
    cx.assume("cryptographic soundness is not in scope of C01 (completeness only)");
    let seed = cx.seed;
    let mut cfgs = configs(&cx);
    // resolve k = 0 to the minimal k of the circuit; drop configurations whose circuit does not fit
    let mut resolved: Vec<(String, Config)> = vec![];
    let mut seen_keys = std::collections::BTreeSet::new();
    let mut seen = std::collections::BTreeSet::new();
    // compute minimal k per (params, planner) in parallel first
    let mut uniq: Vec<(String, (FamParams, bool))> = vec![];
    for c in &cfgs {
        let key = format!("{}{}", c.p.tag(), if c.v1 { "-v1" } else { "" });
        if seen.insert(key.clone()) {
            uniq.push((key, (c.p.clone(), c.v1)));
        }
    }
    let mink: std::sync::Mutex<std::collections::HashMap<String, Option<u32>>> = Default::default();
    cx.run_cases("min-k", &uniq, |(p, v1)| {
        let k = lattice::min_k(p, *v1, seed);
        mink.lock().unwrap().insert(format!("{}{}", p.tag(), if *v1 { "-v1" } else { "" }), k);
        let mut o = CaseOut::one(match k { Some(_) => "fits", None => "does-not-fit-k<=9" }, false);
        o.evals = 0;
        o
    });
    let mink = mink.into_inner().unwrap();
    for c in cfgs.drain(..) {
        let key = format!("{}{}", c.p.tag(), if c.v1 { "-v1" } else { "" });
        let Some(Some(kmin)) = mink.get(&key).copied() else { continue };
        let mut c = c;
        if c.k == 0 {
            c.k = kmin;
        } else if c.k < kmin {
            continue; // the circuit does not fit at this k: not a configuration "the parameters support"
        }
        let k = c.key();
        if seen_keys.insert(k.clone()) {
            resolved.push((k, c));
        }
    }
    let states = std::sync::atomic::AtomicU64::new(0);
    let traces = std::sync::atomic::AtomicU64::new(0);
    cx.run_cases("lattice", &resolved, |cfg| {
        let mut out = CaseOut::batch();
        let nontrivial = cfg.num_proofs >= 2 || cfg.nb_committed > 0 || cfg.p.phases > 1 || cfg.p.lookup || cfg.p.trash;
        let class_np = if cfg.num_proofs >= 2 { "num_proofs>=2" } else { "num_proofs=1" };
        let n_inst = cfg.p.n_inst as usize;
        let class_c = if cfg.nb_committed == 0 {
            "committed=0"
        } else if cfg.nb_committed == n_inst {
            "committed=all"
        } else {
            "0<committed<instance-cols"
        };
        let r = vcore::catch(|| lattice::round(cfg, seed, true));
        let round = match r {
            Err(p) => {
                out.eval("panic", nontrivial);
                out.viol(Viol::new(format!("panic:{}:{class_np}:{class_c}", vcore::panic_site(&p)), format!("prove/verify panicked: {p}"), json!({"config": cfg.key()})));
                return out;
            }
            Ok(Err(e)) => {
                out.eval("keygen-failed", nontrivial);
                out.viol(Viol::new(format!("keygen-failed:{}", cfg.p.tag()), format!("keygen failed at a k where it succeeded before: {e}"), json!({"config": cfg.key()})));
                return out;
            }
            Ok(Ok(r)) => r,
        };
        out.sample = Some(json!({"config": cfg.key(), "proof_len": round.proof.as_ref().map(|p| p.len()).unwrap_or(0), "prover_events": round.prover_log.len()}));
        if round.mock_ok == Some(false) {
            out.viol(Viol::new("harness:honest-witness-not-mock-satisfied", "the honest witness of the family does not satisfy MockProver (harness or mock defect)", json!({"config": cfg.key()})));
        }
        let proof = match &round.proof {
            Err(e) => {
                out.eval("prover-error", nontrivial);
                out.viol(Viol::new(format!("prover-error:{class_np}:{class_c}"), format!("create_proof failed on an honest witness: {e}"), json!({"config": cfg.key()})));
                return out;
            }
            Ok(p) => p,
        };
        let _ = proof;
        // the model
        let (_, pk) = lattice::keys(&cfg.p, cfg.v1, cfg.k, seed).unwrap();
        let vk = pk.get_vk();
        let shape = Shape {
            num_proofs: cfg.num_proofs,
            nb_committed: cfg.nb_committed,
            plain_lens: round.plain.iter().map(|p| p.iter().map(|c| c.len()).collect()).collect(),
        };
        let model = schedule(vk.cs(), vk.get_domain().get_quotient_poly_degree(), &shape);
        states.fetch_add(model.len() as u64 + 1, std::sync::atomic::Ordering::Relaxed);
        out.counter("schedule_events", model.len() as u64);
        let verdict = round.verdict.clone().unwrap();
        out.eval(verdict.name(), nontrivial);
        // prover trace vs model
        let dp = diverge(&model, &round.prover_log, true);
        traces.fetch_add(1, std::sync::atomic::Ordering::Relaxed);
        if let Some((i, what)) = &dp {
            let at = model.get(*i).map(name).unwrap_or("<end>");
            out.viol(Viol::new(format!("schedule:prover-vs-model:at={at}:{class_np}:{class_c}"), format!("prover trace departs from the model at event {i}: {what}"), json!({"config": cfg.key(), "event": i})));
        }
        // verifier trace vs model (the verifier may stop early only if it rejects)
        let dv = diverge(&model, &round.verifier_log, false);
        traces.fetch_add(1, std::sync::atomic::Ordering::Relaxed);
        // bytes, position by position
        let mut first_byte_div = None;
        for (i, (a, b)) in round.prover_log.iter().zip(round.verifier_log.iter()).enumerate() {
            if a.bytes != b.bytes {
                first_byte_div = Some(i);
                break;
            }
        }
        if !verdict.accepted() {
            let at = match (&dv, first_byte_div) {
                (Some((i, _)), _) => format!("verifier departs from the model at event {i} ({})", model.get(*i).map(name).unwrap_or("<end>")),
                (None, Some(i)) => format!("absorbed bytes differ at event {i} ({})", model.get(i).map(name).unwrap_or("<end>")),
                (None, None) => "traces agree; rejection comes from the algebraic or pairing check".into(),
            };
            out.viol(Viol::new(
                format!("honest-rejected:{class_np}:{class_c}"),
                format!("honest proof rejected ({:?}); {at}", verdict),
                json!({"config": cfg.key(), "verdict": format!("{verdict:?}")}),
            ));
        } else {
            if let Some((i, what)) = &dv {
                let at = model.get(*i).map(name).unwrap_or("<end>");
                out.viol(Viol::new(format!("schedule:verifier-vs-model:at={at}:{class_np}:{class_c}"), format!("verifier trace departs from the model at event {i}: {what}"), json!({"config": cfg.key()})));
            }
            if let Some(i) = first_byte_div {
                out.viol(Viol::new(format!("schedule:bytes-differ:{class_np}:{class_c}"), format!("prover and verifier absorbed different bytes at event {i} although the proof was accepted"), json!({"config": cfg.key()})));
            }
        }
        out
    });
    // ---- standard-library relations through midnight_zk_stdlib::{setup_vk, setup_pk, prove, verify}
    stdlib_relations(&mut cx);
    cx.states = states.load(std::sync::atomic::Ordering::Relaxed);
    cx.transitions = cx.counter_value("schedule_events");
    cx.traces_validated = traces.load(std::sync::atomic::Ordering::Relaxed);
    let acc = cx.class_count("lattice:accept");
    cx.require(acc > 20, "fewer than 20 accepted honest proofs");
    cx.finish()
}

/// Honest prove/verify of the standard-library relations of `vfam::stdrel`, under both transcript
/// hashes, several witnesses each (thorough adds SHA-256, k = 13).
fn stdlib_relations(cx: &mut Ctx) {
    use ff::Field;
    use midnight_circuits::hash::poseidon::PoseidonState;
    use midnight_curves::Fq as F;
    use midnight_proofs::transcript::{Hashable, Sampleable, TranscriptHash};
    use midnight_zk_stdlib::{MidnightCircuit, Relation};
    use rand_chacha::ChaCha20Rng;
    use rand_core::SeedableRng;
    use vfam::stdrel::{RelJub, RelPos, RelSha, RelSq};

    fn round<R: Relation, H: TranscriptHash>(rel: &R, inst: &R::Instance, wit: R::Witness, seed: u64) -> Result<bool, String>
    where
        midnight_curves::G1Projective: Hashable<H>,
        F: Hashable<H> + Sampleable<H>,
    {
        let k = MidnightCircuit::from_relation(rel).min_k();
        let srs = (*vfam::api::setup(k, seed)).clone();
        let vk = midnight_zk_stdlib::setup_vk(&srs, rel);
        let pk = midnight_zk_stdlib::setup_pk(rel, &vk);
        let proof = midnight_zk_stdlib::prove::<R, H>(&srs, &pk, rel, inst, wit, ChaCha20Rng::seed_from_u64(seed ^ 0xabc)).map_err(|e| format!("prove: {e:?}"))?;
        Ok(midnight_zk_stdlib::verify::<R, H>(&srs.verifier_params(), &vk, inst, None, &proof).is_ok())
    }
    let seed = cx.seed;
    let thorough = cx.tier.is_thorough();
    let mut rng = cx.rng("c01-stdlib");
    let mut cases: Vec<(String, (u8, u8, u64))> = vec![];
    for rel in 0..if thorough { 4u8 } else { 3u8 } {
        for hash in 0..2u8 {
            for w in 0..if rel == 3 { 1u64 } else { 3u64 } {
                cases.push((format!("rel{rel}-hash{hash}-w{w}"), (rel, hash, w)));
            }
        }
    }
    let wf: Vec<F> = vec![F::ZERO, -F::ONE, F::random(&mut rng)];
    let ws: Vec<midnight_curves::Fr> = vec![midnight_curves::Fr::ZERO, -midnight_curves::Fr::ONE, midnight_curves::Fr::random(&mut rng)];
    cx.run_cases_with("stdlib-relations", &cases, 8, |(rel, hash, w)| {
        let mut out = CaseOut::batch();
        let wi = *w as usize;
        let r = vcore::catch(|| -> Result<bool, String> {
            match (rel, hash) {
                (0, 0) => round::<RelSq, blake2b_simd::State>(&RelSq { c: 5 }, &RelSq { c: 5 }.statement(wf[wi]), wf[wi], seed),
                (0, _) => round::<RelSq, PoseidonState<F>>(&RelSq { c: 5 }, &RelSq { c: 5 }.statement(wf[wi]), wf[wi], seed),
                (1, 0) => round::<RelPos, blake2b_simd::State>(&RelPos, &RelPos::statement(&[wf[wi], wf[(wi + 1) % 3]]), [wf[wi], wf[(wi + 1) % 3]], seed),
                (1, _) => round::<RelPos, PoseidonState<F>>(&RelPos, &RelPos::statement(&[wf[wi], wf[(wi + 1) % 3]]), [wf[wi], wf[(wi + 1) % 3]], seed),
                (2, 0) => round::<RelJub, blake2b_simd::State>(&RelJub, &RelJub::statement(&ws[wi]), ws[wi], seed),
                (2, _) => round::<RelJub, PoseidonState<F>>(&RelJub, &RelJub::statement(&ws[wi]), ws[wi], seed),
                (_, 0) => round::<RelSha, blake2b_simd::State>(&RelSha, &RelSha::statement(&[7u8; 24]), [7u8; 24], seed),
                (_, _) => round::<RelSha, PoseidonState<F>>(&RelSha, &RelSha::statement(&[7u8; 24]), [7u8; 24], seed),
            }
        });
        let name = ["RelSq", "RelPos", "RelJub", "RelSha"][*rel as usize];
        match r {
            Err(p) => out.viol(Viol::new(format!("stdlib:{name}:panic:{}", vcore::panic_site(&p)), format!("std-lib prove/verify panicked: {p}"), json!({}))),
            Ok(Err(e)) => {
                out.eval("stdlib:prover-error", true);
                out.viol(Viol::new(format!("stdlib:{name}:prover-error"), format!("prove failed on an honest witness: {e}"), json!({})));
            }
            Ok(Ok(ok)) => {
                out.eval(if ok { "stdlib:accept" } else { "stdlib:reject" }, true);
                if !ok {
                    out.viol(Viol::new(format!("stdlib:{name}:honest-rejected"), "midnight_zk_stdlib::verify rejects an honest proof".to_string(), json!({"hash": hash, "witness": w})));
                }
            }
        }
        out
    });
}
