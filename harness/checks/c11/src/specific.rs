//! Type-specific API beyond the `group` traits.

use std::sync::Arc;

use ff::PrimeField;
use group::{
    cofactor::{CofactorCurveAffine, CofactorGroup},
    Curve, Group, GroupEncoding,
};
use midnight_curves as mc;
use num_bigint::BigUint;
use num_traits::{One, Zero};
use serde_json::json;
use vcore::{big, catch, hex, CaseOut, Ctx, Viol};

use crate::generic::{crafted, v, AffOps, Alpha, Bind, Tasks};
use crate::model::{self, Fmt, Shape, MP};
use crate::{arr, BnG1, BnG2, Ed, JjExt, JjSub, Secp};

fn flag(out: &mut CaseOut, ty: &str, op: &str, what: &str, p: &str, got: bool, expect: bool) {
    if got != expect {
        v(out, ty, op, "wrong-result", format!("{what} = {got}, model says {expect}"), json!({"P": p}));
    }
}

// ---------------------------------------------------------------------------------------------

pub fn bls_tasks<B: AffOps>(t: &mut Tasks, al: &Arc<Alpha<B>>, torsion_free: fn(&B::A) -> bool)
where
    B::G: Curve<AffineRepr = B::A>,
{
    let ty = B::NAME;
    let a = al.clone();
    t.push("coordinate-api", format!("{ty}:is_torsion_free"), move || {
        let mut out = CaseOut::batch();
        for pa in &a.pts {
            out.eval(if pa.in_sub { "is_torsion_free:in-subgroup" } else { "is_torsion_free:outside" }, !a.cv.is_id(&pa.m));
            match catch(|| torsion_free(&pa.g.to_affine())) {
                Err(e) => v(&mut out, ty, "is_torsion_free", "panic", format!("panicked: {e}"), json!({"P": pa.name})),
                Ok(b) => {
                    if b != pa.in_sub {
                        v(&mut out, ty, "is_torsion_free", "wrong-result", format!("is_torsion_free() = {b}, r*P = O is {}", pa.in_sub), json!({"P": pa.name, "P_model": pa.m.json()}));
                    }
                }
            }
        }
        out
    });
}

pub fn bn_g1_tasks(t: &mut Tasks, al: &Arc<Alpha<BnG1>>) {
    let a = al.clone();
    t.push("coordinate-api", "bn254-G1:cofactor-api".into(), move || {
        let mut out = CaseOut::batch();
        let ty = "bn254-G1";
        for pa in &a.pts {
            out.eval("cofactor-api", !a.cv.is_id(&pa.m));
            match catch(|| (bool::from(pa.g.is_torsion_free()), BnG1::to_m(&pa.g.clear_cofactor()), Option::<mc::bn256::G1>::from(pa.g.into_subgroup()).map(|g| BnG1::to_m(&g)))) {
                Err(e) => v(&mut out, ty, "cofactor-api", "panic", format!("panicked: {e}"), json!({"P": pa.name})),
                Ok((tf, cc, sub)) => {
                    flag(&mut out, ty, "is_torsion_free", "is_torsion_free()", &pa.name, tf, true);
                    if cc != pa.m || sub.as_ref() != Some(&pa.m) {
                        v(&mut out, ty, "clear_cofactor", "wrong-result", "clear_cofactor / into_subgroup is not the identity map on a prime-order curve".into(), json!({"P": pa.name}));
                    }
                }
            }
        }
        out
    });
}

pub fn bn_g2_tasks(t: &mut Tasks, al: &Arc<Alpha<BnG2>>, cx: &mut Ctx) {
    // `into_subgroup` is an explicit `unimplemented!()` stub on the development curve
    match catch(|| Option::<mc::bn256::G2>::from(mc::bn256::G2::generator().into_subgroup()).is_some()) {
        Err(e) if e.contains("not implemented") => cx.note(format!("bn254-G2: CofactorGroup::into_subgroup() is an explicit unimplemented!() stub ({e}); not exercised")),
        Err(e) => cx.report_violation("coordinate-api", "bn254-G2:into_subgroup", Viol::new("bn254-G2:into_subgroup:panic", format!("into_subgroup panicked: {e}"), json!({}))),
        Ok(_) => cx.note("bn254-G2: into_subgroup() is implemented now; extend the check"),
    }
    let a = al.clone();
    t.push("coordinate-api", "bn254-G2:cofactor-api".into(), move || {
        let mut out = CaseOut::batch();
        let ty = "bn254-G2";
        let cv = &a.cv;
        let n = a.pts.len();
        for (i, pa) in a.pts.iter().enumerate() {
            let q = &a.pts[(i + 1) % n];
            out.eval(if pa.in_sub { "cofactor-api:in-subgroup" } else { "cofactor-api:outside" }, !cv.is_id(&pa.m));
            match catch(|| (bool::from(pa.g.is_torsion_free()), BnG2::to_m(&pa.g.clear_cofactor()), BnG2::to_m(&(pa.g + q.g).clear_cofactor()), BnG2::to_m(&(pa.g.clear_cofactor() + q.g.clear_cofactor())))) {
                Err(e) => v(&mut out, ty, "cofactor-api", "panic", format!("panicked: {e}"), json!({"P": pa.name})),
                Ok((tf, cc, cc_sum, sum_cc)) => {
                    flag(&mut out, ty, "is_torsion_free", "is_torsion_free()", &pa.name, tf, pa.in_sub);
                    if !cv.in_subgroup(&cc) {
                        v(&mut out, ty, "clear_cofactor", "not-in-subgroup", "clear_cofactor(P) is outside the prime-order subgroup".into(), json!({"P": pa.name, "P_model": pa.m.json(), "got": cc.json()}));
                    }
                    if pa.in_sub && !cv.is_id(&pa.m) && cv.is_id(&cc) {
                        v(&mut out, ty, "clear_cofactor", "kills-subgroup", "clear_cofactor maps a non-identity subgroup element to the identity".into(), json!({"P": pa.name}));
                    }
                    if cc_sum != sum_cc {
                        v(&mut out, ty, "clear_cofactor", "not-additive", "clear_cofactor(P+Q) != clear_cofactor(P)+clear_cofactor(Q)".into(), json!({"P": pa.name, "Q": q.name}));
                    }
                }
            }
        }
        out
    });
}

// ---------------------------------------------------------------------------------------------

pub fn jubjub_tasks(t: &mut Tasks, al_ext: &Arc<Alpha<JjExt>>, al_sub: &Arc<Alpha<JjSub>>) {
    let ty = "jubjub-extended";
    let a = al_ext.clone();
    t.push("coordinate-api", format!("{ty}:cofactor-api"), move || {
        let mut out = CaseOut::batch();
        let cv = &a.cv;
        for pa in &a.pts {
            let m8 = cv.mul(&pa.m, &big::bu(8));
            let small = cv.is_id(&m8);
            out.eval(if pa.in_sub { "cofactor-api:in-subgroup" } else if small { "cofactor-api:small-order" } else { "cofactor-api:mixed-order" }, !cv.is_id(&pa.m));
            let r = catch(|| {
                let e = pa.g;
                let af = e.to_affine();
                (
                    [bool::from(e.is_small_order()), bool::from(af.is_small_order()), bool::from(CofactorGroup::is_small_order(&e))],
                    [bool::from(e.is_torsion_free()), bool::from(af.is_torsion_free()), bool::from(CofactorGroup::is_torsion_free(&e))],
                    [bool::from(e.is_prime_order()), bool::from(af.is_prime_order())],
                    [JjExt::to_m(&e.mul_by_cofactor()), JjExt::to_m(&af.mul_by_cofactor()), JjSub::to_m(&CofactorGroup::clear_cofactor(&e))],
                    Option::<mc::JubjubSubgroup>::from(CofactorGroup::into_subgroup(e)).map(|s| JjSub::to_m(&s)),
                )
            });
            match r {
                Err(e) => v(&mut out, ty, "cofactor-api", "panic", format!("panicked: {e}"), json!({"P": pa.name})),
                Ok((so, tf, po, m8s, sub)) => {
                    for b in so {
                        flag(&mut out, ty, "is_small_order", "is_small_order()", &pa.name, b, small);
                    }
                    for b in tf {
                        flag(&mut out, ty, "is_torsion_free", "is_torsion_free()", &pa.name, b, pa.in_sub);
                    }
                    for b in po {
                        flag(&mut out, ty, "is_prime_order", "is_prime_order()", &pa.name, b, pa.in_sub && !cv.is_id(&pa.m));
                    }
                    for m in m8s {
                        if m != m8 {
                            v(&mut out, ty, "mul_by_cofactor", "wrong-result", "mul_by_cofactor / clear_cofactor != 8P".into(), json!({"P": pa.name, "got": m.json(), "expected": m8.json()}));
                        }
                    }
                    let expect = if pa.in_sub { Some(pa.m.clone()) } else { None };
                    if sub != expect {
                        v(&mut out, ty, "into_subgroup", "wrong-result", format!("into_subgroup() is {} for a point with r*P = O {}", if sub.is_some() { "Some" } else { "None" }, pa.in_sub), json!({"P": pa.name, "P_model": pa.m.json()}));
                    }
                }
            }
        }
        out
    });

    // multiply_bits: "specific little-endian bit pattern, ignoring the highest four bits"
    let a = al_ext.clone();
    t.push("scalar-mul", format!("{ty}:multiply_bits"), move || {
        let mut out = CaseOut::batch();
        let cv = &a.cv;
        let r = &cv.r;
        let pats: Vec<(&str, BigUint)> = vec![
            ("r", r.clone()),
            ("r+1", r + 1u32),
            ("r-1", r - 1u32),
            ("2r", r * 2u32),
            ("2^252-1", big::pow2(252) - 1u32),
            ("2^252 (ignored bit)", big::pow2(252)),
            ("2^255 + 5", big::pow2(255) + 5u32),
            ("2^256-1", big::pow2(256) - 1u32),
        ];
        for pa in &a.pts {
            for (pn, k) in &pats {
                let bytes: [u8; 32] = arr(&big::to_le(k, 32));
                let kk = k % big::pow2(252);
                // oracle: affine law inside the prime subgroup, validated ladder outside
                let expect = if pa.in_sub { cv.mul(&pa.m, &kk) } else { cv.mul_fast(&pa.m, &kk) };
                out.eval(&format!("multiply_bits:{pn}"), !cv.is_id(&pa.m));
                match catch(|| (JjExt::to_m(&pa.g.to_niels().multiply_bits(&bytes)), JjExt::to_m(&pa.g.to_affine().to_niels().multiply_bits(&bytes)))) {
                    Err(e) => v(&mut out, ty, "multiply_bits", "panic", format!("panicked: {e}"), json!({"P": pa.name, "bits": pn})),
                    Ok((x, y)) => {
                        if x != expect || y != expect {
                            v(&mut out, ty, "multiply_bits", "wrong-result", "multiply_bits disagrees with (bits mod 2^252) * P".into(), json!({"P": pa.name, "P_model": pa.m.json(), "bits": pn, "bytes": hex(&bytes), "extended_niels": x.json(), "affine_niels": y.json(), "expected": expect.json()}));
                        }
                    }
                }
            }
        }
        out
    });

    // extended (+|-) subgroup
    let a = al_ext.clone();
    let s = al_sub.clone();
    t.push("group-law", format!("{ty}:with-subgroup-operand"), move || {
        let mut out = CaseOut::batch();
        let cv = &a.cv;
        for pa in &a.pts {
            for sb in &s.pts {
                let (p, q) = (pa.g, sb.g);
                let sum = cv.add(&pa.m, &sb.m);
                let diff = cv.sub(&pa.m, &sb.m);
                let variants: Vec<(&str, &MP, Box<dyn Fn() -> mc::JubjubExtended>)> = vec![
                    ("P + S", &sum, Box::new(move || p + q)),
                    ("P + &S", &sum, Box::new(move || p + &q)),
                    ("&P + &S", &sum, Box::new(move || &p + &q)),
                    ("P += S", &sum, Box::new(move || {
                        let mut t = p;
                        t += q;
                        t
                    })),
                    ("P - S", &diff, Box::new(move || p - q)),
                    ("&P - &S", &diff, Box::new(move || &p - &q)),
                    ("P -= &S", &diff, Box::new(move || {
                        let mut t = p;
                        t -= &q;
                        t
                    })),
                    ("Extended::from(S) + P", &sum, Box::new(move || mc::JubjubExtended::from(q) + p)),
                ];
                for (vn, expect, f) in variants {
                    out.eval("ext,subgroup", !cv.is_id(&pa.m) && !cv.is_id(&sb.m));
                    match catch(|| JjExt::to_m(&f())) {
                        Err(e) => v(&mut out, ty, "with-subgroup-operand", "panic", format!("`{vn}` panicked: {e}"), json!({"P": pa.name, "S": sb.name})),
                        Ok(m) if m != *expect => v(&mut out, ty, "with-subgroup-operand", "wrong-result", format!("`{vn}` disagrees with the model"), json!({"P": pa.name, "S": sb.name, "got": m.json(), "expected": expect.json()})),
                        _ => {}
                    }
                }
            }
        }
        out
    });

    // free function batch_normalize, accessors, constants, Niels identities
    let a = al_ext.clone();
    t.push("coordinate-api", "jubjub-affine:accessors".into(), move || {
        let mut out = CaseOut::batch();
        let ty = "jubjub-affine";
        let cv = &a.cv;
        out.eval("free-batch_normalize", true);
        match catch(|| {
            let mut list: Vec<mc::JubjubExtended> = a.pts.iter().map(|p| p.g).collect();
            let affs: Vec<MP> = mc::batch_normalize(&mut list).map(|x| crate::jj_a_m(&x)).collect();
            let after: Vec<MP> = list.iter().map(JjExt::to_m).collect();
            // the normalised elements must still be usable operands
            let after_plus: Vec<MP> = list.iter().map(|x| JjExt::to_m(&(x + a.pts[1].g))).collect();
            (affs, after, after_plus)
        }) {
            Err(e) => v(&mut out, ty, "free-batch_normalize", "panic", format!("panicked: {e}"), json!({})),
            Ok((affs, after, after_plus)) => {
                let expect: Vec<MP> = a.pts.iter().map(|p| p.m.clone()).collect();
                let expect_plus: Vec<MP> = a.pts.iter().map(|p| cv.add(&p.m, &a.pts[1].m)).collect();
                if affs != expect || after != expect || after_plus != expect_plus {
                    v(&mut out, ty, "free-batch_normalize", "wrong-result", "batch_normalize(&mut [..]) changes a point or leaves an inconsistent T".into(), json!({}));
                }
            }
        }
        out.eval("EDWARDS_D", true);
        if let Shape::TE { d, .. } = &cv.shape {
            if crate::jj_base_fe(&mc::EDWARDS_D) != *d {
                v(&mut out, ty, "EDWARDS_D", "wrong-result", "EDWARDS_D != -(10240/10241)".into(), json!({}));
            }
        }
        for pa in &a.pts {
            out.eval("accessors", !cv.is_id(&pa.m));
            match catch(|| {
                let af = pa.g.to_affine();
                let rebuilt = mc::JubjubAffine::from_raw_unchecked(af.get_u(), af.get_v());
                (
                    rebuilt == af,
                    JjExt::to_m(&af.to_extended()),
                    JjExt::to_m(&(pa.g + mc::JubjubAffineNiels::identity())),
                    JjExt::to_m(&(pa.g + mc::ExtendedNielsPoint::identity())),
                    JjExt::to_m(&(pa.g - mc::ExtendedNielsPoint::identity())),
                    crate::jj_a_m(&mc::JubjubAffine::default()),
                )
            }) {
                Err(e) => v(&mut out, ty, "accessors", "panic", format!("panicked: {e}"), json!({"P": pa.name})),
                Ok((same, ext, n1, n2, n3, dflt)) => {
                    if !same || ext != pa.m || n1 != pa.m || n2 != pa.m || n3 != pa.m || dflt != cv.id() {
                        v(&mut out, ty, "accessors", "wrong-result", "get_u/get_v/from_raw_unchecked/to_extended/Niels identity are inconsistent".into(), json!({"P": pa.name}));
                    }
                }
            }
        }
        out
    });

    // pre-ZIP-216 decoder: documented to accept exactly two extra non-canonical encodings
    let a = al_ext.clone();
    t.push("decoders", "jubjub-affine:from_bytes_pre_zip216_compatibility".into(), move || {
        let mut out = CaseOut::batch();
        let ty = "jubjub-affine";
        let cv = &a.cv;
        let g = &a.pts[1];
        let p = cv.f.p().clone();
        let mut exceptions: Vec<Vec<u8>> = vec![];
        for y in [BigUint::one(), &p - 1u32] {
            let mut b = big::to_le(&y, 32);
            b[31] |= 0x80;
            exceptions.push(b);
        }
        let mut inputs = crafted(Fmt::EdY, cv, &g.m, &[]);
        for pa in &a.pts {
            inputs.push((format!("encoding of {}", pa.name), pa.g.to_bytes().to_vec()));
        }
        for (origin, b) in &inputs {
            let is_exc = exceptions.contains(b);
            out.eval(if is_exc { "pre-zip216:documented-exception" } else { "pre-zip216:other" }, true);
            match catch(|| {
                let strict = Option::<mc::JubjubAffine>::from(mc::JubjubAffine::from_bytes(arr(b))).map(|x| crate::jj_a_m(&x));
                let lax = Option::<mc::JubjubAffine>::from(mc::JubjubAffine::from_bytes_pre_zip216_compatibility(arr(b))).map(|x| crate::jj_a_m(&x));
                (strict, lax)
            }) {
                Err(e) => v(&mut out, ty, "from_bytes_pre_zip216_compatibility", "panic", format!("panicked: {e}"), json!({"input": hex(b), "origin": origin})),
                Ok((strict, lax)) => {
                    let ok = if is_exc { strict.is_none() && lax.is_some() } else { strict == lax };
                    if !ok {
                        v(&mut out, ty, "from_bytes_pre_zip216_compatibility", "wrong-result", "differs from from_bytes outside the two documented encodings (or not on them)".into(), json!({"input": hex(b), "origin": origin, "strict": strict.map(|m| m.json()), "lax": lax.map(|m| m.json())}));
                    }
                }
            }
        }
        out
    });
}

// ---------------------------------------------------------------------------------------------

pub fn secp_tasks(t: &mut Tasks, al: &Arc<Alpha<Secp>>) {
    let ty = "secp256k1";
    let a = al.clone();
    t.push("coordinate-api", format!("{ty}:affine-accessors"), move || {
        let mut out = CaseOut::batch();
        let cv = &a.cv;
        let f = &cv.f;
        for pa in &a.pts {
            let af = match catch(|| pa.g.to_affine()) {
                Ok(x) => x,
                Err(_) => continue,
            };
            let is_id = cv.is_id(&pa.m);
            out.eval(if is_id { "x()/y():identity" } else { "x()/y()" }, !is_id);
            match catch(|| crate::k_fp_fe(&af.x())) {
                Err(e) => v(&mut out, ty, "affine.x()", "panic", format!("x() panicked on {}: {e}", pa.name), json!({"P": pa.name})),
                Ok(x) => {
                    if let MP::At(mx, _) = &pa.m {
                        if x != *mx {
                            v(&mut out, ty, "affine.x()", "wrong-result", "x() wrong".into(), json!({"P": pa.name}));
                        }
                    }
                }
            }
            match catch(|| crate::k_fp_fe(&af.y())) {
                Err(e) => v(&mut out, ty, "affine.y()", "panic", format!("y() panicked on {}: {e}", pa.name), json!({"P": pa.name, "P_model": pa.m.json()})),
                Ok(_) => {}
            }
            if let MP::At(x, y) = &pa.m {
                out.eval("from_xy", true);
                match catch(|| {
                    let ok = mc::k256::K256Affine::from_xy(crate::k_fe_fp(x), crate::k_fe_fp(y)).map(|q| crate::k_a_m(&q));
                    let bad = mc::k256::K256Affine::from_xy(crate::k_fe_fp(x), crate::k_fe_fp(&f.add(y, &f.one()))).is_some();
                    (ok, bad)
                }) {
                    Err(e) => v(&mut out, ty, "from_xy", "panic", format!("panicked: {e}"), json!({"P": pa.name})),
                    Ok((ok, bad)) => {
                        if ok.as_ref() != Some(&pa.m) {
                            v(&mut out, ty, "from_xy", "wrong-result", "from_xy(x, y) of a curve point does not return that point".into(), json!({"P": pa.name}));
                        }
                        if bad {
                            v(&mut out, ty, "from_xy", "accepts-off-curve", "from_xy(x, y+1) is accepted".into(), json!({"P": pa.name}));
                        }
                    }
                }
                // GLV constants: (zeta_base * x, y) = zeta_scalar * P
                out.eval("glv-zeta", true);
                match catch(|| {
                    let zb = crate::k_fp_fe(&mc::k256::K256::base_zeta());
                    let lam = Secp::to_m(&(pa.g * mc::k256::K256::scalar_zeta()));
                    (zb, lam)
                }) {
                    Err(e) => v(&mut out, ty, "zeta", "panic", format!("panicked: {e}"), json!({})),
                    Ok((zb, lam)) => {
                        let cube = f.mul(&f.sqr(&zb), &zb);
                        let endo = MP::At(f.mul(&zb, x), y.clone());
                        if cube != f.one() || zb == f.one() || lam != endo {
                            v(&mut out, ty, "zeta", "wrong-result", "base_zeta()/scalar_zeta() are not matching cube roots of unity: (zeta x, y) != [lambda]P".into(), json!({"P": pa.name}));
                        }
                    }
                }
            }
        }
        out.eval("from_xy:(0,0)", true);
        if let Ok(Some(q)) = catch(|| mc::k256::K256Affine::from_xy(crate::k_fe_fp(&f.zero()), crate::k_fe_fp(&f.zero()))) {
            // (0,0) is the library's encoding of the identity (see ext.rs)
            if crate::k_a_m(&q) != crate::model::MP::Inf {
                v(&mut out, ty, "from_xy", "(0,0)-gives-non-identity", "from_xy(0,0) returns a point other than the identity".into(), json!({"got": crate::k_a_m(&q).json()}));
            }
        }
        out
    });
}

pub fn ed_tasks(t: &mut Tasks, al: &Arc<Alpha<Ed>>) {
    let ty = "curve25519";
    let a = al.clone();
    t.push("coordinate-api", format!("{ty}:affine-accessors"), move || {
        use mc::curve25519::{Curve25519, Curve25519Affine, Curve25519Subgroup};
        let mut out = CaseOut::batch();
        let cv = &a.cv;
        let f = &cv.f;
        if let Shape::TE { a: ma, d } = &cv.shape {
            out.eval("constants", true);
            if crate::ed_fp_fe(&mc::curve25519::CURVE_A) != *ma || crate::ed_fp_fe(&mc::curve25519::CURVE_D) != *d {
                v(&mut out, ty, "curve-constants", "wrong-result", "CURVE_A / CURVE_D differ from a = -1, d = -121665/121666".into(), json!({}));
            }
        }
        for pa in &a.pts {
            let MP::At(x, y) = &pa.m else { continue };
            out.eval(if pa.in_sub { "accessors:in-subgroup" } else { "accessors:outside" }, !cv.is_id(&pa.m));
            match catch(|| {
                let af = pa.g.to_affine();
                let via_xy = Curve25519Affine::from_xy(crate::ed_fe_fp(x), crate::ed_fe_fp(y));
                let bad = Curve25519Affine::from_xy(crate::ed_fe_fp(x), crate::ed_fe_fp(&f.add(y, &f.one()))).is_some();
                (
                    via_xy.map(|q| (crate::ed_a_m(&q), Ed::to_m(&Curve25519::from(q)), q == af)),
                    bad,
                    Ed::to_m(&Curve25519(af.to_edwards())),
                    crate::ed_a_m(&Curve25519Affine::from_edwards(pa.g.0)),
                    crate::ed_a_m(&Curve25519Affine::from(pa.g)),
                    Curve25519Subgroup::from_edwards(pa.g.0).map(|s| crate::EdSub::to_m(&s)),
                )
            }) {
                Err(e) => v(&mut out, ty, "affine-accessors", "panic", format!("panicked: {e}"), json!({"P": pa.name, "P_model": pa.m.json()})),
                Ok((via_xy, bad, e1, e2, e3, sub)) => {
                    if via_xy != Some((pa.m.clone(), pa.m.clone(), true)) {
                        v(&mut out, ty, "from_xy", "wrong-result", "from_xy(x, y) of a curve point does not return that point (coordinates, cached point or ==)".into(), json!({"P": pa.name, "P_model": pa.m.json()}));
                    }
                    if bad {
                        v(&mut out, ty, "from_xy", "accepts-off-curve", "from_xy(x, y+1) is accepted".into(), json!({"P": pa.name}));
                    }
                    if e1 != pa.m || e2 != pa.m || e3 != pa.m {
                        v(&mut out, ty, "affine-accessors", "wrong-result", "to_edwards / from_edwards / From are inconsistent".into(), json!({"P": pa.name}));
                    }
                    let expect = if pa.in_sub { Some(pa.m.clone()) } else { None };
                    if sub != expect {
                        v(&mut out, ty, "Curve25519Subgroup::from_edwards", "wrong-result", format!("from_edwards is {} for a point with l*P = O {}", if sub.is_some() { "Some" } else { "None" }, pa.in_sub), json!({"P": pa.name, "P_model": pa.m.json()}));
                    }
                }
            }
        }
        // conditional_select keeps coordinates and cached point together
        let n = a.pts.len();
        for i in 0..n {
            let (pa, pb) = (&a.pts[i], &a.pts[(i + 1) % n]);
            out.eval("affine-select-cache", true);
            match catch(|| {
                use subtle::ConditionallySelectable;
                let s = Curve25519Affine::conditional_select(&pa.g.to_affine(), &pb.g.to_affine(), subtle::Choice::from(1));
                (crate::ed_a_m(&s), Ed::to_m(&Curve25519::from(s)))
            }) {
                Err(e) => v(&mut out, ty, "affine-conditional_select", "panic", format!("panicked: {e}"), json!({})),
                Ok((c, p)) => {
                    if c != pb.m || p != pb.m {
                        v(&mut out, ty, "affine-conditional_select", "wrong-result", "selected coordinates and cached point disagree".into(), json!({"P": pa.name, "Q": pb.name}));
                    }
                }
            }
        }
        out
    });
}

// ---------------------------------------------------------------------------------------------

/// Module-level constants: moduli published by the field types and the standard generators.
pub fn constants(cx: &mut Ctx) {
    let strip = |s: &str| s.trim_start_matches("0x").trim_start_matches('0').to_lowercase();
    let pairs: Vec<(&str, String, &str)> = vec![
        ("bls12-381 Fp", strip(<mc::Fp as PrimeField>::MODULUS), model::BLS_P),
        ("bls12-381 Fq", strip(<mc::Fq as PrimeField>::MODULUS), model::BLS_R),
        ("bn254 Fq", strip(<mc::bn256::Fq as PrimeField>::MODULUS), model::BN_P),
        ("bn254 Fr", strip(<mc::bn256::Fr as PrimeField>::MODULUS), model::BN_R),
        ("jubjub Fr", strip(<mc::Fr as PrimeField>::MODULUS), model::JUBJUB_R),
        ("secp256k1 Fp", strip(<mc::k256::Fp as PrimeField>::MODULUS), model::SECP_P),
        ("secp256k1 Fq", strip(<mc::k256::Fq as PrimeField>::MODULUS), model::SECP_N),
    ];
    for (n, got, want) in pairs {
        let want = strip(want);
        cx.require(got == want, &format!("modulus of {n} published by the subject ({got}) is not the one the model uses ({want})"));
    }
    // standard generators (the constants are validated by the model before being trusted)
    let h = model::h;
    let gens: Vec<(&str, model::MCurve, MP, MP)> = vec![
        (
            "bls12-381-G1",
            model::bls_g1(),
            MP::At(
                vec![h("17f1d3a73197d7942695638c4fa9ac0fc3688c4f9774b905a14e3a3f171bac586c55e83ff97a1aeffb3af00adb22c6bb")],
                vec![h("08b3f481e3aaa0f1a09e30ed741d8ae4fcf5e095d5d00af600db18cb2c04b3edd03cc744a2888ae40caa232946c5e7e1")],
            ),
            crate::BlsG1::to_m(&mc::G1Projective::generator()),
        ),
        (
            "bls12-381-G2",
            model::bls_g2(),
            MP::At(
                vec![
                    h("024aa2b2f08f0a91260805272dc51051c6e47ad4fa403b02b4510b647ae3d1770bac0326a805bbefd48056c8c121bdb8"),
                    h("13e02b6052719f607dacd3a088274f65596bd0d09920b61ab5da61bbdc7f5049334cf11213945d57e5ac7d055d042b7e"),
                ],
                vec![
                    h("0ce5d527727d6e118cc9cdc6da2e351aadfd9baa8cbdd3a76d429a695160d12c923ac9cc3baca289e193548608b82801"),
                    h("0606c4a02ea734cc32acd2b02bc28b99cb3e287e85a763af267492ab572e99ab3f370d275cec1da1aaa9075ff05f79be"),
                ],
            ),
            crate::BlsG2::to_m(&mc::G2Projective::generator()),
        ),
        (
            "secp256k1",
            model::secp256k1(),
            MP::At(vec![h("79be667ef9dcbbac55a06295ce870b07029bfcdb2dce28d959f2815b16f81798")], vec![h("483ada7726a3c4655da4fbfc0e1108a8fd17b448a68554199c47d08ffb10d4b8")]),
            Secp::to_m(&mc::k256::K256::generator()),
        ),
        ("bn254-G1", model::bn_g1(), MP::At(vec![big::bu(1)], vec![big::bu(2)]), BnG1::to_m(&mc::bn256::G1::generator())),
        (
            "bn254-G2",
            model::bn_g2(),
            MP::At(
                vec![h("1800deef121f1e76426a00665e5c4479674322d4f75edadd46debd5cd992f6ed"), h("198e9393920d483a7260bfb731fb5d25f1aa493335a9e71297e485b7aef312c2")],
                vec![h("12c85ea5db8c6deb4aab71808dcb408fe3d1e7690c43d37b4ce6cc0166fa7daa"), h("090689d0585ff075ec9e99ad690c3395bc4b313370b38ef355acdadcd122975b")],
            ),
            BnG2::to_m(&mc::bn256::G2::generator()),
        ),
        (
            "curve25519",
            model::ed25519(),
            {
                let cv = model::ed25519();
                let y = cv.f.div(&cv.f.from_u(4), &cv.f.from_u(5)).unwrap();
                let (x0, x1) = cv.lift(&y).unwrap();
                MP::At(if x0[0].bit(0) { x1 } else { x0 }, y)
            },
            Ed::to_m(&mc::curve25519::Curve25519::generator()),
        ),
    ];
    for (ty, cv, std, got) in gens {
        let mut out = CaseOut::one("standard-generator", true);
        if !cv.in_subgroup(&std) || cv.is_id(&std) {
            cx.note(format!("{ty}: the harness's copy of the standard generator fails the model's own curve/subgroup test; comparison skipped"));
        } else if std != got {
            out.viol(Viol::new(format!("{ty}:generator:not-standard"), format!("{ty}: generator() is not the generator of the standard"), json!({"got": got.json(), "standard": std.json()})));
        }
        cx.record("constants", &format!("{ty}:generator"), out);
    }
    // Jubjub has no external standard generator; record its order class
    let jj = model::jubjub();
    let g = JjExt::to_m(&mc::JubjubExtended::generator());
    let ga = crate::jj_a_m(&<mc::JubjubAffine as CofactorCurveAffine>::generator());
    let mut out = CaseOut::one("jubjub-generator", true);
    if g != ga || !jj.on_curve(&g) || jj.is_id(&jj.mul(&g, &big::bu(8))) {
        out.viol(Viol::new("jubjub-extended:generator:degenerate", "Jubjub generator is off-curve, of small order, or differs between representations", json!({"got": g.json()})));
    }
    cx.record("constants", "jubjub:generator", out);
    let _ = Zero::is_zero(&BigUint::zero());
}
