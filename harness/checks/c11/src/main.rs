//! C11 — curve types implement the group law; encodings are canonical and checked.
//!
//! Every exported curve type (BLS12-381 G1/G2, Jubjub extended/affine/subgroup, secp256k1,
//! Curve25519 (+subgroup type), BN254 G1/G2) is driven over a point alphabet {identity, G, 2G,
//! -G, 3 seeded, small-order / non-subgroup points on cofactor curves} x every operator impl x
//! a scalar alphabet, and compared with the affine group law over big integers (`model.rs`).
//! Encodings: round trip, crafted strings, random strings and single-bit corruptions of valid
//! encodings against a specification-level decoder.

mod ext;
mod generic;
mod model;
mod specific;

use std::convert::TryInto;

use ff::PrimeField;
use group::{cofactor::CofactorCurveAffine, prime::PrimeCurveAffine, Curve, Group, GroupEncoding, UncompressedEncoding};
use midnight_curves as mc;
use midnight_curves::serde::SerdeObject;
use num_bigint::BigUint;
use vcore::{big, Ctx, Level};

use ext::BaseConv;
use generic::{AffOps, BinFn, Bind, Codec, Sc, Tasks};
use model::{Dec, Fmt, MCurve, FE, MP};

pub fn arr<const N: usize>(v: &[u8]) -> [u8; N] {
    v.try_into().expect("length")
}

/// Sentinel that never equals a model point.
pub fn nowhere() -> MP {
    MP::At(vec![], vec![])
}

pub fn dec_or_nowhere(d: Dec) -> MP {
    match d {
        Dec::Ok(p) => p,
        _ => nowhere(),
    }
}

pub fn repr_from<R: Default + AsMut<[u8]>>(b: &[u8]) -> R {
    let mut r = R::default();
    r.as_mut().copy_from_slice(b);
    r
}

fn json_array(b: &[u8]) -> Vec<u8> {
    format!("[{}]", b.iter().map(|x| x.to_string()).collect::<Vec<_>>().join(",")).into_bytes()
}
fn json_hex(b: &[u8]) -> Vec<u8> {
    format!("\"{}\"", vcore::hex(b)).into_bytes()
}
fn unjson_array(j: &[u8]) -> Vec<u8> {
    serde_json::from_slice::<Vec<u8>>(j).expect("json array of bytes")
}
fn unjson_hex(j: &[u8]) -> Vec<u8> {
    let s: String = serde_json::from_slice(j).expect("json string");
    (0..s.len() / 2).map(|i| u8::from_str_radix(&s[2 * i..2 * i + 2], 16).expect("hex")).collect()
}

// ---------------------------------------------------------------------------------------------
// field conversions (public byte accessors of the field types)
// ---------------------------------------------------------------------------------------------

pub fn bls_fp_fe(x: &mc::Fp) -> FE {
    vec![big::from_le(&x.to_bytes_le())]
}
pub fn bls_fe_fp(f: &FE) -> mc::Fp {
    mc::Fp::from_bytes_le(&arr(&big::to_le(&f[0], 48))).unwrap()
}
pub fn bls_fp2_fe(x: &mc::bls12_381::Fp2) -> FE {
    vec![big::from_le(&x.c0().to_bytes_le()), big::from_le(&x.c1().to_bytes_le())]
}
pub fn bls_fe_fp2(f: &FE) -> mc::bls12_381::Fp2 {
    mc::bls12_381::Fp2::new(bls_fe_fp(&vec![f[0].clone()]), bls_fe_fp(&vec![f[1].clone()]))
}
pub fn bls_scalar(k: &BigUint) -> mc::Fq {
    mc::Fq::from_bytes_le(&arr(&big::to_le(k, 32))).unwrap()
}
pub fn bn_fq_fe(x: &mc::bn256::Fq) -> FE {
    vec![big::from_le(&x.to_bytes())]
}
pub fn bn_fe_fq(f: &FE) -> mc::bn256::Fq {
    mc::bn256::Fq::from_bytes(&arr(&big::to_le(&f[0], 32))).unwrap()
}
pub fn bn_fq2_fe(x: &mc::bn256::Fq2) -> FE {
    let b = x.to_bytes();
    vec![big::from_le(&b[..32]), big::from_le(&b[32..])]
}
pub fn bn_fe_fq2(f: &FE) -> mc::bn256::Fq2 {
    mc::bn256::Fq2::new(bn_fe_fq(&vec![f[0].clone()]), bn_fe_fq(&vec![f[1].clone()]))
}
pub fn bn_scalar(k: &BigUint) -> mc::bn256::Fr {
    mc::bn256::Fr::from_bytes(&arr(&big::to_le(k, 32))).unwrap()
}
pub fn jj_base_fe(x: &mc::Fq) -> FE {
    vec![big::from_le(&x.to_bytes_le())]
}
pub fn jj_fe_base(f: &FE) -> mc::Fq {
    bls_scalar(&f[0])
}
pub fn jj_scalar(k: &BigUint) -> mc::Fr {
    mc::Fr::from_bytes(&arr(&big::to_le(k, 32))).unwrap()
}
pub fn k_fp_fe(x: &mc::k256::Fp) -> FE {
    vec![big::from_be(&x.to_bytes()[..])]
}
pub fn k_fe_fp(f: &FE) -> mc::k256::Fp {
    mc::k256::Fp::from_bytes(&k256::FieldBytes::from(arr::<32>(&big::to_be(&f[0], 32)))).unwrap()
}
pub fn k_scalar(k: &BigUint) -> mc::k256::Fq {
    <mc::k256::Fq as PrimeField>::from_repr(k256::FieldBytes::from(arr::<32>(&big::to_be(k, 32)))).unwrap()
}
pub fn ed_fp_fe(x: &mc::curve25519::Fp) -> FE {
    vec![big::from_le(&x.to_bytes())]
}
pub fn ed_fe_fp(f: &FE) -> mc::curve25519::Fp {
    mc::curve25519::Fp::from_bytes(&arr(&big::to_le(&f[0], 32))).unwrap()
}
pub fn ed_scalar(k: &BigUint) -> mc::curve25519::Scalar {
    mc::curve25519::Scalar::from_bytes_mod_order(arr(&big::to_le(k, 32)))
}

// ---------------------------------------------------------------------------------------------
// short Weierstrass types with the CurveExt / CurveAffine API (BLS12-381, BN254)
// ---------------------------------------------------------------------------------------------

macro_rules! common_bin {
    ($G:ty) => {
        vec![
            ("&P + &Q", false, (|p, q| p + q) as BinFn<$G>),
            ("&P + Q", false, |p, q| p + *q),
            ("&P + &Qa", false, |p, q| p + &q.to_affine()),
            ("&P + Qa", false, |p, q| p + q.to_affine()),
            ("&Pa + &Q", false, |p, q| &p.to_affine() + q),
            ("&Pa + Q", false, |p, q| &p.to_affine() + *q),
            ("Pa + &Q", false, |p, q| p.to_affine() + q),
            ("Pa + Q", false, |p, q| p.to_affine() + *q),
            ("Pa + Qa", false, |p, q| p.to_affine() + q.to_affine()),
            ("&P - &Q", true, |p, q| p - q),
            ("&P - Q", true, |p, q| p - *q),
            ("&P - &Qa", true, |p, q| p - &q.to_affine()),
            ("&P - Qa", true, |p, q| p - q.to_affine()),
            ("&Pa - &Q", true, |p, q| &p.to_affine() - q),
            ("&Pa - Q", true, |p, q| &p.to_affine() - *q),
            ("Pa - &Q", true, |p, q| p.to_affine() - q),
            ("Pa - Q", true, |p, q| p.to_affine() - *q),
            ("Pa - Qa", true, |p, q| p.to_affine() - q.to_affine()),
        ]
    };
}

macro_rules! common_neg {
    ($G:ty) => {
        vec![("-&P", (|p| -p) as fn(&$G) -> $G), ("-Pa", |p| (-p.to_affine()).into()), ("-&Pa", |p| (-&p.to_affine()).into())]
    };
}

macro_rules! common_mul {
    ($B:ty, $G:ty) => {
        vec![
            ("&P * &k", (|p, s| p * s) as fn(&$G, &Sc<$B>) -> $G),
            ("&P * k", |p, s| p * *s),
            ("Pa * k", |p, s| p.to_affine() * *s),
            ("Pa * &k", |p, s| p.to_affine() * s),
            ("&Pa * &k", |p, s| &p.to_affine() * s),
            ("&Pa * k", |p, s| &p.to_affine() * *s),
        ]
    };
}

macro_rules! prime_affine_ops {
    ($B:ty, $A:ty, $to_m:expr) => {
        impl AffOps for $B {
            type A = $A;
            fn a_to_m(a: &$A) -> MP {
                ($to_m)(a)
            }
            fn a_to_curve(a: &$A) -> Self::G {
                PrimeCurveAffine::to_curve(a)
            }
            fn a_identity() -> $A {
                <$A as PrimeCurveAffine>::identity()
            }
            fn a_generator() -> Option<$A> {
                Some(<$A as PrimeCurveAffine>::generator())
            }
            fn a_is_identity(a: &$A) -> Option<bool> {
                Some(bool::from(PrimeCurveAffine::is_identity(a)))
            }
            fn a_neg(a: &$A) -> Option<$A> {
                Some(-*a)
            }
            fn a_mul(a: &$A, s: &Sc<Self>) -> Option<Self::G> {
                Some(*a * *s)
            }
        }
    };
}

// ---- BLS12-381 --------------------------------------------------------------------------------

pub struct BlsG1;
pub struct BlsG2;

fn bls_g1a_m(a: &mc::G1Affine) -> MP {
    if bool::from(PrimeCurveAffine::is_identity(a)) {
        MP::Inf
    } else {
        MP::At(bls_fp_fe(&a.x()), bls_fp_fe(&a.y()))
    }
}
fn bls_g2a_m(a: &mc::G2Affine) -> MP {
    if bool::from(PrimeCurveAffine::is_identity(a)) {
        MP::Inf
    } else {
        MP::At(bls_fp2_fe(&a.x()), bls_fp2_fe(&a.y()))
    }
}

macro_rules! bls_bind {
    ($B:ident, $name:literal, $G:ty, $A:ty, $curve:path, $am:path, $fe:path, $base:path, $BaseT:ty) => {
        impl Bind for $B {
            type G = $G;
            const NAME: &'static str = $name;
            const COFACTOR_EXTRAS: bool = true;
            fn curve() -> MCurve {
                $curve()
            }
            fn to_m(g: &$G) -> MP {
                $am(&g.to_affine())
            }
            fn second_paths(g: &$G) -> Vec<(&'static str, MP)> {
                let cv = $curve();
                let u = g.to_affine().to_uncompressed();
                let f = &cv.f;
                // blst keeps Jacobian coordinates: x = X/Z^2, y = Y/Z^3
                let (x, y, z) = ($fe(&g.x()), $fe(&g.y()), $fe(&g.z()));
                let jac = if f.is_zero(&z) {
                    MP::Inf
                } else {
                    let zi = f.inv(&z).unwrap();
                    let zi2 = f.sqr(&zi);
                    MP::At(f.mul(&x, &zi2), f.mul(&y, &f.mul(&zi2, &zi)))
                };
                vec![("to_uncompressed bytes", dec_or_nowhere(Fmt::BlsU.decode(&cv, u.as_ref()))), ("projective x()/y()/z() as Jacobian", jac)]
            }
            fn scalar(k: &BigUint) -> mc::Fq {
                bls_scalar(k)
            }
            fn ct_eq(a: &$G, b: &$G) -> Option<bool> {
                Some(bool::from(subtle::ConstantTimeEq::ct_eq(a, b)))
            }
            fn from_m(p: &MP) -> Option<$G> {
                match p {
                    MP::Inf => Some(<$G>::identity()),
                    // on-curve-only constructor: does not check the subgroup
                    MP::At(x, y) => Option::<$A>::from(<$A as mc::CurveAffine>::from_xy($base(x), $base(y))).map(Into::into),
                }
            }
            fn extra_bin() -> Vec<(&'static str, bool, BinFn<$G>)> {
                common_bin!($G)
            }
            fn extra_neg() -> Vec<(&'static str, fn(&$G) -> $G)> {
                common_neg!($G)
            }
            fn extra_mul() -> Vec<(&'static str, fn(&$G, &mc::Fq) -> $G)> {
                let mut v = common_mul!($B, $G);
                v.push(("Pa *= k", |p, s| {
                    let mut a = p.to_affine();
                    a *= *s;
                    a.into()
                }));
                v.push(("Pa *= &k", |p, s| {
                    let mut a = p.to_affine();
                    a *= s;
                    a.into()
                }));
                v.push(("Wnaf::scalar(k).base(P)", |p, s| {
                    let mut w: group::Wnaf<(), Vec<$G>, Vec<i64>> = group::Wnaf::new();
                    w.scalar(s).base(*p)
                }));
                v.push(("Wnaf::base(P).scalar(k)", |p, s| {
                    let mut w: group::Wnaf<(), Vec<$G>, Vec<i64>> = group::Wnaf::new();
                    w.base(*p, 1).scalar(s)
                }));
                v
            }
            fn codecs() -> Vec<Codec<$G>> {
                type U = <$A as UncompressedEncoding>::Uncompressed;
                vec![
                    Codec {
                        name: "projective.from_bytes",
                        fmt: Fmt::BlsC,
                        promises_subgroup: true,
                        enc: |g| g.to_bytes().as_ref().to_vec(),
                        dec: |b| Option::<$G>::from(<$G>::from_bytes(&repr_from(b))).map(|g| (<$B>::to_m(&g), g.to_bytes().as_ref().to_vec())),
                        dec_unchecked: Some(|b| Option::<$G>::from(<$G>::from_bytes_unchecked(&repr_from(b))).map(|g| <$B>::to_m(&g))),
                    },
                    Codec {
                        name: "affine.from_bytes",
                        fmt: Fmt::BlsC,
                        promises_subgroup: true,
                        enc: |g| g.to_affine().to_bytes().as_ref().to_vec(),
                        dec: |b| Option::<$A>::from(<$A>::from_bytes(&repr_from(b))).map(|a| ($am(&a), a.to_bytes().as_ref().to_vec())),
                        dec_unchecked: Some(|b| Option::<$A>::from(<$A>::from_bytes_unchecked(&repr_from(b))).map(|a| $am(&a))),
                    },
                    Codec {
                        name: "affine.from_uncompressed",
                        fmt: Fmt::BlsU,
                        // group::UncompressedEncoding: only the *_unchecked variant skips the subgroup check
                        promises_subgroup: true,
                        enc: |g| g.to_affine().to_uncompressed().as_ref().to_vec(),
                        dec: |b| Option::<$A>::from(<$A as UncompressedEncoding>::from_uncompressed(&repr_from::<U>(b))).map(|a| ($am(&a), a.to_uncompressed().as_ref().to_vec())),
                        dec_unchecked: Some(|b| Option::<$A>::from(<$A as UncompressedEncoding>::from_uncompressed_unchecked(&repr_from::<U>(b))).map(|a| $am(&a))),
                    },
                    Codec {
                        name: "affine.from_raw_bytes",
                        fmt: Fmt::BlsU,
                        // read_raw's own error text: "Either not on curve, or not in subgroup"
                        promises_subgroup: true,
                        enc: |g| g.to_affine().to_raw_bytes(),
                        dec: |b| <$A as SerdeObject>::from_raw_bytes(b).map(|a| ($am(&a), a.to_raw_bytes())),
                        dec_unchecked: Some(|b| Some($am(&<$A as SerdeObject>::from_raw_bytes_unchecked(b)))),
                    },
                    Codec {
                        name: "affine.read_raw",
                        fmt: Fmt::BlsU,
                        promises_subgroup: true,
                        enc: |g| {
                            let mut v = vec![];
                            g.to_affine().write_raw(&mut v).unwrap();
                            v
                        },
                        dec: |b| {
                            let mut r = b;
                            <$A as SerdeObject>::read_raw(&mut r).ok().map(|a| ($am(&a), a.to_raw_bytes()))
                        },
                        dec_unchecked: Some(|b| {
                            let mut r = b;
                            Some($am(&<$A as SerdeObject>::read_raw_unchecked(&mut r)))
                        }),
                    },
                    Codec {
                        name: "affine.serde_json",
                        fmt: Fmt::BlsC,
                        promises_subgroup: true,
                        enc: |g| unjson_array(&serde_json::to_vec(&g.to_affine()).unwrap()),
                        dec: |b| serde_json::from_slice::<$A>(&json_array(b)).ok().map(|a| ($am(&a), unjson_array(&serde_json::to_vec(&a).unwrap()))),
                        dec_unchecked: None,
                    },
                    Codec {
                        name: "projective.serde_json",
                        fmt: Fmt::BlsC,
                        promises_subgroup: true,
                        enc: |g| unjson_array(&serde_json::to_vec(g).unwrap()),
                        dec: |b| serde_json::from_slice::<$G>(&json_array(b)).ok().map(|g| (<$B>::to_m(&g), unjson_array(&serde_json::to_vec(&g).unwrap()))),
                        dec_unchecked: None,
                    },
                ]
            }
        }
        prime_affine_ops!($B, $A, $am);
        impl BaseConv for $B {
            type Base = $BaseT;
            fn fe(b: &$BaseT) -> FE {
                $fe(b)
            }
            fn base(f: &FE) -> $BaseT {
                $base(f)
            }
        }
    };
}

bls_bind!(BlsG1, "bls12-381-G1", mc::G1Projective, mc::G1Affine, model::bls_g1, bls_g1a_m, bls_fp_fe, bls_fe_fp, mc::Fp);
bls_bind!(BlsG2, "bls12-381-G2", mc::G2Projective, mc::G2Affine, model::bls_g2, bls_g2a_m, bls_fp2_fe, bls_fe_fp2, mc::bls12_381::Fp2);

// ---- BN254 ------------------------------------------------------------------------------------

pub struct BnG1;
pub struct BnG2;

fn bn_g1a_m(a: &mc::bn256::G1Affine) -> MP {
    if bool::from(PrimeCurveAffine::is_identity(a)) {
        MP::Inf
    } else {
        MP::At(bn_fq_fe(&a.x), bn_fq_fe(&a.y))
    }
}
fn bn_g2a_m(a: &mc::bn256::G2Affine) -> MP {
    if bool::from(PrimeCurveAffine::is_identity(a)) {
        MP::Inf
    } else {
        MP::At(bn_fq2_fe(&a.x), bn_fq2_fe(&a.y))
    }
}

macro_rules! bn_bind {
    ($B:ident, $name:literal, $G:ty, $A:ty, $curve:path, $am:path, $fe:path, $base:path, $BaseT:ty, $cof:expr, $promise:expr) => {
        impl Bind for $B {
            type G = $G;
            const NAME: &'static str = $name;
            const COFACTOR_EXTRAS: bool = $cof;
            fn curve() -> MCurve {
                $curve()
            }
            fn to_m(g: &$G) -> MP {
                $am(&g.to_affine())
            }
            fn second_paths(g: &$G) -> Vec<(&'static str, MP)> {
                let cv = $curve();
                let f = &cv.f;
                let u = g.to_affine().to_uncompressed();
                // the derive-macro curves keep homogeneous coordinates: x = X/Z, y = Y/Z
                let (x, y, z) = ($fe(&g.x), $fe(&g.y), $fe(&g.z));
                let hom = if f.is_zero(&z) {
                    MP::Inf
                } else {
                    let zi = f.inv(&z).unwrap();
                    MP::At(f.mul(&x, &zi), f.mul(&y, &zi))
                };
                vec![("to_uncompressed bytes", dec_or_nowhere(Fmt::BnU.decode(&cv, u.as_ref()))), ("public fields x/y/z as homogeneous", hom)]
            }
            fn scalar(k: &BigUint) -> mc::bn256::Fr {
                bn_scalar(k)
            }
            fn ct_eq(a: &$G, b: &$G) -> Option<bool> {
                Some(bool::from(subtle::ConstantTimeEq::ct_eq(a, b)))
            }
            fn from_m(p: &MP) -> Option<$G> {
                match p {
                    MP::Inf => Some(<$G>::identity()),
                    // public fields: no check at all
                    MP::At(x, y) => {
                        type AA = $A;
                        Some(AA { x: $base(x), y: $base(y) }.into())
                    }
                }
            }
            fn extra_bin() -> Vec<(&'static str, bool, BinFn<$G>)> {
                let mut v = common_bin!($G);
                v.push(("&Pa + &Qa", false, |p, q| &p.to_affine() + &q.to_affine()));
                v.push(("&Pa - &Qa", true, |p, q| &p.to_affine() - &q.to_affine()));
                v
            }
            fn extra_neg() -> Vec<(&'static str, fn(&$G) -> $G)> {
                common_neg!($G)
            }
            fn extra_mul() -> Vec<(&'static str, fn(&$G, &mc::bn256::Fr) -> $G)> {
                common_mul!($B, $G)
            }
            fn codecs() -> Vec<Codec<$G>> {
                type U = <$A as UncompressedEncoding>::Uncompressed;
                vec![
                    Codec {
                        name: "projective.from_bytes",
                        fmt: Fmt::BnC,
                        promises_subgroup: $promise,
                        enc: |g| g.to_bytes().as_ref().to_vec(),
                        dec: |b| Option::<$G>::from(<$G>::from_bytes(&repr_from(b))).map(|g| (<$B>::to_m(&g), g.to_bytes().as_ref().to_vec())),
                        dec_unchecked: Some(|b| Option::<$G>::from(<$G>::from_bytes_unchecked(&repr_from(b))).map(|g| <$B>::to_m(&g))),
                    },
                    Codec {
                        name: "affine.from_bytes",
                        fmt: Fmt::BnC,
                        promises_subgroup: $promise,
                        enc: |g| g.to_affine().to_bytes().as_ref().to_vec(),
                        dec: |b| Option::<$A>::from(<$A>::from_bytes(&repr_from(b))).map(|a| ($am(&a), a.to_bytes().as_ref().to_vec())),
                        dec_unchecked: Some(|b| Option::<$A>::from(<$A>::from_bytes_unchecked(&repr_from(b))).map(|a| $am(&a))),
                    },
                    Codec {
                        name: "affine.from_uncompressed",
                        fmt: Fmt::BnU,
                        promises_subgroup: $promise,
                        enc: |g| g.to_affine().to_uncompressed().as_ref().to_vec(),
                        dec: |b| Option::<$A>::from(<$A as UncompressedEncoding>::from_uncompressed(&repr_from::<U>(b))).map(|a| ($am(&a), a.to_uncompressed().as_ref().to_vec())),
                        dec_unchecked: Some(|b| Option::<$A>::from(<$A as UncompressedEncoding>::from_uncompressed_unchecked(&repr_from::<U>(b))).map(|a| $am(&a))),
                    },
                    Codec {
                        name: "affine.from_raw_bytes",
                        fmt: Fmt::BnRaw { proj: false },
                        promises_subgroup: false,
                        enc: |g| g.to_affine().to_raw_bytes(),
                        dec: |b| <$A as SerdeObject>::from_raw_bytes(b).map(|a| ($am(&a), a.to_raw_bytes())),
                        dec_unchecked: Some(|b| Some($am(&<$A as SerdeObject>::from_raw_bytes_unchecked(b)))),
                    },
                    Codec {
                        name: "affine.read_raw",
                        fmt: Fmt::BnRaw { proj: false },
                        promises_subgroup: false,
                        enc: |g| g.to_affine().to_raw_bytes(),
                        dec: |b| {
                            let mut r = b;
                            <$A as SerdeObject>::read_raw(&mut r).ok().map(|a| ($am(&a), a.to_raw_bytes()))
                        },
                        dec_unchecked: Some(|b| {
                            let mut r = b;
                            Some($am(&<$A as SerdeObject>::read_raw_unchecked(&mut r)))
                        }),
                    },
                    Codec {
                        name: "projective.from_raw_bytes",
                        fmt: Fmt::BnRaw { proj: true },
                        promises_subgroup: false,
                        enc: |g| g.to_raw_bytes(),
                        dec: |b| <$G as SerdeObject>::from_raw_bytes(b).map(|g| (<$B>::to_m(&g), g.to_raw_bytes())),
                        dec_unchecked: Some(|b| Some(<$B>::to_m(&<$G as SerdeObject>::from_raw_bytes_unchecked(b)))),
                    },
                    Codec {
                        name: "projective.read_raw",
                        fmt: Fmt::BnRaw { proj: true },
                        promises_subgroup: false,
                        enc: |g| g.to_raw_bytes(),
                        dec: |b| {
                            let mut r = b;
                            <$G as SerdeObject>::read_raw(&mut r).ok().map(|g| (<$B>::to_m(&g), g.to_raw_bytes()))
                        },
                        dec_unchecked: Some(|b| {
                            let mut r = b;
                            Some(<$B>::to_m(&<$G as SerdeObject>::read_raw_unchecked(&mut r)))
                        }),
                    },
                    Codec {
                        name: "affine.serde_json",
                        fmt: Fmt::BnC,
                        promises_subgroup: $promise,
                        enc: |g| unjson_hex(&serde_json::to_vec(&g.to_affine()).unwrap()),
                        dec: |b| serde_json::from_slice::<$A>(&json_hex(b)).ok().map(|a| ($am(&a), unjson_hex(&serde_json::to_vec(&a).unwrap()))),
                        dec_unchecked: None,
                    },
                    Codec {
                        name: "projective.serde_json",
                        fmt: Fmt::BnC,
                        promises_subgroup: $promise,
                        enc: |g| unjson_hex(&serde_json::to_vec(g).unwrap()),
                        dec: |b| serde_json::from_slice::<$G>(&json_hex(b)).ok().map(|g| (<$B>::to_m(&g), unjson_hex(&serde_json::to_vec(&g).unwrap()))),
                        dec_unchecked: None,
                    },
                ]
            }
        }
        prime_affine_ops!($B, $A, $am);
        impl BaseConv for $B {
            type Base = $BaseT;
            fn fe(b: &$BaseT) -> FE {
                $fe(b)
            }
            fn base(f: &FE) -> $BaseT {
                $base(f)
            }
        }
    };
}

bn_bind!(BnG1, "bn254-G1", mc::bn256::G1, mc::bn256::G1Affine, model::bn_g1, bn_g1a_m, bn_fq_fe, bn_fe_fq, mc::bn256::Fq, false, false);
// G2 implements PrimeGroup / PrimeCurveAffine: its checked decoders owe the prime-order subgroup
bn_bind!(BnG2, "bn254-G2", mc::bn256::G2, mc::bn256::G2Affine, model::bn_g2, bn_g2a_m, bn_fq2_fe, bn_fe_fq2, mc::bn256::Fq2, true, true);

// ---- Jubjub -----------------------------------------------------------------------------------

pub struct JjExt;
pub struct JjSub;

pub fn jj_a_m(a: &mc::JubjubAffine) -> MP {
    MP::At(jj_base_fe(&a.get_u()), jj_base_fe(&a.get_v()))
}

impl Bind for JjExt {
    type G = mc::JubjubExtended;
    const NAME: &'static str = "jubjub-extended";
    const COFACTOR_EXTRAS: bool = true;
    fn curve() -> MCurve {
        model::jubjub()
    }
    fn to_m(g: &Self::G) -> MP {
        jj_a_m(&mc::JubjubAffine::from(g))
    }
    fn second_paths(g: &Self::G) -> Vec<(&'static str, MP)> {
        vec![("to_bytes", dec_or_nowhere(Fmt::EdY.decode(&model::jubjub(), &g.to_bytes())))]
    }
    fn scalar(k: &BigUint) -> mc::Fr {
        jj_scalar(k)
    }
    fn ct_eq(a: &Self::G, b: &Self::G) -> Option<bool> {
        Some(bool::from(subtle::ConstantTimeEq::ct_eq(a, b)))
    }
    fn from_m(p: &MP) -> Option<Self::G> {
        match p {
            MP::At(u, v) => Some(mc::JubjubAffine::from_raw_unchecked(jj_fe_base(u), jj_fe_base(v)).to_extended()),
            MP::Inf => None,
        }
    }
    fn extra_bin() -> Vec<(&'static str, bool, BinFn<Self::G>)> {
        vec![
            ("&P + &Q", false, |p, q| p + q),
            ("&P + Q", false, |p, q| p + *q),
            ("P + Q.to_niels()", false, |p, q| *p + q.to_niels()),
            ("&P + &Q.to_niels()", false, |p, q| p + &q.to_niels()),
            ("P += Q.to_niels()", false, |p, q| {
                let mut t = *p;
                t += q.to_niels();
                t
            }),
            ("P + Qa.to_niels()", false, |p, q| *p + q.to_affine().to_niels()),
            ("&P + &Qa.to_niels()", false, |p, q| p + &q.to_affine().to_niels()),
            ("P += &Qa.to_niels()", false, |p, q| {
                let mut t = *p;
                t += &q.to_affine().to_niels();
                t
            }),
            ("&P + &Qa", false, |p, q| p + &q.to_affine()),
            ("Pa + Qa", false, |p, q| p.to_affine() + q.to_affine()),
            ("&Pa + &Qa", false, |p, q| &p.to_affine() + &q.to_affine()),
            ("Pa.to_extended() + Q", false, |p, q| p.to_affine().to_extended() + *q),
            ("&P - &Q", true, |p, q| p - q),
            ("&P - Q", true, |p, q| p - *q),
            ("P - Q.to_niels()", true, |p, q| *p - q.to_niels()),
            ("&P - &Q.to_niels()", true, |p, q| p - &q.to_niels()),
            ("P -= Q.to_niels()", true, |p, q| {
                let mut t = *p;
                t -= q.to_niels();
                t
            }),
            ("P - Qa.to_niels()", true, |p, q| *p - q.to_affine().to_niels()),
            ("P -= &Qa.to_niels()", true, |p, q| {
                let mut t = *p;
                t -= &q.to_affine().to_niels();
                t
            }),
            ("&P - &Qa", true, |p, q| p - &q.to_affine()),
            ("Pa - Qa", true, |p, q| p.to_affine() - q.to_affine()),
            ("&Pa - &Qa", true, |p, q| &p.to_affine() - &q.to_affine()),
        ]
    }
    fn extra_neg() -> Vec<(&'static str, fn(&Self::G) -> Self::G)> {
        vec![("-Pa", |p| (-p.to_affine()).into())]
    }
    fn extra_mul() -> Vec<(&'static str, fn(&Self::G, &mc::Fr) -> Self::G)> {
        vec![
            ("&P * &k", |p, s| p * s),
            ("&P * k", |p, s| p * *s),
            ("Pa * k", |p, s| p.to_affine() * *s),
            ("&Pa * &k", |p, s| &p.to_affine() * s),
            ("P.to_niels() * k", |p, s| p.to_niels() * *s),
            ("&P.to_niels() * &k", |p, s| &p.to_niels() * s),
            ("Pa.to_niels() * k", |p, s| p.to_affine().to_niels() * *s),
            ("P.to_niels().multiply_bits(k)", |p, s| p.to_niels().multiply_bits(&s.to_bytes())),
            ("Pa.to_niels().multiply_bits(k)", |p, s| p.to_affine().to_niels().multiply_bits(&s.to_bytes())),
        ]
    }
    fn codecs() -> Vec<Codec<Self::G>> {
        vec![
            Codec {
                name: "extended.from_bytes",
                fmt: Fmt::EdY,
                // documented: fails iff not on the curve or non-canonical (cofactor type)
                promises_subgroup: false,
                enc: |g| g.to_bytes().to_vec(),
                dec: |b| Option::<mc::JubjubExtended>::from(mc::JubjubExtended::from_bytes(&arr(b))).map(|g| (JjExt::to_m(&g), g.to_bytes().to_vec())),
                dec_unchecked: Some(|b| Option::<mc::JubjubExtended>::from(mc::JubjubExtended::from_bytes_unchecked(&arr(b))).map(|g| JjExt::to_m(&g))),
            },
            Codec {
                name: "affine.from_bytes",
                fmt: Fmt::EdY,
                promises_subgroup: false,
                enc: |g| <mc::JubjubAffine as GroupEncoding>::to_bytes(&g.to_affine()).to_vec(),
                dec: |b| Option::<mc::JubjubAffine>::from(<mc::JubjubAffine as GroupEncoding>::from_bytes(&arr(b))).map(|a| (jj_a_m(&a), a.to_bytes().to_vec())),
                dec_unchecked: Some(|b| Option::<mc::JubjubAffine>::from(<mc::JubjubAffine as GroupEncoding>::from_bytes_unchecked(&arr(b))).map(|a| jj_a_m(&a))),
            },
            Codec {
                name: "affine.batch_from_bytes",
                fmt: Fmt::EdY,
                promises_subgroup: false,
                enc: |g| g.to_affine().to_bytes().to_vec(),
                dec: |b| {
                    // the decoded input sits between two valid encodings in the batch
                    let gen = <mc::JubjubAffine as CofactorCurveAffine>::generator().to_bytes();
                    let r = mc::JubjubAffine::batch_from_bytes([gen, arr(b), gen].into_iter());
                    assert_eq!(r.len(), 3);
                    Option::<mc::JubjubAffine>::from(r[1]).map(|a| (jj_a_m(&a), a.to_bytes().to_vec()))
                },
                dec_unchecked: None,
            },
        ]
    }
}

impl AffOps for JjExt {
    type A = mc::JubjubAffine;
    fn a_to_m(a: &Self::A) -> MP {
        jj_a_m(a)
    }
    fn a_to_curve(a: &Self::A) -> Self::G {
        (*a).into()
    }
    fn a_identity() -> Self::A {
        mc::JubjubAffine::identity()
    }
    fn a_generator() -> Option<Self::A> {
        Some(<mc::JubjubAffine as CofactorCurveAffine>::generator())
    }
    fn a_is_identity(a: &Self::A) -> Option<bool> {
        Some(bool::from(a.is_identity()))
    }
    fn a_neg(a: &Self::A) -> Option<Self::A> {
        Some(-*a)
    }
    fn a_mul(a: &Self::A, s: &mc::Fr) -> Option<Self::G> {
        Some(*a * *s)
    }
}

impl Bind for JjSub {
    type G = mc::JubjubSubgroup;
    const NAME: &'static str = "jubjub-subgroup";
    // `from_raw_unchecked` builds values outside the subgroup
    const COFACTOR_EXTRAS: bool = true;
    fn curve() -> MCurve {
        model::jubjub()
    }
    fn to_m(g: &Self::G) -> MP {
        JjExt::to_m(&mc::JubjubExtended::from(*g))
    }
    fn second_paths(g: &Self::G) -> Vec<(&'static str, MP)> {
        vec![("to_bytes", dec_or_nowhere(Fmt::EdY.decode(&model::jubjub(), &g.to_bytes())))]
    }
    fn scalar(k: &BigUint) -> mc::Fr {
        jj_scalar(k)
    }
    fn from_m(p: &MP) -> Option<Self::G> {
        match p {
            MP::At(u, v) => Some(mc::JubjubSubgroup::from_raw_unchecked(jj_fe_base(u), jj_fe_base(v))),
            MP::Inf => None,
        }
    }
    fn extra_bin() -> Vec<(&'static str, bool, BinFn<Self::G>)> {
        vec![("&P + &Q", false, |p, q| p + q), ("&P + Q", false, |p, q| p + *q), ("&P - &Q", true, |p, q| p - q), ("&P - Q", true, |p, q| p - *q)]
    }
    fn extra_neg() -> Vec<(&'static str, fn(&Self::G) -> Self::G)> {
        vec![("-&P", |p| -p)]
    }
    fn extra_mul() -> Vec<(&'static str, fn(&Self::G, &mc::Fr) -> Self::G)> {
        vec![("&P * &k", |p, s| p * s), ("&P * k", |p, s| p * *s)]
    }
    fn codecs() -> Vec<Codec<Self::G>> {
        vec![Codec {
            name: "subgroup.from_bytes",
            fmt: Fmt::EdY,
            promises_subgroup: true,
            enc: |g| g.to_bytes().to_vec(),
            dec: |b| Option::<mc::JubjubSubgroup>::from(mc::JubjubSubgroup::from_bytes(&arr(b))).map(|g| (JjSub::to_m(&g), g.to_bytes().to_vec())),
            dec_unchecked: Some(|b| Option::<mc::JubjubSubgroup>::from(mc::JubjubSubgroup::from_bytes_unchecked(&arr(b))).map(|g| JjSub::to_m(&g))),
        }]
    }
}

// ---- secp256k1 --------------------------------------------------------------------------------

pub struct Secp;

pub fn k_a_m(a: &mc::k256::K256Affine) -> MP {
    if *a == mc::k256::K256Affine::identity() {
        MP::Inf
    } else {
        MP::At(k_fp_fe(&a.x()), k_fp_fe(&a.y()))
    }
}

impl Bind for Secp {
    type G = mc::k256::K256;
    const NAME: &'static str = "secp256k1";
    fn curve() -> MCurve {
        model::secp256k1()
    }
    fn to_m(g: &Self::G) -> MP {
        k_a_m(&g.to_affine())
    }
    fn second_paths(g: &Self::G) -> Vec<(&'static str, MP)> {
        vec![("to_bytes (SEC1)", dec_or_nowhere(Fmt::Sec1C.decode(&model::secp256k1(), g.to_bytes().as_ref())))]
    }
    fn scalar(k: &BigUint) -> mc::k256::Fq {
        k_scalar(k)
    }
    fn ct_eq(a: &Self::G, b: &Self::G) -> Option<bool> {
        Some(bool::from(subtle::ConstantTimeEq::ct_eq(a, b)))
    }
    fn extra_neg() -> Vec<(&'static str, fn(&Self::G) -> Self::G)> {
        vec![("-&P", |p| -p)]
    }
    fn extra_mul() -> Vec<(&'static str, fn(&Self::G, &mc::k256::Fq) -> Self::G)> {
        vec![("k * P", |p, s| *s * *p), ("k * &P", |p, s| *s * p)]
    }
    fn codecs() -> Vec<Codec<Self::G>> {
        type K = mc::k256::K256;
        type KA = mc::k256::K256Affine;
        vec![
            Codec {
                name: "projective.from_bytes",
                fmt: Fmt::Sec1C,
                promises_subgroup: false,
                enc: |g| g.to_bytes().as_ref().to_vec(),
                dec: |b| Option::<K>::from(K::from_bytes(&repr_from(b))).map(|g| (Secp::to_m(&g), g.to_bytes().as_ref().to_vec())),
                dec_unchecked: Some(|b| Option::<K>::from(K::from_bytes_unchecked(&repr_from(b))).map(|g| Secp::to_m(&g))),
            },
            Codec {
                name: "affine.from_bytes",
                fmt: Fmt::Sec1C,
                promises_subgroup: false,
                enc: |g| g.to_affine().to_bytes().as_ref().to_vec(),
                dec: |b| Option::<KA>::from(KA::from_bytes(&repr_from(b))).map(|a| (k_a_m(&a), a.to_bytes().as_ref().to_vec())),
                dec_unchecked: Some(|b| Option::<KA>::from(KA::from_bytes_unchecked(&repr_from(b))).map(|a| k_a_m(&a))),
            },
        ]
    }
}

impl AffOps for Secp {
    type A = mc::k256::K256Affine;
    fn a_to_m(a: &Self::A) -> MP {
        k_a_m(a)
    }
    fn a_to_curve(a: &Self::A) -> Self::G {
        (*a).into()
    }
    fn a_identity() -> Self::A {
        mc::k256::K256Affine::identity()
    }
    fn a_generator() -> Option<Self::A> {
        Some(mc::k256::K256Affine::generator())
    }
}

// ---- Curve25519 -------------------------------------------------------------------------------

pub struct Ed;
pub struct EdSub;

pub fn ed_a_m(a: &mc::curve25519::Curve25519Affine) -> MP {
    MP::At(ed_fp_fe(a.x()), ed_fp_fe(a.y()))
}

impl Bind for Ed {
    type G = mc::curve25519::Curve25519;
    const NAME: &'static str = "curve25519";
    const COFACTOR_EXTRAS: bool = true;
    fn curve() -> MCurve {
        model::ed25519()
    }
    fn to_m(g: &Self::G) -> MP {
        ed_a_m(&g.to_affine())
    }
    fn second_paths(g: &Self::G) -> Vec<(&'static str, MP)> {
        vec![("to_bytes", dec_or_nowhere(Fmt::EdY.decode(&model::ed25519(), &g.to_bytes())))]
    }
    fn scalar(k: &BigUint) -> mc::curve25519::Scalar {
        ed_scalar(k)
    }
    fn ct_eq(a: &Self::G, b: &Self::G) -> Option<bool> {
        Some(bool::from(subtle::ConstantTimeEq::ct_eq(a, b)))
    }
    fn from_m(p: &MP) -> Option<Self::G> {
        // the only constructor from coordinates: decompression (accepts every curve point)
        let b = Fmt::EdY.encode(&model::ed25519(), p)?;
        Option::from(mc::curve25519::Curve25519::from_bytes(&arr(&b)))
    }
    fn extra_bin() -> Vec<(&'static str, bool, BinFn<Self::G>)> {
        vec![("&P + &Q", false, |p, q| p + q), ("&P + Q", false, |p, q| p + *q)]
    }
    fn extra_neg() -> Vec<(&'static str, fn(&Self::G) -> Self::G)> {
        vec![("-&P", |p| -p)]
    }
    fn extra_mul() -> Vec<(&'static str, fn(&Self::G, &mc::curve25519::Scalar) -> Self::G)> {
        vec![("k * P", |p, s| *s * *p), ("k * &P", |p, s| *s * p)]
    }
    fn codecs() -> Vec<Codec<Self::G>> {
        type C = mc::curve25519::Curve25519;
        type CA = mc::curve25519::Curve25519Affine;
        vec![
            Codec {
                name: "projective.from_bytes",
                fmt: Fmt::EdY,
                promises_subgroup: false,
                enc: |g| g.to_bytes().to_vec(),
                dec: |b| Option::<C>::from(C::from_bytes(&arr(b))).map(|g| (Ed::to_m(&g), g.to_bytes().to_vec())),
                dec_unchecked: Some(|b| Option::<C>::from(C::from_bytes_unchecked(&arr(b))).map(|g| Ed::to_m(&g))),
            },
            Codec {
                name: "affine.from_bytes",
                fmt: Fmt::EdY,
                promises_subgroup: false,
                enc: |g| g.to_affine().to_bytes().to_vec(),
                dec: |b| Option::<CA>::from(CA::from_bytes(&arr(b))).map(|a| (ed_a_m(&a), a.to_bytes().to_vec())),
                dec_unchecked: Some(|b| Option::<CA>::from(CA::from_bytes_unchecked(&arr(b))).map(|a| ed_a_m(&a))),
            },
        ]
    }
}

impl AffOps for Ed {
    type A = mc::curve25519::Curve25519Affine;
    fn a_to_m(a: &Self::A) -> MP {
        ed_a_m(a)
    }
    fn a_to_curve(a: &Self::A) -> Self::G {
        (*a).into()
    }
    fn a_identity() -> Self::A {
        mc::curve25519::Curve25519Affine::default()
    }
}

impl Bind for EdSub {
    type G = mc::curve25519::Curve25519Subgroup;
    const NAME: &'static str = "curve25519-subgroup";
    fn curve() -> MCurve {
        model::ed25519()
    }
    fn to_m(g: &Self::G) -> MP {
        Ed::to_m(&mc::curve25519::Curve25519::from(*g))
    }
    fn scalar(k: &BigUint) -> mc::curve25519::Scalar {
        ed_scalar(k)
    }
    fn ct_eq(a: &Self::G, b: &Self::G) -> Option<bool> {
        Some(bool::from(subtle::ConstantTimeEq::ct_eq(a, b)))
    }
    fn extra_bin() -> Vec<(&'static str, bool, BinFn<Self::G>)> {
        vec![("&P + &Q", false, |p, q| p + q), ("&P + Q", false, |p, q| p + *q)]
    }
    fn extra_neg() -> Vec<(&'static str, fn(&Self::G) -> Self::G)> {
        vec![("-&P", |p| -p)]
    }
    fn extra_mul() -> Vec<(&'static str, fn(&Self::G, &mc::curve25519::Scalar) -> Self::G)> {
        vec![("k * P", |p, s| *s * *p), ("k * &P", |p, s| *s * p)]
    }
}

// ---------------------------------------------------------------------------------------------

fn main() {
    let mut cx = Ctx::from_args("C11", Level::Exploration);
    cx.set_rule(
        "complete enumeration, per curve type, of: point alphabet {O, G, 2G, -G, 3 seeded, and on cofactor curves \
         N (random non-subgroup point), its cofactor component, small-order points} ^2 (ordered pairs) x every \
         operator impl (owned/ref, assign, mixed projective/affine, Niels forms) for add and sub; the alphabet x \
         {double, neg, is_identity, ==, ct_eq on three representations of each operand, conditional_select, \
         to_affine, from affine, batch_normalize (whole list, reversed, empty, all-identity), sum over diagonal \
         3-lists / singleton / empty}; alphabet x scalar alphabet {0,1,2,r-1,r-2,(r-1)/2, 2^k, seeded} x every Mul \
         impl (+ wNAF, multiply_bits); CurveExt/CurveAffine coordinate API on the alphabet; per decoder: round trip \
         of the alphabet, a crafted list (every flag value, non-canonical coordinates, off-curve, non-subgroup, \
         x=0, truncated forms), seeded random strings, single-bit flips of the encodings of G, s0 and O (quick: \
         one bit per byte + all bits of the flag byte; thorough: all bits). Oracle: affine group law over big \
         integers and a specification-level decoder. An evaluation is non-trivial when no operand is the identity \
         / zero scalar; decoder evaluations are all counted as non-trivial. Keys are unique.",
    );
    cx.assume("the binding subject -> model goes through to_affine() and the public coordinate accessors (BLS: x()/y() + Fp::to_bytes_le; BN254: public fields + Fq::to_bytes; Jubjub: get_u()/get_v(); secp256k1: x()/y(); Curve25519: Curve25519Affine::x()/y()); each is cross-checked per alphabet point against the bytes of an encoding and, where raw projective coordinates are public, against X/Z^2,Y/Z^3 (blst) resp. X/Z,Y/Z (derive-macro curves)");
    cx.assume("field arithmetic of the subject is out of scope here (other checks); the model uses num-bigint with moduli and curve constants taken from the standards, not from the subject");
    cx.assume("a checked decoder owes subgroup membership where its documentation or its trait says so: BLS12-381 compressed and uncompressed (group::UncompressedEncoding documents only the *_unchecked variant as skipping the subgroup check; SerdeObject::read_raw reports 'not in subgroup'), JubjubSubgroup, BN254 G2 (implements PrimeGroup / PrimeCurveAffine). Jubjub extended/affine, Curve25519 and the raw BN254 formats promise on-curve + canonical only");
    cx.assume("subgroup membership of decoder inputs (and integer multiples of points outside the prime subgroup) are computed with an inversion-free Jacobian / projective big-integer ladder; the group `model-self-check` validates it against the affine law on 3 random points x 11 scalars per curve in every run, and the first 48 verdicts that blame the subject on that basis are re-derived with the affine law");
    cx.assume("seeded representatives come from VERIF_SEED; the enumeration over the alphabets is complete");
    cx.assume("hash_to_curve, multi_exp / MSM and pairings belong to other properties and are not exercised here");

    let mut tasks = Tasks::default();
    let thorough = cx.tier.is_thorough();
    let mut seed_rng = cx.rng("c11-random-strings");

    for (name, cv) in [
        ("bls12-381-G1", model::bls_g1()),
        ("bls12-381-G2", model::bls_g2()),
        ("bn254-G1", model::bn_g1()),
        ("bn254-G2", model::bn_g2()),
        ("jubjub", model::jubjub()),
        ("secp256k1", model::secp256k1()),
        ("curve25519", model::ed25519()),
    ] {
        generic::ladder_self_check_tasks(&mut tasks, cx.seed, name, cv);
    }

    macro_rules! full {
        ($B:ty) => {{
            let al = generic::alphabet::<$B>(&mut cx);
            generic::group_tasks::<$B>(&mut tasks, &al);
            generic::curve_tasks::<$B>(&mut tasks, &al);
            generic::codec_tasks::<$B>(&mut tasks, &al, thorough, &mut seed_rng);
            al
        }};
    }
    let al = full!(BlsG1);
    ext::ext_tasks::<BlsG1, mc::G1Projective>(&mut tasks, &al);
    specific::bls_tasks::<BlsG1>(&mut tasks, &al, |a| bool::from(a.is_torsion_free()));
    let al = full!(BlsG2);
    ext::ext_tasks::<BlsG2, mc::G2Projective>(&mut tasks, &al);
    specific::bls_tasks::<BlsG2>(&mut tasks, &al, |a| bool::from(a.is_torsion_free()));
    let al = full!(BnG1);
    ext::ext_tasks::<BnG1, mc::bn256::G1>(&mut tasks, &al);
    specific::bn_g1_tasks(&mut tasks, &al);
    let al = full!(BnG2);
    ext::ext_tasks::<BnG2, mc::bn256::G2>(&mut tasks, &al);
    specific::bn_g2_tasks(&mut tasks, &al, &mut cx);
    let al_ext = full!(JjExt);
    let al_sub = generic::alphabet::<JjSub>(&mut cx);
    generic::group_tasks::<JjSub>(&mut tasks, &al_sub);
    generic::codec_tasks::<JjSub>(&mut tasks, &al_sub, thorough, &mut seed_rng);
    specific::jubjub_tasks(&mut tasks, &al_ext, &al_sub);
    let al = full!(Secp);
    specific::secp_tasks(&mut tasks, &al);
    let al = full!(Ed);
    specific::ed_tasks(&mut tasks, &al);
    let al_s = generic::alphabet::<EdSub>(&mut cx);
    generic::group_tasks::<EdSub>(&mut tasks, &al_s);
    specific::constants(&mut cx);

    // run: one run_cases call per group so that all types share the worker pool
    let mut order: Vec<String> = vec![];
    for (g, _, _) in &tasks.0 {
        if !order.contains(g) {
            order.push(g.clone());
        }
    }
    let mut by_group: std::collections::BTreeMap<String, Vec<(String, generic::Task)>> = Default::default();
    for (g, k, t) in tasks.0 {
        by_group.entry(g).or_default().push((k, t));
    }
    for g in order {
        let mut cases = by_group.remove(&g).unwrap();
        // the quadratic-extension curves cost the model most: start them first (stable order)
        cases.sort_by_key(|(k, _)| if k.contains("-G2:") { 0 } else { 1 });
        let timing = std::env::var("C11_TIMING").is_ok();
        let keyed: Vec<(String, (String, generic::Task))> = cases.into_iter().map(|(k, t)| (k.clone(), (k, t))).collect();
        cx.run_cases(&g, &keyed, |(k, t)| {
            let t0 = std::time::Instant::now();
            let out = t();
            if timing && t0.elapsed().as_secs_f64() > 0.05 {
                eprintln!("TIMING {k} {:.2}s evals={}", t0.elapsed().as_secs_f64(), out.evals);
            }
            out
        });
    }

    // ---- anti-vacuity
    for ty in ["bls12-381-G1", "bls12-381-G2", "bn254-G2", "jubjub-extended", "jubjub-subgroup", "curve25519"] {
        let n = cx.counter_value(&format!("{ty}:cofactor-alphabet-points"));
        cx.require(n >= 2, &format!("{ty}: no non-subgroup / small-order points were constructed"));
    }
    let mut totals = serde_json::Map::new();
    for ty in ["bls12-381-G1", "bls12-381-G2", "bn254-G1", "bn254-G2", "jubjub-extended", "jubjub-subgroup", "secp256k1", "curve25519"] {
        let acc = class_sum(&cx, ty, "accept[valid]");
        let rej = class_sum(&cx, ty, "reject[non-canonical]") + class_sum(&cx, ty, "reject[off-curve]") + class_sum(&cx, ty, "reject[non-subgroup]");
        cx.require(acc > 0, &format!("{ty}: no decoder accepted anything"));
        cx.require(rej > 0, &format!("{ty}: no decoder rejected anything"));
        totals.insert(ty.to_string(), serde_json::json!({"accepted_valid": acc, "rejected_invalid": rej}));
    }
    for ty in ["bls12-381-G1", "bls12-381-G2", "jubjub-subgroup"] {
        let n = class_sum(&cx, ty, "reject[non-subgroup]") + class_sum(&cx, ty, "accept[non-subgroup]");
        cx.require(n > 0, &format!("{ty}: no on-curve non-subgroup encoding reached a decoder"));
    }
    let n_flips = cx.counter_value("bitflips");
    cx.require(n_flips > 1000, "too few bit-flip evaluations");
    cx.extra("decoder_class_totals", serde_json::Value::Object(totals));
    cx.finish()
}

/// Sum over the groups and decoders of the outcome classes `<group>:<type>:<decoder>:<class>`.
fn class_sum(cx: &Ctx, ty: &str, class: &str) -> u64 {
    let mut n = 0;
    for g in ["encodings", "decoders"] {
        for d in ["projective.from_bytes", "affine.from_bytes", "affine.from_uncompressed", "affine.from_raw_bytes", "affine.read_raw", "projective.from_raw_bytes", "projective.read_raw", "affine.serde_json", "projective.serde_json", "extended.from_bytes", "affine.batch_from_bytes", "subgroup.from_bytes"] {
            n += cx.class_count(&format!("{g}:{ty}:{d}:{class}"));
        }
    }
    n
}
