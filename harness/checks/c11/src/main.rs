fn main() {} // placeholder so the workspace loads; replace me
