//! Coordinate API of the `CurveExt` / `CurveAffine` traits (curves/src/curve.rs).

use std::sync::Arc;

use ff::{Field, WithSmallOrderMulGroup};
use group::Group;
#[allow(unused_imports)]
use group::prime::PrimeCurveAffine;
use midnight_curves::{CurveAffine, CurveExt};
use num_traits::One;
use serde_json::json;
use vcore::{big, catch, CaseOut};

use crate::generic::{v, AffOps, Alpha, Bind, Tasks};
use crate::model::{MCurve, Shape, FE, MP};

pub trait BaseConv: AffOps {
    type Base: Field;
    fn fe(b: &Self::Base) -> FE;
    fn base(f: &FE) -> Self::Base;
}

fn jac_to_m(cv: &MCurve, x: &FE, y: &FE, z: &FE) -> MP {
    let f = &cv.f;
    if f.is_zero(z) {
        return MP::Inf;
    }
    let zi = f.inv(z).unwrap();
    let zi2 = f.sqr(&zi);
    MP::At(f.mul(x, &zi2), f.mul(y, &f.mul(&zi2, &zi)))
}

pub fn ext_tasks<B, C>(t: &mut Tasks, al: &Arc<Alpha<B>>)
where
    C: CurveExt + subtle::ConditionallySelectable,
    C::AffineExt: CurveAffine<Base = C::Base>,
    B: BaseConv<Base = C::Base> + Bind<G = C> + AffOps<A = C::AffineExt>,
{
    let ty = B::NAME;
    let a = al.clone();
    t.push("coordinate-api", format!("{ty}:curve-ext"), move || {
        let mut out = CaseOut::batch();
        let cv = &a.cv;
        let f = &cv.f;
        let (ma, mb) = match &cv.shape {
            Shape::SW { a, b } => (a.clone(), b.clone()),
            _ => unreachable!(),
        };
        // ---- constants
        out.eval("constants", true);
        match catch(|| (B::fe(&<C as CurveExt>::a()), B::fe(&<C as CurveExt>::b()), B::fe(&<C::AffineExt as CurveAffine>::a()), B::fe(&<C::AffineExt as CurveAffine>::b()))) {
            Err(e) => v(&mut out, ty, "curve-constants", "panic", format!("panicked: {e}"), json!({})),
            Ok((a1, b1, a2, b2)) => {
                if a1 != ma || a2 != ma || b1 != mb || b2 != mb {
                    v(&mut out, ty, "curve-constants", "wrong-result", "a()/b() differ from the curve equation of the standard".into(), json!({"a": format!("{a1:?} / {a2:?}"), "b": format!("{b1:?} / {b2:?}")}));
                }
            }
        }
        let zs: Vec<FE> = vec![f.one(), f.from_u(2), {
            let mut z = f.from_u(0x1234_5678_9abc_def1);
            if f.deg == 2 {
                z[1] = big::bu(7);
            }
            z
        }];
        let zeta = <<C as CurveExt>::ScalarExt as WithSmallOrderMulGroup<3>>::ZETA;
        for (i, pa) in a.pts.iter().enumerate() {
            let p = pa.g;
            let is_id = cv.is_id(&pa.m);
            let nontrivial = !is_id;
            let ctx = || json!({"P": pa.name, "P_model": pa.m.json()});
            // ---- coordinates()
            out.eval("coordinates", nontrivial);
            match catch(|| {
                let pa_aff = p.to_affine();
                Option::<midnight_curves::Coordinates<C::AffineExt>>::from(pa_aff.coordinates()).map(|c| (B::fe(c.x()), B::fe(c.y())))
            }) {
                Err(e) => v(&mut out, ty, "coordinates", "panic", format!("panicked: {e}"), ctx()),
                Ok(None) if !is_id => v(&mut out, ty, "coordinates", "none-for-point", "coordinates() is None for a non-identity point".into(), ctx()),
                // The library's convention (relied upon by the circuits) is identity <-> (0, 0); the
                // property only asks accessors and constructors to be mutually consistent, so
                // Some((0,0)) for the identity is accepted (it used to be flagged: false alarm,
                // see DESIGN.md). Any other coordinates for the identity are a violation.
                Ok(Some((x, y))) if is_id => {
                    let zero = |c: &Vec<num_bigint::BigUint>| c.iter().all(|l| *l == num_bigint::BigUint::from(0u32));
                    if zero(&x) && zero(&y) {
                        out.count("coordinates:identity-as-(0,0)", 1);
                    } else {
                        v(&mut out, ty, "coordinates", "identity-has-nonzero-coordinates", "coordinates() of the identity is neither None nor (0,0)".into(), json!({"P": pa.name, "x": x.iter().map(big::hexs).collect::<Vec<_>>(), "y": y.iter().map(big::hexs).collect::<Vec<_>>()}))
                    }
                }
                Ok(Some((x, y))) => {
                    if MP::At(x, y) != pa.m {
                        v(&mut out, ty, "coordinates", "wrong-result", "coordinates() disagree with x()/y()".into(), ctx());
                    }
                }
                Ok(None) => {}
            }
            // ---- is_on_curve
            out.eval("is_on_curve", nontrivial);
            match catch(|| (bool::from(CurveExt::is_on_curve(&p)), bool::from(CurveAffine::is_on_curve(&p.to_affine())))) {
                Err(e) => v(&mut out, ty, "is_on_curve", "panic", format!("panicked: {e}"), ctx()),
                Ok((x, y)) if !x || !y => v(&mut out, ty, "is_on_curve", "wrong-result", format!("is_on_curve() = ({x},{y}) for a curve point"), ctx()),
                _ => {}
            }
            if let MP::At(x, y) = &pa.m {
                // ---- from_xy
                out.eval("from_xy", true);
                match catch(|| {
                    let ok = Option::<C::AffineExt>::from(<C::AffineExt as CurveAffine>::from_xy(B::base(x), B::base(y))).map(|q| B::a_to_m(&q));
                    let bad = Option::<C::AffineExt>::from(<C::AffineExt as CurveAffine>::from_xy(B::base(x), B::base(&f.add(y, &f.one())))).is_some();
                    (ok, bad)
                }) {
                    Err(e) => v(&mut out, ty, "from_xy", "panic", format!("panicked: {e}"), ctx()),
                    Ok((ok, bad)) => {
                        if ok.as_ref() != Some(&pa.m) {
                            v(&mut out, ty, "from_xy", "wrong-result", "from_xy(x, y) of a curve point does not return that point".into(), ctx());
                        }
                        if bad {
                            v(&mut out, ty, "from_xy", "accepts-off-curve", "from_xy(x, y+1) is accepted".into(), ctx());
                        }
                    }
                }
            }
            // ---- jacobian_coordinates()
            out.eval(if is_id { "jacobian_coordinates:identity" } else { "jacobian_coordinates" }, nontrivial);
            let jc = catch(|| {
                let (x, y, z) = p.jacobian_coordinates();
                (B::fe(&x), B::fe(&y), B::fe(&z))
            });
            match &jc {
                Err(e) => v(&mut out, ty, "jacobian_coordinates", "panic", format!("panicked: {e}"), ctx()),
                Ok((x, y, z)) => {
                    out.count(if *z == f.one() { "jacobian_coordinates:Z=1" } else { "jacobian_coordinates:Z!=1" }, 1);
                    let m = jac_to_m(cv, x, y, z);
                    if m != pa.m {
                        v(
                            &mut out,
                            ty,
                            "jacobian_coordinates",
                            "not-jacobian",
                            "jacobian_coordinates() = (X,Y,Z) does not satisfy x = X/Z^2, y = Y/Z^3".into(),
                            json!({"P": pa.name, "P_model": pa.m.json(), "X": x.iter().map(big::hexs).collect::<Vec<_>>(), "Y": y.iter().map(big::hexs).collect::<Vec<_>>(), "Z": z.iter().map(big::hexs).collect::<Vec<_>>(), "X/Z^2,Y/Z^3": m.json()}),
                        );
                    }
                }
            }
            // ---- new_jacobian
            out.eval("new_jacobian:roundtrip", nontrivial);
            match catch(|| {
                let (x, y, z) = p.jacobian_coordinates();
                Option::<C>::from(C::new_jacobian(x, y, z)).map(|q| B::to_m(&q))
            }) {
                Err(e) => v(&mut out, ty, "new_jacobian", "panic", format!("panicked: {e}"), ctx()),
                Ok(m) if m.as_ref() != Some(&pa.m) => v(&mut out, ty, "new_jacobian", "roundtrip", "new_jacobian(jacobian_coordinates(P)) != P".into(), ctx()),
                _ => {}
            }
            if let MP::At(x, y) = &pa.m {
                for z in &zs {
                    let z2 = f.sqr(z);
                    let (jx, jy) = (f.mul(x, &z2), f.mul(y, &f.mul(&z2, z)));
                    out.eval(if *z == f.one() { "new_jacobian:Z=1" } else { "new_jacobian:Z!=1" }, true);
                    match catch(|| Option::<C>::from(C::new_jacobian(B::base(&jx), B::base(&jy), B::base(z))).map(|q| B::to_m(&q))) {
                        Err(e) => v(&mut out, ty, "new_jacobian", "panic", format!("panicked: {e}"), ctx()),
                        Ok(m) if m.as_ref() != Some(&pa.m) => v(
                            &mut out,
                            ty,
                            "new_jacobian",
                            "wrong-point",
                            format!("new_jacobian(x z^2, y z^3, z) returns {} instead of the point (x, y)", if m.is_none() { "None".to_string() } else { "a different point".to_string() }),
                            json!({"P": pa.name, "P_model": pa.m.json(), "X": jx.iter().map(big::hexs).collect::<Vec<_>>(), "Y": jy.iter().map(big::hexs).collect::<Vec<_>>(), "Z": z.iter().map(big::hexs).collect::<Vec<_>>(), "got": m.map(|m| m.json())}),
                        ),
                        _ => {}
                    }
                }
                out.eval("new_jacobian:off-curve", true);
                match catch(|| Option::<C>::from(C::new_jacobian(B::base(x), B::base(&f.add(y, &f.one())), B::base(&f.one()))).is_some()) {
                    Err(e) => v(&mut out, ty, "new_jacobian", "panic", format!("panicked: {e}"), ctx()),
                    Ok(true) => v(&mut out, ty, "new_jacobian", "accepts-off-curve", "new_jacobian(x, y+1, 1) is accepted".into(), ctx()),
                    _ => {}
                }
            }
            // ---- endo
            out.eval("endo", nontrivial);
            let q = &a.pts[(i + 1) % a.pts.len()];
            match catch(|| {
                let e = p.endo();
                (B::to_m(&e), B::to_m(&e.endo().endo()), B::to_m(&(p + q.g).endo()), B::to_m(&(e + q.g.endo())), B::to_m(&(p * zeta)), B::to_m(&(p * zeta * zeta)))
            }) {
                Err(e) => v(&mut out, ty, "endo", "panic", format!("panicked: {e}"), ctx()),
                Ok((e, e3, e_sum, sum_e, zp, z2p)) => {
                    let shape_ok = match (&pa.m, &e) {
                        (MP::Inf, MP::Inf) => true,
                        (MP::At(x, y), MP::At(ex, ey)) => y == ey && f.mul(&f.sqr(ex), ex) == f.mul(&f.sqr(x), x) && (ex != x || f.is_zero(x)),
                        _ => false,
                    };
                    if !shape_ok || !cv.on_curve(&e) {
                        v(&mut out, ty, "endo", "not-x-times-cube-root", "endo(P) is not (zeta x, y) with zeta^3 = 1, zeta != 1".into(), json!({"P": pa.name, "P_model": pa.m.json(), "got": e.json()}));
                    }
                    if e3 != pa.m {
                        v(&mut out, ty, "endo", "order-3", "endo^3(P) != P".into(), ctx());
                    }
                    if e_sum != sum_e {
                        v(&mut out, ty, "endo", "additive", "endo(P+Q) != endo(P)+endo(Q)".into(), json!({"P": pa.name, "Q": q.name}));
                    }
                    if pa.in_sub && !is_id {
                        if e == zp {
                            out.count("endo = [ZETA]P", 1);
                        } else if e == z2p {
                            out.count("endo = [ZETA^2]P", 1);
                        } else {
                            v(&mut out, ty, "endo", "not-a-scalar", "endo(P) is neither [ZETA]P nor [ZETA^2]P for the scalar field's ZETA".into(), ctx());
                        }
                    }
                }
            }
        }
        // ---- (0,0) is not on y^2 = x^3 + b (b != 0): from_xy promises failure off the curve
        out.eval("from_xy:(0,0)", true);
        match catch(|| Option::<C::AffineExt>::from(<C::AffineExt as CurveAffine>::from_xy(B::Base::ZERO, B::Base::ZERO)).map(|q| B::a_to_m(&q))) {
            Err(e) => v(&mut out, ty, "from_xy", "panic", format!("panicked on (0,0): {e}"), json!({})),
            // (0,0) is the library's encoding of the identity: returning the identity is consistent
            // with coordinates(); returning any other point would not be.
            Ok(Some(m)) => {
                if m == MP::Inf {
                    out.count("from_xy:(0,0)-is-identity", 1);
                } else {
                    v(&mut out, ty, "from_xy", "(0,0)-gives-non-identity", "from_xy(0, 0) returns a point other than the identity".into(), json!({"got": m.json()}))
                }
            }
            Ok(None) => {}
        }
        // ---- new_jacobian at infinity: (1, 1, 0) is the Jacobian point at infinity
        out.eval("new_jacobian:infinity", false);
        match catch(|| Option::<C>::from(C::new_jacobian(B::Base::ONE, B::Base::ONE, B::Base::ZERO)).map(|q| B::to_m(&q))) {
            Err(e) => v(&mut out, ty, "new_jacobian", "panic", format!("panicked on (1,1,0): {e}"), json!({})),
            Ok(m) if m != Some(MP::Inf) => v(&mut out, ty, "new_jacobian", "infinity", "new_jacobian(1, 1, 0) is not the identity".into(), json!({"got": m.map(|m| m.json())})),
            _ => {}
        }
        // ---- off-curve element through an unchecked constructor (where one exists)
        let g = a.pts.iter().find(|p| p.name == "G").unwrap();
        if let MP::At(x, y) = &g.m {
            let bad = MP::At(x.clone(), f.add(y, &num_bigint_one(f)));
            if let Ok(Some(q)) = catch(|| B::from_m(&bad)) {
                out.eval("is_on_curve:off-curve", true);
                match catch(|| (bool::from(CurveExt::is_on_curve(&q)), bool::from(CurveAffine::is_on_curve(&q.to_affine())))) {
                    Err(e) => v(&mut out, ty, "is_on_curve", "panic", format!("panicked on an off-curve element: {e}"), json!({})),
                    Ok((x, y)) if x || y => v(&mut out, ty, "is_on_curve", "accepts-off-curve", format!("is_on_curve() = ({x},{y}) for (Gx, Gy+1)"), json!({})),
                    _ => {}
                }
            }
        }
        out.sample = Some(json!({"type": ty, "points": a.pts.iter().map(|p| p.name.clone()).collect::<Vec<_>>()}));
        out
    });
}

fn num_bigint_one(f: &crate::model::Fld) -> FE {
    let mut o = f.zero();
    o[0] = One::one();
    o
}

/// Keeps `Group` in scope for `p * zeta` on generic `B::G`.
#[allow(dead_code)]
fn _uses<G: Group>() {}
