//! Checks that are generic over the `group` traits, driven by a per-type binding ([`Bind`]).

use std::sync::Arc;

use group::{Curve, Group};
use num_bigint::BigUint;
use num_traits::{One, Zero};
use rand_chacha::ChaCha20Rng;
use serde_json::{json, Value};
use subtle::{Choice, ConditionallySelectable, ConstantTimeEq};
use vcore::{big, catch, hex, CaseOut, Ctx, Viol};

use crate::model::{Dec, Fmt, MCurve, Shape, FE, MP};

pub type Task = Box<dyn Fn() -> CaseOut + Send + Sync>;

#[derive(Default)]
pub struct Tasks(pub Vec<(String, String, Task)>);

impl Tasks {
    pub fn push(&mut self, group: &str, key: String, t: impl Fn() -> CaseOut + Send + Sync + 'static) {
        self.0.push((group.to_string(), key, Box::new(t)));
    }
}

pub type Sc<B> = <<B as Bind>::G as Group>::Scalar;
pub type BinFn<G> = fn(&G, &G) -> G;

/// One encoding of a type, expressed over the type's main (projective) representation.
pub struct Codec<G> {
    /// e.g. `G1Affine::from_uncompressed`
    pub name: &'static str,
    pub fmt: Fmt,
    /// the checked decoder promises membership in the prime-order subgroup
    pub promises_subgroup: bool,
    pub enc: fn(&G) -> Vec<u8>,
    /// checked decoder: model value of the decoded element and its re-encoding
    pub dec: fn(&[u8]) -> Option<(MP, Vec<u8>)>,
    /// unchecked decoder of the pair (only ever called on inputs the checked one accepted)
    pub dec_unchecked: Option<fn(&[u8]) -> Option<MP>>,
}

pub trait Bind: Sized + Send + Sync + 'static {
    type G: Group + ConditionallySelectable;
    const NAME: &'static str;
    /// build small-order / non-subgroup alphabet members through `from_m`
    const COFACTOR_EXTRAS: bool = false;
    fn curve() -> MCurve;
    /// THE binding: subject element -> model point, through public accessors only.
    fn to_m(g: &Self::G) -> MP;
    /// independent derivations of the same model point (encoding bytes, raw coordinates)
    fn second_paths(_g: &Self::G) -> Vec<(&'static str, MP)> {
        vec![]
    }
    fn scalar(k: &BigUint) -> Sc<Self>;
    /// `ConstantTimeEq::ct_eq` where the type implements it
    fn ct_eq(_a: &Self::G, _b: &Self::G) -> Option<bool> {
        None
    }
    /// unchecked constructor from coordinates (None: the API offers none)
    fn from_m(_p: &MP) -> Option<Self::G> {
        None
    }
    /// operator impls beyond what `group::Group` guarantees: (variant, is_subtraction, f)
    fn extra_bin() -> Vec<(&'static str, bool, BinFn<Self::G>)> {
        vec![]
    }
    fn extra_neg() -> Vec<(&'static str, fn(&Self::G) -> Self::G)> {
        vec![]
    }
    fn extra_mul() -> Vec<(&'static str, fn(&Self::G, &Sc<Self>) -> Self::G)> {
        vec![]
    }
    fn codecs() -> Vec<Codec<Self::G>> {
        vec![]
    }
}

/// Affine companion of a `group::Curve` type.
pub trait AffOps: Bind {
    type A: Copy + PartialEq + ConstantTimeEq + ConditionallySelectable + Send + Sync + 'static;
    fn a_to_m(a: &Self::A) -> MP;
    fn a_to_curve(a: &Self::A) -> Self::G;
    fn a_identity() -> Self::A;
    fn a_generator() -> Option<Self::A> {
        None
    }
    fn a_is_identity(_a: &Self::A) -> Option<bool> {
        None
    }
    fn a_neg(_a: &Self::A) -> Option<Self::A> {
        None
    }
    fn a_mul(_a: &Self::A, _s: &Sc<Self>) -> Option<Self::G> {
        None
    }
}

pub struct Pt<B: Bind> {
    pub name: String,
    pub g: B::G,
    pub m: MP,
    pub in_sub: bool,
}

pub struct Alpha<B: Bind> {
    pub cv: MCurve,
    pub pts: Vec<Pt<B>>,
    pub scalars: Vec<(String, BigUint)>,
}

pub fn has(out: &CaseOut, ty: &str, op: &str, kind: &str) -> bool {
    let key = format!("{ty}:{op}:{kind}");
    out.viols.iter().any(|x| x.finding_key == key)
}

pub fn v(out: &mut CaseOut, ty: &str, op: &str, kind: &str, what: String, detail: Value) {
    // one witness per finding key and case keeps room (vcore caps a case at 16) for other keys
    let key = format!("{ty}:{op}:{kind}");
    if out.viols.iter().any(|x| x.finding_key == key) {
        return;
    }
    out.viol(Viol::new(format!("{ty}:{op}:{kind}"), format!("{ty} {op}: {what}"), detail));
}

fn rand_fe(cv: &MCurve, rng: &mut ChaCha20Rng) -> FE {
    (0..cv.f.deg).map(|_| big::random_below(rng, cv.f.p())).collect()
}

/// Model-side construction of points that are on the curve but outside the prime subgroup.
pub fn cofactor_points(cv: &MCurve, rng: &mut ChaCha20Rng) -> Vec<(String, MP)> {
    let mut out = vec![];
    if !cv.has_cofactor {
        return out;
    }
    // N: random curve point outside the subgroup; rN: its cofactor component
    let (n, rn) = loop {
        let c = rand_fe(cv, rng);
        if let Some(p) = cv.point_with(&c) {
            let rn = cv.mul(&p, &cv.r);
            if cv.is_id(&rn) {
                continue;
            }
            if cv.is_te() {
                // want the 8-torsion generator: order exactly 8
                let t4 = cv.dbl(&cv.dbl(&rn));
                if cv.is_id(&t4) {
                    continue;
                }
            }
            break (p, rn);
        }
    };
    out.push(("N".to_string(), n));
    if cv.is_te() {
        out.push(("T8".to_string(), rn.clone()));
        let t4 = cv.dbl(&rn);
        out.push(("T4".to_string(), t4.clone()));
        out.push(("T2".to_string(), cv.dbl(&t4)));
    } else {
        out.push(("rN".to_string(), rn));
        // (0, sqrt b): a point of order 3 when b is a square
        if let Some(p) = cv.point_with(&cv.f.zero()) {
            out.push(("T3".to_string(), p));
        }
    }
    out
}

/// Validates the inversion-free ladder against the affine reference law on one curve: tasks of
/// the group `model-self-check`; a disagreement panics inside the harness (machinery error, no
/// verdict), because subgroup-membership verdicts of the whole run rest on the ladder.
pub fn ladder_self_check_tasks(t: &mut Tasks, seed: u64, name: &'static str, cv: MCurve) {
    let cv = Arc::new(cv);
    for idx in 0..3u32 {
        let cv = cv.clone();
        t.push("model-self-check", format!("{name}:ladder-vs-affine-law[{idx}]"), move || {
            let mut rng = vcore::rng_for(seed, &format!("c11-ladder-{name}-{idx}"));
            let p = loop {
                if let Some(p) = cv.point_with(&rand_fe(&cv, &mut rng)) {
                    break p;
                }
            };
            let mut out = CaseOut::batch();
            for k in [cv.r.clone(), &cv.r - 1u32, big::random_below(&mut rng, &cv.r), big::bu(0), big::bu(1), big::bu(2), big::bu(3)] {
                assert!(cv.mul_fast(&p, &k) == cv.mul(&p, &k), "{name}: ladder != affine law for k = {k}");
                out.eval("ladder==affine-law", true);
            }
            assert!(cv.in_subgroup(&p) == cv.in_subgroup_ref(&p), "{name}: subgroup verdicts differ");
            // small-order / cofactor-group inputs exercise the doubling and P + (-P) branches
            let rp = cv.mul(&p, &cv.r);
            for k in [big::bu(2), big::bu(3), big::bu(8), big::bu(24)] {
                assert!(cv.mul_fast(&rp, &k) == cv.mul(&rp, &k), "{name}: ladder != affine law on the cofactor component");
                out.eval("ladder==affine-law", true);
            }
            let g = cv.mul(&p, &big::bu(8));
            let inv = cv.neg(&g);
            assert!(cv.is_id(&cv.add(&g, &inv)), "{name}: P + (-P) != O in the affine law");
            out.eval("affine-law:inverse", true);
            out.sample = Some(json!({"curve": name, "point": p.json()}));
            out
        });
    }
}

pub fn alphabet<B: Bind>(cx: &mut Ctx) -> Arc<Alpha<B>> {
    let cv = B::curve();
    let mut rng = cx.rng(&format!("c11-alphabet-{}", B::NAME));
    let g = B::G::generator();
    let mut raw: Vec<(String, B::G)> = vec![
        ("O".into(), B::G::identity()),
        ("G".into(), g),
        ("2G".into(), g.double()),
        ("-G".into(), -g),
    ];
    for i in 0..3 {
        raw.push((format!("s{i}"), B::G::random(&mut rng)));
    }
    let mut n_extra = 0;
    if B::COFACTOR_EXTRAS {
        for (name, mp) in cofactor_points(&cv, &mut rng) {
            match catch(|| B::from_m(&mp)) {
                Ok(Some(p)) => {
                    raw.push((name, p));
                    n_extra += 1;
                }
                Ok(None) => cx.note(format!("{}: unchecked constructor refused the model point {name}", B::NAME)),
                Err(e) => cx.note(format!("{}: unchecked constructor panicked on {name}: {e}", B::NAME)),
            }
        }
    }
    cx.add_counter(&format!("{}:cofactor-alphabet-points", B::NAME), n_extra);
    let mut pts = vec![];
    for (name, g) in raw {
        match catch(|| B::to_m(&g)) {
            Ok(m) => {
                let in_sub = cv.in_subgroup(&m);
                pts.push(Pt { name, g, m, in_sub });
            }
            Err(e) => cx.machinery_error(format!("{}: binding panicked on alphabet point {name}: {e}", B::NAME)),
        }
    }
    // scalar alphabet (integers < r)
    let r = &cv.r;
    let mut scalars: Vec<(String, BigUint)> = vec![
        ("0".into(), BigUint::zero()),
        ("1".into(), BigUint::one()),
        ("2".into(), big::bu(2)),
        ("r-1".into(), r - 1u32),
        ("r-2".into(), r - 2u32),
        ("(r-1)/2".into(), (r - 1u32) >> 1),
    ];
    let top = r.bits() as u32 - 1;
    let ks: Vec<u32> = if cx.tier.is_thorough() { vec![3, 4, 5, 63, 64, 65, 127, 128, 129, 191, 192, top - 1, top] } else { vec![64, 128, top] };
    for k in ks {
        scalars.push((format!("2^{k}"), big::pow2(k)));
    }
    let mut srng = cx.rng(&format!("c11-scalars-{}", B::NAME));
    for i in 0..cx.tier.pick(2, 6) {
        scalars.push((format!("k{i}"), big::random_below(&mut srng, r)));
    }
    Arc::new(Alpha { cv, pts, scalars })
}

fn pair_class<B: Bind>(cv: &MCurve, a: &Pt<B>, b: &Pt<B>) -> String {
    let base = match (cv.is_id(&a.m), cv.is_id(&b.m)) {
        (true, true) => "O,O",
        (true, false) => "O,P",
        (false, true) => "P,O",
        _ if a.m == b.m => "P,P",
        _ if a.m == cv.neg(&b.m) => "P,-P",
        _ => "P,Q",
    };
    if a.in_sub && b.in_sub {
        base.to_string()
    } else {
        format!("{base} (outside subgroup)")
    }
}

/// Runs `f`, maps its result to the model and compares with `expect`.
fn check<B: Bind>(out: &mut CaseOut, op: &str, variant: &str, expect: &MP, ctx: &dyn Fn() -> Value, f: impl FnOnce() -> B::G) -> bool {
    check_k::<B>(out, op, "wrong-result", variant, expect, ctx, f)
}

fn check_k<B: Bind>(out: &mut CaseOut, op: &str, kind: &str, variant: &str, expect: &MP, ctx: &dyn Fn() -> Value, f: impl FnOnce() -> B::G) -> bool {
    match catch(|| B::to_m(&f())) {
        Err(p) => {
            v(out, B::NAME, op, "panic", format!("`{variant}` panicked: {p}"), json!({"variant": variant, "input": ctx()}));
            false
        }
        Ok(m) if m != *expect => {
            v(
                out,
                B::NAME,
                op,
                kind,
                format!("`{variant}` disagrees with the affine group law"),
                json!({"variant": variant, "input": ctx(), "got": m.json(), "expected": expect.json()}),
            );
            false
        }
        Ok(_) => true,
    }
}

pub fn group_tasks<B: Bind>(t: &mut Tasks, al: &Arc<Alpha<B>>) {
    let ty = B::NAME;
    // ---- alphabet sanity + binding cross-check
    let a = al.clone();
    t.push("binding", format!("{ty}:binding"), move || {
        let mut out = CaseOut::batch();
        let cv = &a.cv;
        for p in &a.pts {
            out.eval(if p.in_sub { "in-subgroup" } else { "outside-subgroup" }, !cv.is_id(&p.m));
            if !cv.on_curve(&p.m) {
                v(&mut out, ty, "binding", "off-curve", format!("alphabet point {} is not on the curve according to the accessors", p.name), json!({"point": p.name, "model": p.m.json()}));
            }
            match catch(|| B::second_paths(&p.g)) {
                Err(e) => v(&mut out, ty, "binding", "panic", format!("second accessor path panicked on {}: {e}", p.name), json!({"point": p.name})),
                Ok(paths) => {
                    for (pn, m2) in paths {
                        out.eval("second-path", !cv.is_id(&p.m));
                        if m2 != p.m {
                            v(&mut out, ty, "binding", "accessor-mismatch", format!("accessor path `{pn}` disagrees with the primary binding on {}", p.name), json!({"point": p.name, "path": pn, "primary": p.m.json(), "second": m2.json()}));
                        }
                    }
                }
            }
        }
        let by = |n: &str| a.pts.iter().find(|p| p.name == n).map(|p| p.m.clone());
        let (o, g, g2, ng) = (by("O").unwrap(), by("G").unwrap(), by("2G").unwrap(), by("-G").unwrap());
        let checks = [
            ("identity()", o == cv.id()),
            ("generator() on the curve, not identity", cv.on_curve(&g) && !cv.is_id(&g)),
            ("generator().double()", g2 == cv.dbl(&g)),
            ("-generator()", ng == cv.neg(&g)),
        ];
        for (n, ok) in checks {
            out.eval("named-points", true);
            if !ok {
                v(&mut out, ty, "named-points", "wrong-result", format!("{n} disagrees with the model"), json!({"check": n}));
            }
        }
        // group::Group::generator(): "a fixed generator of the prime-order subgroup"
        out.eval("generator-order", true);
        // Not part of property C11 (which is about the group law, encodings and coordinate
        // accessors): recorded as a counter only. (JubjubExtended::generator() has order 8r, as in
        // upstream zkcrypto/jubjub.)
        if !cv.in_subgroup(&g) {
            out.count("generator-outside-prime-subgroup(not-judged)", 1);
        }
        out.sample = Some(json!({"type": ty, "alphabet": a.pts.iter().map(|p| json!({"name": p.name, "in_subgroup": p.in_sub, "model": p.m.json()})).collect::<Vec<_>>()}));
        out
    });

    // ---- add / sub on every ordered pair
    for is_sub in [false, true] {
        let a = al.clone();
        let op = if is_sub { "sub" } else { "add" };
        t.push("group-law", format!("{ty}:{op}"), move || {
            let mut out = CaseOut::batch();
            let cv = &a.cv;
            let g = a.pts.iter().find(|p| p.name == "G").unwrap();
            let extras = B::extra_bin();
            for pa in &a.pts {
                for pb in &a.pts {
                    let (p, q) = (pa.g, pb.g);
                    let expect = if is_sub { cv.sub(&pa.m, &pb.m) } else { cv.add(&pa.m, &pb.m) };
                    let cls = pair_class(cv, pa, pb);
                    let nontrivial = !cv.is_id(&pa.m) && !cv.is_id(&pb.m);
                    let ctx = || json!({"P": pa.name, "Q": pb.name, "P_model": pa.m.json(), "Q_model": pb.m.json()});
                    let mut run = |variant: &str, f: &dyn Fn() -> B::G| {
                        out.eval(&cls, nontrivial);
                        check::<B>(&mut out, op, variant, &expect, &ctx, f);
                    };
                    if is_sub {
                        run("P - Q", &|| p - q);
                        run("P - &Q", &|| p - &q);
                        run("P -= Q", &|| {
                            let mut t = p;
                            t -= q;
                            t
                        });
                        run("P -= &Q", &|| {
                            let mut t = p;
                            t -= &q;
                            t
                        });
                    } else {
                        run("P + Q", &|| p + q);
                        run("P + &Q", &|| p + &q);
                        run("P += Q", &|| {
                            let mut t = p;
                            t += q;
                            t
                        });
                        run("P += &Q", &|| {
                            let mut t = p;
                            t += &q;
                            t
                        });
                    }
                    for (name, sub, f) in &extras {
                        if *sub == is_sub {
                            run(name, &|| f(&p, &q));
                        }
                    }
                    // the result is a usable operand (hidden coordinates are consistent)
                    let expect2 = cv.add(&expect, &g.m);
                    out.eval(&cls, nontrivial);
                    check::<B>(&mut out, op, if is_sub { "(P - Q) + G" } else { "(P + Q) + G" }, &expect2, &ctx, || if is_sub { (p - q) + g.g } else { (p + q) + g.g });
                }
            }
            out.sample = Some(json!({"type": ty, "op": op, "pairs": a.pts.len() * a.pts.len()}));
            out
        });
    }

    // ---- unary operations, equality, selection
    let a = al.clone();
    t.push("group-law", format!("{ty}:unary"), move || {
        let mut out = CaseOut::batch();
        let cv = &a.cv;
        let g = a.pts.iter().find(|p| p.name == "G").unwrap();
        for pa in &a.pts {
            let p = pa.g;
            let nontrivial = !cv.is_id(&pa.m);
            let cls = if pa.in_sub { "unary" } else { "unary (outside subgroup)" };
            let ctx = || json!({"P": pa.name, "P_model": pa.m.json()});
            out.eval(cls, nontrivial);
            check::<B>(&mut out, "double", "P.double()", &cv.dbl(&pa.m), &ctx, || p.double());
            out.eval(cls, nontrivial);
            check::<B>(&mut out, "double", "P.double() + G", &cv.add(&cv.dbl(&pa.m), &g.m), &ctx, || p.double() + g.g);
            out.eval(cls, nontrivial);
            check::<B>(&mut out, "neg", "-P", &cv.neg(&pa.m), &ctx, || -p);
            out.eval(cls, nontrivial);
            check::<B>(&mut out, "neg", "(-P) + G", &cv.add(&cv.neg(&pa.m), &g.m), &ctx, || (-p) + g.g);
            for (name, f) in B::extra_neg() {
                out.eval(cls, nontrivial);
                check::<B>(&mut out, "neg", name, &cv.neg(&pa.m), &ctx, || f(&p));
            }
            out.eval(cls, nontrivial);
            match catch(|| bool::from(p.is_identity())) {
                Err(e) => v(&mut out, ty, "is_identity", "panic", format!("panicked: {e}"), ctx()),
                Ok(b) if b != cv.is_id(&pa.m) => v(&mut out, ty, "is_identity", "wrong-result", format!("is_identity() = {b}"), ctx()),
                _ => {}
            }
        }
        // equality: every pair, each operand in three representations of the same point
        let reps = |p: &Pt<B>| -> Vec<(&'static str, B::G)> {
            vec![("P", p.g), ("(P+G)-G", (p.g + g.g) - g.g), ("(P-G)+G", (p.g - g.g) + g.g)]
        };
        for pa in &a.pts {
            for pb in &a.pts {
                let same = pa.m == pb.m;
                let r = catch(|| {
                    let (mut bad_eq, mut bad_ct) = (vec![], vec![]);
                    for (na, x) in reps(pa) {
                        for (nb, y) in reps(pb) {
                            if (x == y) != same {
                                bad_eq.push(format!("{na} == {nb}"));
                            }
                            if B::ct_eq(&x, &y).unwrap_or(same) != same {
                                bad_ct.push(format!("{na} ct_eq {nb}"));
                            }
                        }
                    }
                    (bad_eq, bad_ct)
                });
                out.eval(if same { "eq:same-point" } else { "eq:different" }, !cv.is_id(&pa.m) && !cv.is_id(&pb.m));
                match r {
                    Err(e) => v(&mut out, ty, "eq", "panic", format!("panicked: {e}"), json!({"P": pa.name, "Q": pb.name})),
                    Ok((bad_eq, bad_ct)) => {
                        for (op, bad) in [("eq", bad_eq), ("ct_eq", bad_ct)] {
                            if !bad.is_empty() {
                                v(&mut out, ty, op, "wrong-result", format!("{op} disagrees with the model (points equal: {same}) on representations {}", bad.join(", ")), json!({"P": pa.name, "Q": pb.name, "P_model": pa.m.json(), "Q_model": pb.m.json(), "failing": bad, "representations": "P as in the alphabet; (P+G)-G and (P-G)+G are the same point with other projective coordinates"}));
                            }
                        }
                    }
                }
                let ctx = || json!({"P": pa.name, "Q": pb.name});
                out.eval("conditional_select", !same);
                check::<B>(&mut out, "conditional_select", "select(P,Q,0)", &pa.m, &ctx, || B::G::conditional_select(&pa.g, &pb.g, Choice::from(0)));
                out.eval("conditional_select", !same);
                check::<B>(&mut out, "conditional_select", "select(P,Q,1) + G", &cv.add(&pb.m, &g.m), &ctx, || B::G::conditional_select(&pa.g, &pb.g, Choice::from(1)) + g.g);
            }
        }
        out
    });

    // ---- sum of every 3-list on a diagonal (+ empty and singleton lists)
    let a = al.clone();
    t.push("group-law", format!("{ty}:sum"), move || {
        let mut out = CaseOut::batch();
        let cv = &a.cv;
        let n = a.pts.len();
        let mut lists: Vec<Vec<usize>> = vec![vec![]];
        for i in 0..n {
            lists.push(vec![i]);
            lists.push(vec![i, (i + 1) % n, (i + 2) % n]);
            lists.push(vec![i, i, (i + 3) % n]);
        }
        for l in lists {
            let expect = l.iter().fold(cv.id(), |acc, i| cv.add(&acc, &a.pts[*i].m));
            let items: Vec<B::G> = l.iter().map(|i| a.pts[*i].g).collect();
            let names: Vec<&str> = l.iter().map(|i| a.pts[*i].name.as_str()).collect();
            let ctx = || json!({"list": names});
            out.eval(&format!("sum:len{}", l.len()), l.len() >= 2);
            check::<B>(&mut out, "sum", "iter().sum()", &expect, &ctx, || items.iter().sum::<B::G>());
            out.eval(&format!("sum:len{}", l.len()), l.len() >= 2);
            check::<B>(&mut out, "sum", "into_iter().sum()", &expect, &ctx, || items.clone().into_iter().sum::<B::G>());
        }
        out
    });

    // ---- scalar multiplication, one task per point
    for (idx, pa) in al.pts.iter().enumerate() {
        let a = al.clone();
        t.push("scalar-mul", format!("{ty}:mul[{}]", pa.name), move || {
            let mut out = CaseOut::batch();
            let cv = &a.cv;
            let pa = &a.pts[idx];
            let p = pa.g;
            let extras = B::extra_mul();
            for (sn, k) in &a.scalars {
                // oracle: the affine law. Outside the prime subgroup (where a deviation is kept
                // under its own key anyway) the validated ladder computes the integer multiple.
                let expect = if pa.in_sub { cv.mul(&pa.m, k) } else { cv.mul_fast(&pa.m, k) };
                let s = match catch(|| B::scalar(k)) {
                    Ok(s) => s,
                    Err(e) => {
                        v(&mut out, ty, "mul", "panic", format!("scalar construction panicked: {e}"), json!({"scalar": sn}));
                        continue;
                    }
                };
                let cls = format!("k={}{}", if sn.starts_with('k') { "seeded" } else if sn.starts_with("2^") { "2^i" } else { sn }, if pa.in_sub { "" } else { " (outside subgroup)" });
                let nontrivial = !cv.is_id(&pa.m) && !k.is_zero();
                let ctx = || json!({"P": pa.name, "P_model": pa.m.json(), "scalar": sn, "k": big::hexs(k)});
                // a point outside the prime subgroup is not an element of the scalar-field module;
                // a deviation from the integer multiple there is kept apart from one inside
                let kind = if pa.in_sub { "wrong-result" } else { "not-integer-multiple-outside-subgroup" };
                let mut run = |variant: &str, f: &dyn Fn() -> B::G| {
                    out.eval(&cls, nontrivial);
                    let fresh = !has(&out, ty, "mul", kind);
                    if !check_k::<B>(&mut out, "mul", kind, variant, &expect, &ctx, f) && fresh && !pa.in_sub {
                        assert!(cv.mul(&pa.m, k) == expect, "ladder and affine law disagree on a blaming verdict");
                    }
                };
                run("P * k", &|| p * s);
                run("P * &k", &|| p * &s);
                run("P *= k", &|| {
                    let mut t = p;
                    t *= s;
                    t
                });
                run("P *= &k", &|| {
                    let mut t = p;
                    t *= &s;
                    t
                });
                for (name, f) in &extras {
                    run(name, &|| f(&p, &s));
                }
            }
            out.sample = Some(json!({"type": ty, "point": pa.name, "scalars": a.scalars.iter().map(|s| s.0.clone()).collect::<Vec<_>>()}));
            out
        });
    }
}

/// Checks of a `group::Curve` type and its affine companion.
pub fn curve_tasks<B: AffOps>(t: &mut Tasks, al: &Arc<Alpha<B>>)
where
    B::G: Curve<AffineRepr = B::A>,
{
    let ty = B::NAME;
    // ---- mixed addition through the `Curve` bounds
    let a = al.clone();
    t.push("group-law", format!("{ty}:mixed"), move || {
        let mut out = CaseOut::batch();
        let cv = &a.cv;
        for pa in &a.pts {
            for pb in &a.pts {
                let p = pa.g;
                let qa = match catch(|| pb.g.to_affine()) {
                    Ok(x) => x,
                    Err(e) => {
                        v(&mut out, ty, "to_affine", "panic", format!("panicked: {e}"), json!({"P": pb.name}));
                        continue;
                    }
                };
                let cls = pair_class(cv, pa, pb);
                let nontrivial = !cv.is_id(&pa.m) && !cv.is_id(&pb.m);
                let ctx = || json!({"P": pa.name, "Q": pb.name, "P_model": pa.m.json(), "Q_model": pb.m.json()});
                let sum = cv.add(&pa.m, &pb.m);
                let diff = cv.sub(&pa.m, &pb.m);
                let mut run = |variant: &str, expect: &MP, f: &dyn Fn() -> B::G| {
                    out.eval(&cls, nontrivial);
                    check::<B>(&mut out, "mixed", variant, expect, &ctx, f);
                };
                run("P + Qa", &sum, &|| p + qa);
                run("P + &Qa", &sum, &|| p + &qa);
                run("P += Qa", &sum, &|| {
                    let mut t = p;
                    t += qa;
                    t
                });
                run("P += &Qa", &sum, &|| {
                    let mut t = p;
                    t += &qa;
                    t
                });
                run("P - Qa", &diff, &|| p - qa);
                run("P - &Qa", &diff, &|| p - &qa);
                run("P -= Qa", &diff, &|| {
                    let mut t = p;
                    t -= qa;
                    t
                });
                run("P -= &Qa", &diff, &|| {
                    let mut t = p;
                    t -= &qa;
                    t
                });
            }
        }
        out
    });

    // ---- to_affine / batch_normalize / affine-level operations
    let a = al.clone();
    t.push("group-law", format!("{ty}:affine"), move || {
        let mut out = CaseOut::batch();
        let cv = &a.cv;
        let mut affs: Vec<Option<B::A>> = vec![];
        for pa in &a.pts {
            let nontrivial = !cv.is_id(&pa.m);
            out.eval("to_affine", nontrivial);
            match catch(|| {
                let x = pa.g.to_affine();
                (x, B::a_to_m(&x), B::to_m(&B::a_to_curve(&x)), B::a_is_identity(&x))
            }) {
                Err(e) => {
                    v(&mut out, ty, "to_affine", "panic", format!("panicked: {e}"), json!({"P": pa.name}));
                    affs.push(None);
                }
                Ok((x, m, back, isid)) => {
                    affs.push(Some(x));
                    if m != pa.m {
                        v(&mut out, ty, "to_affine", "wrong-result", "affine accessors disagree with the projective point".into(), json!({"P": pa.name, "got": m.json(), "expected": pa.m.json()}));
                    }
                    if back != pa.m {
                        v(&mut out, ty, "from_affine", "wrong-result", "affine -> projective changes the point".into(), json!({"P": pa.name, "got": back.json(), "expected": pa.m.json()}));
                    }
                    if let Some(b) = isid {
                        if b != cv.is_id(&pa.m) {
                            v(&mut out, ty, "affine-is_identity", "wrong-result", format!("affine is_identity() = {b}"), json!({"P": pa.name}));
                        }
                    }
                }
            }
        }
        // batch_normalize on the whole list, on the empty list and on an all-identity list
        let all: Vec<B::G> = a.pts.iter().map(|p| p.g).collect();
        let id_list = vec![B::G::identity(); 3];
        for (ln, list, expect) in [
            ("whole-alphabet", all.clone(), a.pts.iter().map(|p| p.m.clone()).collect::<Vec<_>>()),
            ("empty", vec![], vec![]),
            ("all-identity", id_list, vec![cv.id(); 3]),
            ("reversed", all.iter().rev().cloned().collect(), a.pts.iter().rev().map(|p| p.m.clone()).collect()),
        ] {
            out.eval(&format!("batch_normalize:{ln}"), list.len() > 1);
            match catch(|| {
                let mut q = vec![B::a_identity(); list.len()];
                B::G::batch_normalize(&list, &mut q);
                q.iter().map(B::a_to_m).collect::<Vec<_>>()
            }) {
                Err(e) => v(&mut out, ty, "batch_normalize", "panic", format!("panicked on the {ln} list: {e}"), json!({"list": ln})),
                Ok(ms) if ms != expect => {
                    let i = ms.iter().zip(&expect).position(|(x, y)| x != y).unwrap_or(0);
                    v(&mut out, ty, "batch_normalize", "wrong-result", format!("element {i} of the {ln} list is wrong"), json!({"list": ln, "index": i, "got": ms.get(i).map(|m| m.json()), "expected": expect.get(i).map(|m| m.json())}));
                }
                _ => {}
            }
        }
        // affine-level: ==, ct_eq, conditional_select, neg, identity/generator, scalar mul
        let g = a.pts.iter().find(|p| p.name == "G").unwrap();
        out.eval("affine-constants", true);
        match catch(|| (B::a_to_m(&B::a_identity()), B::a_generator().map(|x| B::a_to_m(&x)))) {
            Err(e) => v(&mut out, ty, "affine-constants", "panic", format!("panicked: {e}"), json!({})),
            Ok((i, gen)) => {
                if i != cv.id() {
                    v(&mut out, ty, "affine-constants", "wrong-result", "affine identity() is not the identity".into(), json!({"got": i.json()}));
                }
                if let Some(gm) = gen {
                    if gm != g.m {
                        v(&mut out, ty, "affine-constants", "wrong-result", "affine generator() differs from the projective one".into(), json!({"got": gm.json(), "expected": g.m.json()}));
                    }
                }
            }
        }
        for (i, pa) in a.pts.iter().enumerate() {
            let Some(x) = affs[i] else { continue };
            for (j, pb) in a.pts.iter().enumerate() {
                let Some(y) = affs[j] else { continue };
                let same = pa.m == pb.m;
                out.eval(if same { "affine-eq:same-point" } else { "affine-eq:different" }, !cv.is_id(&pa.m) && !cv.is_id(&pb.m));
                match catch(|| {
                    let sel1 = B::A::conditional_select(&x, &y, Choice::from(1));
                    ((x == y), bool::from(x.ct_eq(&y)), B::a_to_m(&B::A::conditional_select(&x, &y, Choice::from(0))), B::a_to_m(&sel1), B::to_m(&B::a_to_curve(&sel1)))
                }) {
                    Err(e) => v(&mut out, ty, "affine-eq", "panic", format!("panicked: {e}"), json!({"P": pa.name, "Q": pb.name})),
                    Ok((e1, e2, s0, s1, s1c)) => {
                        if s1c != pb.m {
                            v(&mut out, ty, "affine-conditional_select", "wrong-result", "the selected affine value converts to a different projective point".into(), json!({"P": pa.name, "Q": pb.name}));
                        }
                        if e1 != same || e2 != same {
                            v(&mut out, ty, "affine-eq", "wrong-result", format!("== gives {e1}, ct_eq gives {e2}, model says {same}"), json!({"P": pa.name, "Q": pb.name, "P_model": pa.m.json(), "Q_model": pb.m.json()}));
                        }
                        if s0 != pa.m || s1 != pb.m {
                            v(&mut out, ty, "affine-conditional_select", "wrong-result", "conditional_select returns the wrong operand".into(), json!({"P": pa.name, "Q": pb.name}));
                        }
                    }
                }
            }
            out.eval("affine-neg", !cv.is_id(&pa.m));
            match catch(|| B::a_neg(&x).map(|n| B::a_to_m(&n))) {
                Err(e) => v(&mut out, ty, "affine-neg", "panic", format!("panicked: {e}"), json!({"P": pa.name})),
                Ok(Some(m)) if m != cv.neg(&pa.m) => v(&mut out, ty, "affine-neg", "wrong-result", "-Pa disagrees with the model".into(), json!({"P": pa.name, "got": m.json(), "expected": cv.neg(&pa.m).json()})),
                _ => {}
            }
        }
        out
    });

    // ---- affine * scalar (where the type offers it), folded in one task
    let a = al.clone();
    t.push("scalar-mul", format!("{ty}:affine-mul"), move || {
        let mut out = CaseOut::batch();
        let cv = &a.cv;
        // a short scalar list keeps this cheap; the projective path runs the full alphabet
        let ks: Vec<&(String, BigUint)> = a.scalars.iter().filter(|s| ["0", "1", "r-1", "k0"].contains(&s.0.as_str())).collect();
        for pa in &a.pts {
            for (sn, k) in &ks {
                let r = catch(|| {
                    let x = pa.g.to_affine();
                    B::a_mul(&x, &B::scalar(k)).map(|g| B::to_m(&g))
                });
                match r {
                    Err(e) => {
                        out.eval("affine-mul", true);
                        v(&mut out, ty, "affine-mul", "panic", format!("panicked: {e}"), json!({"P": pa.name, "scalar": sn}));
                    }
                    Ok(None) => {}
                    Ok(Some(m)) => {
                        out.eval("affine-mul", !cv.is_id(&pa.m) && !k.is_zero());
                        let expect = if pa.in_sub { cv.mul(&pa.m, k) } else { cv.mul_fast(&pa.m, k) };
                        if m != expect {
                            v(&mut out, ty, "affine-mul", if pa.in_sub { "wrong-result" } else { "not-integer-multiple-outside-subgroup" }, "Pa * k disagrees with the model".into(), json!({"P": pa.name, "scalar": sn, "k": big::hexs(k), "got": m.json(), "expected": expect.json()}));
                        }
                    }
                }
            }
        }
        if out.evals == 0 {
            out.eval("affine-mul:not-offered", false);
        }
        out
    });
}

// ---------------------------------------------------------------------------------------------
// Encodings
// ---------------------------------------------------------------------------------------------

fn reason(d: &Dec) -> String {
    match d {
        Dec::Ok(_) => "valid".into(),
        Dec::NonCanonical(why) => format!("non-canonical:{}", slug(why)),
        Dec::OffCurve => "off-curve".into(),
    }
}

fn slug(why: &str) -> &'static str {
    if why.contains(">= p") {
        "coordinate-not-reduced"
    } else if why.contains("compression flag") {
        "compression-flag"
    } else if why.contains("infinity flag") || why.contains("identity flag") {
        "identity-flag"
    } else if why.contains("sort flag") || why.contains("sign flag") {
        "sign-flag"
    } else if why.contains("tag") {
        "sec1-tag"
    } else if why.contains("x = 0") {
        "sign-of-zero"
    } else {
        "other"
    }
}

/// The decoding oracle for one input.
pub fn judge<G>(out: &mut CaseOut, ty: &str, c: &Codec<G>, cv: &MCurve, input: &[u8], origin: &str) {
    let spec = c.fmt.decode(cv, input);
    // expected verdict
    let (should_accept, why): (bool, String) = match &spec {
        Dec::Ok(p) => {
            if c.promises_subgroup && !cv.in_subgroup(p) {
                (false, "non-subgroup".into())
            } else {
                (true, "valid".into())
            }
        }
        d => (false, reason(d)),
    };
    // a verdict that rests on subgroup membership is re-derived with the affine reference law
    // before it can blame the subject
    let confirm_membership = |out: &mut CaseOut| {
        static BUDGET: std::sync::atomic::AtomicUsize = std::sync::atomic::AtomicUsize::new(0);
        if let Dec::Ok(p) = &spec {
            // (the ladder is validated against the reference law at start-up; on top of that the
            // first 48 blaming verdicts of a run are re-derived)
            if c.promises_subgroup && BUDGET.fetch_add(1, std::sync::atomic::Ordering::Relaxed) < 48 {
                assert_eq!(cv.in_subgroup(p), cv.in_subgroup_ref(p), "ladder and reference law disagree on subgroup membership");
                out.counter("membership-verdicts-reconfirmed", 1);
            }
        }
    };
    // outcome classes use the coarse verdict, finding keys the precise one
    let coarse = why.split(':').next().unwrap().to_string();
    let detail = |extra: Value| json!({"decoder": c.name, "input": hex(input), "origin": origin, "model_verdict": why, "model_note": format!("{spec:?}").chars().take(160).collect::<String>(), "extra": extra});
    let got = catch(|| (c.dec)(input));
    match got {
        Err(e) => {
            out.eval(&format!("{ty}:{}:panic", c.name), true);
            v(out, ty, c.name, "panic", format!("decoder panicked on a {why} input: {e}"), detail(json!({})));
        }
        Ok(None) => {
            out.eval(&format!("{ty}:{}:reject[{coarse}]", c.name), true);
            if should_accept {
                if has(out, ty, c.name, "rejects-valid") {
                    return;
                }
                confirm_membership(out);
                v(out, ty, c.name, "rejects-valid", "checked decoder rejects a canonical encoding of a valid element".into(), detail(json!({})));
            }
        }
        Ok(Some((m, re))) => {
            out.eval(&format!("{ty}:{}:accept[{coarse}]", c.name), true);
            if !should_accept {
                if has(out, ty, c.name, &format!("accepts-{why}")) {
                    return;
                }
                confirm_membership(out);
                v(out, ty, c.name, &format!("accepts-{why}"), format!("checked decoder accepts a {why} encoding"), detail(json!({"decoded": m.json(), "reencoded": hex(&re)})));
                return;
            }
            if let Dec::Ok(p) = &spec {
                if m != *p {
                    v(out, ty, c.name, "wrong-value", "decoded element differs from the specified one".into(), detail(json!({"decoded": m.json(), "expected": p.json()})));
                }
            }
            if re != input {
                v(out, ty, c.name, "reencode-differs", "accepted value does not re-encode to the same bytes".into(), detail(json!({"reencoded": hex(&re)})));
            }
            if let Some(du) = c.dec_unchecked {
                match catch(|| du(input)) {
                    Err(e) => v(out, ty, c.name, "unchecked-panic", format!("unchecked decoder panicked on an input the checked one accepts: {e}"), detail(json!({}))),
                    Ok(mu) => {
                        if mu.as_ref() != Some(&m) {
                            v(out, ty, c.name, "unchecked-disagrees", "unchecked decoder disagrees with the checked one on an accepted input".into(), detail(json!({"unchecked": mu.map(|x| x.json())})));
                        }
                    }
                }
            }
        }
    }
}

/// Crafted inputs of a format (built from the specification, not from the subject).
pub fn crafted(fmt: Fmt, cv: &MCurve, gen: &MP, extra_points: &[(String, MP)]) -> Vec<(String, Vec<u8>)> {
    let n = fmt.len(cv);
    let mut out: Vec<(String, Vec<u8>)> = vec![("all-zero".into(), vec![0u8; n]), ("all-ff".into(), vec![0xffu8; n])];
    let Some(valid) = fmt.encode(cv, gen) else { return out };
    let id = fmt.encode(cv, &cv.id());
    // every value of the flag bits on a valid body and on the identity body
    if let Some(fb) = fmt.flag_byte(cv) {
        let masks: Vec<u8> = match fmt {
            Fmt::BlsC | Fmt::BlsU => (0..8).map(|k| k << 5).collect(),
            Fmt::BnC => (0..4).map(|k| k << 6).collect(),
            Fmt::EdY => vec![0x00, 0x80],
            Fmt::Sec1C => (0..=255).collect(),
            _ => vec![],
        };
        let keep: u8 = match fmt {
            Fmt::BlsC | Fmt::BlsU => 0x1f,
            Fmt::BnC => 0x3f,
            Fmt::EdY => 0x7f,
            _ => 0x00,
        };
        for m in &masks {
            let mut b = valid.clone();
            b[fb] = (b[fb] & keep) | m;
            out.push((format!("flags={m:#04x} on G"), b));
            if let Some(idb) = &id {
                let mut b = idb.clone();
                b[fb] = (b[fb] & keep) | m;
                out.push((format!("flags={m:#04x} on identity body"), b));
            }
            let mut b = vec![0u8; n];
            b[fb] = *m;
            out.push((format!("flags={m:#04x} on zero body"), b));
        }
    }
    // non-canonical field elements in the free coordinate: p, p+1, p+k.., 2^bits-1
    let p = cv.f.p().clone();
    let put = |v: &BigUint, comp: usize, base: &[u8]| -> Option<Vec<u8>> {
        let mut b = base.to_vec();
        match fmt {
            Fmt::BlsC | Fmt::BlsU => {
                if v.bits() > 381 {
                    return None;
                }
                let flags = b[0] & 0xe0;
                let d = cv.f.deg;
                let off = (d - 1 - comp) * 48;
                b[off..off + 48].copy_from_slice(&big::to_be(v, 48));
                if off == 0 {
                    b[0] |= flags;
                }
            }
            Fmt::BnC | Fmt::BnU | Fmt::BnRaw { .. } => {
                if v.bits() > if fmt == Fmt::BnC && comp == cv.f.deg - 1 { 254 } else { 256 } {
                    return None;
                }
                let flags = if fmt == Fmt::BnC && comp == cv.f.deg - 1 { b[n - 1] & 0xc0 } else { 0 };
                b[comp * 32..comp * 32 + 32].copy_from_slice(&big::to_le(v, 32));
                b[comp * 32 + 31] |= flags;
            }
            Fmt::Sec1C => {
                if v.bits() > 256 {
                    return None;
                }
                b[1..].copy_from_slice(&big::to_be(v, 32));
            }
            Fmt::EdY => {
                if v.bits() > 255 {
                    return None;
                }
                let s = b[31] & 0x80;
                b.copy_from_slice(&big::to_le(v, 32));
                b[31] |= s;
            }
        }
        Some(b)
    };
    for comp in 0..cv.f.deg {
        for (nm, val) in [("p", p.clone()), ("p+1", &p + 1u32), ("p+2", &p + 2u32), ("2^k-1", big::pow2(p.bits() as u32) - 1u32), ("p-1", &p - 1u32), ("0", BigUint::zero()), ("1", BigUint::one())] {
            if let Some(b) = put(&val, comp, &valid) {
                out.push((format!("coordinate c{comp} = {nm}"), b));
            }
        }
    }
    if fmt == Fmt::EdY {
        // every non-canonical y = p + k (k < 19) and the x = 0 points with both sign bits
        for k in 0..19u32 {
            for s in [0u8, 0x80] {
                let mut b = big::to_le(&(&p + k), 32);
                b[31] |= s;
                out.push((format!("y = p+{k}, sign={}", s >> 7), b));
            }
        }
        for (nm, y) in [("y=1", BigUint::one()), ("y=p-1", &p - 1u32), ("y=0", BigUint::zero())] {
            for s in [0u8, 0x80] {
                let mut b = big::to_le(&y, 32);
                b[31] |= s;
                out.push((format!("{nm}, sign={}", s >> 7), b));
            }
        }
    }
    // free coordinate without a point on the curve, and the uncompressed (x, y+1)
    let (c_off, _) = cv.find_point(1, false);
    if let Some(b) = put(&c_off[0], 0, &valid) {
        // the other components of x keep G's value; decide by the model anyway
        out.push(("free coordinate c0 := smallest value (other components of G)".into(), b));
    }
    if matches!(fmt, Fmt::BlsU | Fmt::BnU) {
        if let MP::At(x, y) = gen {
            let y1 = cv.f.add(y, &cv.f.one());
            let bad = MP::At(x.clone(), y1);
            // encode without the on-curve requirement: the encoder is purely syntactic
            if let Some(b) = fmt.encode(cv, &bad) {
                out.push(("(x, y+1) off-curve".into(), b));
            }
            if let Some(b) = fmt.encode(cv, &MP::At(y.clone(), x.clone())) {
                out.push(("(y, x) swapped".into(), b));
            }
        }
    }
    // valid curve points outside the subgroup, small-order points
    for (nm, p) in extra_points {
        if let Some(b) = fmt.encode(cv, p) {
            out.push((format!("on-curve point {nm} outside the prime subgroup"), b));
        }
    }
    if fmt == Fmt::BlsU {
        // a compressed encoding in the first half of an uncompressed buffer, garbage after it
        if let Some(c) = Fmt::BlsC.encode(cv, gen) {
            let mut b = vec![0xa5u8; n];
            b[..c.len()].copy_from_slice(&c);
            out.push(("compressed encoding of G followed by garbage".into(), b.clone()));
            for x in b[c.len()..].iter_mut() {
                *x = 0;
            }
            out.push(("compressed encoding of G followed by zeros".into(), b));
        }
    }
    if let Shape::SW { .. } = cv.shape {
        // x = 0 body (the point (0, sqrt b) when it exists)
        if let Some(p0) = cv.point_with(&cv.f.zero()) {
            if let Some(b) = fmt.encode(cv, &p0) {
                out.push(("x = 0 on-curve point".into(), b));
            }
        }
    }
    out
}

pub fn codec_tasks<B: Bind>(t: &mut Tasks, al: &Arc<Alpha<B>>, thorough: bool, seed_rng: &mut ChaCha20Rng) {
    use rand_core::RngCore;
    let ty = B::NAME;
    let n_codecs = B::codecs().len();
    for ci in 0..n_codecs {
        let cname = B::codecs()[ci].name;
        // ---- round trip of every alphabet point
        let a = al.clone();
        t.push("encodings", format!("{ty}:{cname}:roundtrip"), move || {
            let mut out = CaseOut::batch();
            let c = &B::codecs()[ci];
            let cv = &a.cv;
            for pa in &a.pts {
                let nontrivial = !cv.is_id(&pa.m);
                let valid_for_codec = !c.promises_subgroup || pa.in_sub;
                let bytes = match catch(|| (c.enc)(&pa.g)) {
                    Ok(b) => b,
                    Err(e) => {
                        out.eval(&format!("{ty}:{cname}:encode-panic"), nontrivial);
                        v(&mut out, ty, cname, "encode-panic", format!("encoder panicked on {}: {e}", pa.name), json!({"P": pa.name, "P_model": pa.m.json()}));
                        continue;
                    }
                };
                out.eval(&format!("{ty}:{cname}:encode"), nontrivial);
                if let Some(mb) = c.fmt.encode(cv, &pa.m) {
                    if mb != bytes {
                        v(&mut out, ty, cname, "encode-mismatch", format!("encoding of {} differs from the specified format", pa.name), json!({"P": pa.name, "P_model": pa.m.json(), "got": hex(&bytes), "expected": hex(&mb)}));
                    }
                }
                if bytes.len() != c.fmt.len(cv) {
                    v(&mut out, ty, cname, "encode-mismatch", "encoding has the wrong length".into(), json!({"P": pa.name, "len": bytes.len()}));
                    continue;
                }
                // (the encoding of an element outside the subgroup must be refused by a decoder
                // that promises the subgroup; `judge` decides that from the model)
                judge(&mut out, ty, c, cv, &bytes, &format!("encoding of {}{}", if valid_for_codec { "" } else { "non-subgroup element " }, pa.name));
            }
            out.sample = Some(json!({"type": ty, "codec": cname, "points": a.pts.len()}));
            out
        });

        // ---- crafted strings
        let a = al.clone();
        t.push("decoders", format!("{ty}:{cname}:crafted"), move || {
            let mut out = CaseOut::batch();
            let c = &B::codecs()[ci];
            let cv = &a.cv;
            let g = a.pts.iter().find(|p| p.name == "G").unwrap();
            let extra: Vec<(String, MP)> = a.pts.iter().filter(|p| !p.in_sub).map(|p| (p.name.clone(), p.m.clone())).collect();
            // for prime-order types without unchecked constructors, still craft non-subgroup inputs
            let mut extra = extra;
            if extra.is_empty() && cv.has_cofactor {
                let mut rng = vcore::rng_for(0, &format!("c11-crafted-{ty}"));
                extra = cofactor_points(cv, &mut rng);
            }
            let mut list = crafted(c.fmt, cv, &g.m, &extra);
            if matches!(c.fmt, Fmt::BnRaw { .. }) {
                // raw formats: start from the subject's own bytes
                let base = (c.enc)(&g.g);
                let cl = c.fmt.coord_len(cv);
                let mut b = base.clone();
                b[cl] ^= 1; // y (Montgomery) + 1: off-curve
                list.push(("raw y limb 0 ^= 1".into(), b));
                let mut b = base.clone();
                for x in b[..32].iter_mut() {
                    *x = 0xff;
                }
                list.push(("raw x.c0 = 2^256-1".into(), b));
            }
            for (origin, bytes) in &list {
                judge(&mut out, ty, c, cv, bytes, origin);
            }
            out.sample = Some(json!({"type": ty, "codec": cname, "crafted": list.iter().map(|x| x.0.clone()).take(12).collect::<Vec<_>>()}));
            out
        });

        // ---- random strings
        let a = al.clone();
        let mut seed = [0u8; 32];
        seed_rng.fill_bytes(&mut seed);
        t.push("decoders", format!("{ty}:{cname}:random"), move || {
            use rand_core::SeedableRng;
            let mut out = CaseOut::batch();
            let c = &B::codecs()[ci];
            let cv = &a.cv;
            let mut rng = ChaCha20Rng::from_seed(seed);
            let n = c.fmt.len(cv);
            for i in 0..if thorough { 256 } else { 32 } {
                let mut b = vec![0u8; n];
                rng.fill_bytes(&mut b);
                // half of the strings get plausible flag bits so that they reach the curve checks
                if i % 2 == 1 {
                    match c.fmt {
                        Fmt::BlsC => b[0] = (b[0] & 0x1f & 0x0f) | 0x80 | (b[0] & 0x20),
                        Fmt::BlsU => b[0] &= 0x0f,
                        Fmt::BnC => b[n - 1] &= 0x9f,
                        Fmt::BnU | Fmt::BnRaw { .. } => {
                            for k in 0..n / 32 {
                                b[k * 32 + 31] &= 0x1f;
                            }
                        }
                        Fmt::Sec1C => b[0] = 2 + (b[0] & 1),
                        Fmt::EdY => {}
                    }
                }
                judge(&mut out, ty, c, cv, &b, "random string");
            }
            out
        });

        // ---- single-bit corruptions of three valid encodings, in chunks
        let sources: Vec<usize> = {
            let pick = |n: &str| al.pts.iter().position(|p| p.name == n);
            [pick("G"), pick("s0"), pick("O")].into_iter().flatten().collect()
        };
        let n_bits = B::codecs()[ci].fmt.len(&al.cv) * 8;
        let flag_byte = B::codecs()[ci].fmt.flag_byte(&al.cv);
        let positions: Vec<usize> = (0..n_bits).filter(|b| thorough || b % 8 == 3 || Some(b / 8) == flag_byte).collect();
        let n_chunks = if thorough { 32 } else { 8 };
        for src in sources {
            for ch in 0..n_chunks {
                let a = al.clone();
                let pos: Vec<usize> = positions.iter().cloned().enumerate().filter(|(i, _)| i % n_chunks == ch).map(|x| x.1).collect();
                t.push("decoders", format!("{ty}:{cname}:bitflip[{}:{ch}/{n_chunks}]", al.pts[src].name), move || {
                    let mut out = CaseOut::batch();
                    let c = &B::codecs()[ci];
                    let cv = &a.cv;
                    let pa = &a.pts[src];
                    let Ok(bytes) = catch(|| (c.enc)(&pa.g)) else { return out };
                    if bytes.len() * 8 != n_bits {
                        return out;
                    }
                    for bit in &pos {
                        let mut b = bytes.clone();
                        // bit 0 = most significant bit of byte 0
                        b[bit / 8] ^= 0x80 >> (bit % 8);
                        judge(&mut out, ty, c, cv, &b, &format!("encoding of {} with bit {bit} flipped", pa.name));
                    }
                    out.counter("bitflips", pos.len() as u64);
                    out
                });
            }
        }
    }
}
