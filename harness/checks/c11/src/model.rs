//! Reference model: affine group law over big integers.
//!
//! * field elements are vectors of `BigUint` (length 1: prime field, length 2: Fp[u]/(u^2+1))
//! * short Weierstrass curves y^2 = x^3 + a x + b with explicit identity / doubling / inverse cases
//! * twisted Edwards curves a x^2 + y^2 = 1 + d x^2 y^2 (complete law: a square, d non-square)
//! * the byte formats of the encodings under test, written from their specifications
//!   (ZCash BLS12-381 format, SEC1 compressed, RFC 8032 / ZIP 216 Edwards-y, and the
//!   halo2curves little-endian flag format of the BN254 development curve).

use num_bigint::BigUint;
use num_traits::Zero;
use serde_json::{json, Value};
use vcore::big::{self, Fp};

pub type FE = Vec<BigUint>;

#[derive(Clone, Debug)]
pub struct Fld {
    pub fp: Fp,
    pub deg: usize,
}

impl Fld {
    pub fn new(p: BigUint, deg: usize) -> Self {
        Fld { fp: Fp::new(p), deg }
    }
    pub fn p(&self) -> &BigUint {
        &self.fp.p
    }
    pub fn zero(&self) -> FE {
        vec![BigUint::zero(); self.deg]
    }
    pub fn one(&self) -> FE {
        self.from_u(1)
    }
    pub fn from_u(&self, x: u64) -> FE {
        let mut v = self.zero();
        v[0] = big::bu(x) % self.p();
        v
    }
    pub fn is_zero(&self, a: &FE) -> bool {
        a.iter().all(|c| c.is_zero())
    }
    pub fn add(&self, a: &FE, b: &FE) -> FE {
        a.iter().zip(b).map(|(x, y)| self.fp.add(x, y)).collect()
    }
    pub fn sub(&self, a: &FE, b: &FE) -> FE {
        a.iter().zip(b).map(|(x, y)| self.fp.sub(x, y)).collect()
    }
    pub fn neg(&self, a: &FE) -> FE {
        a.iter().map(|x| self.fp.neg(x)).collect()
    }
    pub fn mul(&self, a: &FE, b: &FE) -> FE {
        if self.deg == 1 {
            vec![self.fp.mul(&a[0], &b[0])]
        } else {
            // (a0 + a1 u)(b0 + b1 u), u^2 = -1
            let c0 = self.fp.sub(&self.fp.mul(&a[0], &b[0]), &self.fp.mul(&a[1], &b[1]));
            let c1 = self.fp.add(&self.fp.mul(&a[0], &b[1]), &self.fp.mul(&a[1], &b[0]));
            vec![c0, c1]
        }
    }
    pub fn sqr(&self, a: &FE) -> FE {
        self.mul(a, a)
    }
    pub fn inv(&self, a: &FE) -> Option<FE> {
        if self.deg == 1 {
            self.fp.inv(&a[0]).map(|x| vec![x])
        } else {
            // 1/(a0 + a1 u) = (a0 - a1 u)/(a0^2 + a1^2)
            let n = self.fp.add(&self.fp.sqr(&a[0]), &self.fp.sqr(&a[1]));
            let ni = self.fp.inv(&n)?;
            Some(vec![self.fp.mul(&a[0], &ni), self.fp.mul(&self.fp.neg(&a[1]), &ni)])
        }
    }
    pub fn div(&self, a: &FE, b: &FE) -> Option<FE> {
        self.inv(b).map(|bi| self.mul(a, &bi))
    }
    pub fn mul_u(&self, a: &FE, k: u64) -> FE {
        self.mul(a, &self.from_u(k))
    }
    /// Some square root, `None` for non-squares. The result is verified by squaring.
    pub fn sqrt(&self, a: &FE) -> Option<FE> {
        let r = if self.deg == 1 {
            self.fp.sqrt(&a[0]).map(|x| vec![x])
        } else if a[1].is_zero() {
            match self.fp.sqrt(&a[0]) {
                Some(s) => Some(vec![s, BigUint::zero()]),
                // (s u)^2 = -s^2
                None => self.fp.sqrt(&self.fp.neg(&a[0])).map(|s| vec![BigUint::zero(), s]),
            }
        } else {
            // complex method: a square in Fp2 iff its norm is a square in Fp
            let n = self.fp.add(&self.fp.sqr(&a[0]), &self.fp.sqr(&a[1]));
            let alpha = self.fp.sqrt(&n)?;
            let two_inv = self.fp.inv(&big::bu(2)).unwrap();
            let mut delta = self.fp.mul(&self.fp.add(&a[0], &alpha), &two_inv);
            if !self.fp.is_square(&delta) {
                delta = self.fp.mul(&self.fp.sub(&a[0], &alpha), &two_inv);
            }
            let x0 = self.fp.sqrt(&delta)?;
            let x1 = self.fp.div(&a[1], &self.fp.mul(&big::bu(2), &x0))?;
            Some(vec![x0, x1])
        };
        match r {
            Some(s) if self.sqr(&s) == *a => Some(s),
            Some(_) => panic!("model sqrt self-check failed"),
            None => None,
        }
    }
}

#[derive(Clone, Debug)]
pub enum Shape {
    /// y^2 = x^3 + a x + b
    SW { a: FE, b: FE },
    /// a x^2 + y^2 = 1 + d x^2 y^2
    TE { a: FE, d: FE },
}

#[derive(Clone, Debug)]
pub struct MCurve {
    pub f: Fld,
    pub shape: Shape,
    /// order of the prime subgroup
    pub r: BigUint,
    /// true when the curve group is larger than the prime subgroup
    pub has_cofactor: bool,
}

#[derive(Clone, Debug, PartialEq, Eq)]
pub enum MP {
    Inf,
    At(FE, FE),
}

impl MP {
    pub fn json(&self) -> Value {
        match self {
            MP::Inf => json!("infinity"),
            MP::At(x, y) => json!({
                "x": x.iter().map(big::hexs).collect::<Vec<_>>(),
                "y": y.iter().map(big::hexs).collect::<Vec<_>>(),
            }),
        }
    }
}

impl MCurve {
    pub fn is_te(&self) -> bool {
        matches!(self.shape, Shape::TE { .. })
    }
    pub fn id(&self) -> MP {
        match self.shape {
            Shape::SW { .. } => MP::Inf,
            Shape::TE { .. } => MP::At(self.f.zero(), self.f.one()),
        }
    }
    pub fn is_id(&self, p: &MP) -> bool {
        *p == self.id()
    }
    pub fn on_curve(&self, p: &MP) -> bool {
        let f = &self.f;
        match (p, &self.shape) {
            (MP::Inf, Shape::SW { .. }) => true,
            (MP::Inf, Shape::TE { .. }) => false,
            (MP::At(x, y), Shape::SW { a, b }) => {
                let rhs = f.add(&f.add(&f.mul(&f.sqr(x), x), &f.mul(a, x)), b);
                f.sqr(y) == rhs
            }
            (MP::At(x, y), Shape::TE { a, d }) => {
                let x2 = f.sqr(x);
                let y2 = f.sqr(y);
                f.add(&f.mul(a, &x2), &y2) == f.add(&f.one(), &f.mul(d, &f.mul(&x2, &y2)))
            }
        }
    }
    pub fn neg(&self, p: &MP) -> MP {
        match (p, &self.shape) {
            (MP::Inf, _) => MP::Inf,
            (MP::At(x, y), Shape::SW { .. }) => MP::At(x.clone(), self.f.neg(y)),
            (MP::At(x, y), Shape::TE { .. }) => MP::At(self.f.neg(x), y.clone()),
        }
    }
    pub fn add(&self, p: &MP, q: &MP) -> MP {
        let f = &self.f;
        match &self.shape {
            Shape::SW { a, .. } => {
                let (x1, y1) = match p {
                    MP::Inf => return q.clone(),
                    MP::At(x, y) => (x, y),
                };
                let (x2, y2) = match q {
                    MP::Inf => return p.clone(),
                    MP::At(x, y) => (x, y),
                };
                let lambda = if x1 == x2 {
                    if f.is_zero(&f.add(y1, y2)) {
                        // opposite points (includes 2-torsion y = 0)
                        return MP::Inf;
                    }
                    // doubling
                    let num = f.add(&f.mul_u(&f.sqr(x1), 3), a);
                    f.div(&num, &f.mul_u(y1, 2)).expect("2y != 0")
                } else {
                    f.div(&f.sub(y2, y1), &f.sub(x2, x1)).expect("x2 != x1")
                };
                let x3 = f.sub(&f.sub(&f.sqr(&lambda), x1), x2);
                let y3 = f.sub(&f.mul(&lambda, &f.sub(x1, &x3)), y1);
                MP::At(x3, y3)
            }
            Shape::TE { a, d } => {
                let (x1, y1) = match p {
                    MP::At(x, y) => (x, y),
                    MP::Inf => panic!("no point at infinity on the Edwards model"),
                };
                let (x2, y2) = match q {
                    MP::At(x, y) => (x, y),
                    MP::Inf => panic!("no point at infinity on the Edwards model"),
                };
                let x1y2 = f.mul(x1, y2);
                let y1x2 = f.mul(y1, x2);
                let t = f.mul(d, &f.mul(&x1y2, &y1x2));
                let x3 = f
                    .div(&f.add(&x1y2, &y1x2), &f.add(&f.one(), &t))
                    .expect("complete Edwards law: denominator non-zero");
                let y3 = f
                    .div(
                        &f.sub(&f.mul(y1, y2), &f.mul(a, &f.mul(x1, x2))),
                        &f.sub(&f.one(), &t),
                    )
                    .expect("complete Edwards law: denominator non-zero");
                MP::At(x3, y3)
            }
        }
    }
    pub fn dbl(&self, p: &MP) -> MP {
        self.add(p, p)
    }
    pub fn sub(&self, p: &MP, q: &MP) -> MP {
        self.add(p, &self.neg(q))
    }
    /// k * p by left-to-right double-and-add over the bits of the integer k.
    pub fn mul(&self, p: &MP, k: &BigUint) -> MP {
        let mut acc = self.id();
        for i in (0..k.bits()).rev() {
            acc = self.dbl(&acc);
            if k.bit(i) {
                acc = self.add(&acc, p);
            }
        }
        acc
    }
    /// Subgroup membership decided by the affine reference law.
    pub fn in_subgroup_ref(&self, p: &MP) -> bool {
        self.on_curve(p) && self.is_id(&self.mul(p, &self.r))
    }
    /// Subgroup membership decided by the inversion-free ladder (`mul_fast`), which main()
    /// validates against the affine reference before anything relies on it.
    pub fn in_subgroup(&self, p: &MP) -> bool {
        self.on_curve(p) && self.is_id(&self.mul_fast(p, &self.r))
    }
    /// k * p in Jacobian (Weierstrass) resp. projective (Edwards) coordinates: one inversion at
    /// the end instead of one per step. NOT the oracle of the group law: it only classifies
    /// decoder inputs (subgroup membership) and is cross-checked against [`MCurve::mul`].
    pub fn mul_fast(&self, p: &MP, k: &BigUint) -> MP {
        let f = &self.f;
        match (&self.shape, p) {
            (Shape::SW { .. }, MP::Inf) => MP::Inf,
            (Shape::SW { a, .. }, MP::At(x2, y2)) => {
                // accumulator (X, Y, Z), Z = 0 <=> infinity
                let mut acc: Option<(FE, FE, FE)> = None;
                let dbl = |q: &(FE, FE, FE)| -> Option<(FE, FE, FE)> {
                    let (x, y, z) = q;
                    if f.is_zero(y) {
                        return None;
                    }
                    let yy = f.sqr(y);
                    let s = f.mul_u(&f.mul(x, &yy), 4);
                    let zz = f.sqr(z);
                    let m = f.add(&f.mul_u(&f.sqr(x), 3), &f.mul(a, &f.sqr(&zz)));
                    let x3 = f.sub(&f.sqr(&m), &f.mul_u(&s, 2));
                    let y3 = f.sub(&f.mul(&m, &f.sub(&s, &x3)), &f.mul_u(&f.sqr(&yy), 8));
                    let z3 = f.mul_u(&f.mul(y, z), 2);
                    Some((x3, y3, z3))
                };
                for i in (0..k.bits()).rev() {
                    if let Some(q) = &acc {
                        acc = dbl(q);
                    }
                    if k.bit(i) {
                        acc = match &acc {
                            None => Some((x2.clone(), y2.clone(), f.one())),
                            Some(q) => {
                                let (x1, y1, z1) = q;
                                let zz = f.sqr(z1);
                                let u2 = f.mul(x2, &zz);
                                let s2 = f.mul(y2, &f.mul(&zz, z1));
                                let hh = f.sub(&u2, x1);
                                let r = f.sub(&s2, y1);
                                if f.is_zero(&hh) {
                                    if f.is_zero(&r) {
                                        dbl(q)
                                    } else {
                                        None
                                    }
                                } else {
                                    let h2 = f.sqr(&hh);
                                    let h3 = f.mul(&h2, &hh);
                                    let xh2 = f.mul(x1, &h2);
                                    let x3 = f.sub(&f.sub(&f.sqr(&r), &h3), &f.mul_u(&xh2, 2));
                                    let y3 = f.sub(&f.mul(&r, &f.sub(&xh2, &x3)), &f.mul(y1, &h3));
                                    let z3 = f.mul(z1, &hh);
                                    Some((x3, y3, z3))
                                }
                            }
                        };
                    }
                }
                match acc {
                    None => MP::Inf,
                    Some((x, y, z)) => {
                        let zi = f.inv(&z).expect("Z != 0");
                        let zi2 = f.sqr(&zi);
                        MP::At(f.mul(&x, &zi2), f.mul(&y, &f.mul(&zi2, &zi)))
                    }
                }
            }
            (Shape::TE { a, d }, MP::At(px, py)) => {
                let add = |p1: &(FE, FE, FE), p2: &(FE, FE, FE)| -> (FE, FE, FE) {
                    let (x1, y1, z1) = p1;
                    let (x2, y2, z2) = p2;
                    let aa = f.mul(z1, z2);
                    let b = f.sqr(&aa);
                    let c = f.mul(x1, x2);
                    let dd = f.mul(y1, y2);
                    let e = f.mul(d, &f.mul(&c, &dd));
                    let ff = f.sub(&b, &e);
                    let g = f.add(&b, &e);
                    let t = f.sub(&f.sub(&f.mul(&f.add(x1, y1), &f.add(x2, y2)), &c), &dd);
                    let x3 = f.mul(&aa, &f.mul(&ff, &t));
                    let y3 = f.mul(&aa, &f.mul(&g, &f.sub(&dd, &f.mul(a, &c))));
                    let z3 = f.mul(&ff, &g);
                    (x3, y3, z3)
                };
                let base = (px.clone(), py.clone(), f.one());
                let mut acc = (f.zero(), f.one(), f.one());
                for i in (0..k.bits()).rev() {
                    acc = add(&acc, &acc);
                    if k.bit(i) {
                        acc = add(&acc, &base);
                    }
                }
                let zi = f.inv(&acc.2).expect("Z != 0 on a complete Edwards curve");
                MP::At(f.mul(&acc.0, &zi), f.mul(&acc.1, &zi))
            }
            (Shape::TE { .. }, MP::Inf) => panic!("no point at infinity on the Edwards model"),
        }
    }
    /// SW: both y for an x; TE: both x for a y. `None` when not on the curve.
    pub fn lift(&self, c: &FE) -> Option<(FE, FE)> {
        let f = &self.f;
        let s = match &self.shape {
            Shape::SW { a, b } => f.sqrt(&f.add(&f.add(&f.mul(&f.sqr(c), c), &f.mul(a, c)), b))?,
            Shape::TE { a, d } => {
                // x^2 = (1 - y^2)/(a - d y^2)
                let y2 = f.sqr(c);
                let den = f.sub(a, &f.mul(d, &y2));
                f.sqrt(&f.div(&f.sub(&f.one(), &y2), &den)?)?
            }
        };
        let n = f.neg(&s);
        Some((s, n))
    }
    /// Point with the given free coordinate (SW: x, TE: y) and some choice of the other one.
    pub fn point_with(&self, c: &FE) -> Option<MP> {
        let (s, _) = self.lift(c)?;
        Some(match self.shape {
            Shape::SW { .. } => MP::At(c.clone(), s),
            Shape::TE { .. } => MP::At(s, c.clone()),
        })
    }
    /// First on-curve point with free coordinate start, start+1, ...
    pub fn find_point(&self, start: u64, want_on_curve: bool) -> (FE, Option<MP>) {
        let mut k = start;
        loop {
            let c = self.f.from_u(k);
            let p = self.point_with(&c);
            if p.is_some() == want_on_curve {
                return (c, p);
            }
            k += 1;
        }
    }
}

// ---------------------------------------------------------------------------------------------
// Curve parameters (public constants of the standards, not read from the subject)
// ---------------------------------------------------------------------------------------------

pub fn h(s: &str) -> BigUint {
    big::parse_hex(s)
}

pub const BLS_P: &str = "1a0111ea397fe69a4b1ba7b6434bacd764774b84f38512bf6730d2a0f6b0f6241eabfffeb153ffffb9feffffffffaaab";
pub const BLS_R: &str = "73eda753299d7d483339d80809a1d80553bda402fffe5bfeffffffff00000001";
pub const BN_P: &str = "30644e72e131a029b85045b68181585d97816a916871ca8d3c208c16d87cfd47";
pub const BN_R: &str = "30644e72e131a029b85045b68181585d2833e84879b9709143e1f593f0000001";
pub const SECP_P: &str = "fffffffffffffffffffffffffffffffffffffffffffffffffffffffefffffc2f";
pub const SECP_N: &str = "fffffffffffffffffffffffffffffffebaaedce6af48a03bbfd25e8cd0364141";
pub const JUBJUB_R: &str = "0e7db4ea6533afa906673b0101343b00a6682093ccc81082d0970e5ed6f72cb7";
pub const ED_L: &str = "1000000000000000000000000000000014def9dea2f79cd65812631a5cf5d3ed";

pub fn ed_p() -> BigUint {
    big::pow2(255) - 19u32
}

pub fn bls_g1() -> MCurve {
    let f = Fld::new(h(BLS_P), 1);
    MCurve { shape: Shape::SW { a: f.zero(), b: f.from_u(4) }, f, r: h(BLS_R), has_cofactor: true }
}
pub fn bls_g2() -> MCurve {
    let f = Fld::new(h(BLS_P), 2);
    // b = 4(1 + u)
    MCurve { shape: Shape::SW { a: f.zero(), b: vec![big::bu(4), big::bu(4)] }, f, r: h(BLS_R), has_cofactor: true }
}
pub fn secp256k1() -> MCurve {
    let f = Fld::new(h(SECP_P), 1);
    MCurve { shape: Shape::SW { a: f.zero(), b: f.from_u(7) }, f, r: h(SECP_N), has_cofactor: false }
}
pub fn bn_g1() -> MCurve {
    let f = Fld::new(h(BN_P), 1);
    MCurve { shape: Shape::SW { a: f.zero(), b: f.from_u(3) }, f, r: h(BN_R), has_cofactor: false }
}
pub fn bn_g2() -> MCurve {
    let f = Fld::new(h(BN_P), 2);
    // D-twist: b' = 3/(9 + u)
    let b = f.div(&f.from_u(3), &vec![big::bu(9), big::bu(1)]).unwrap();
    MCurve { shape: Shape::SW { a: f.zero(), b }, f, r: h(BN_R), has_cofactor: true }
}
pub fn jubjub() -> MCurve {
    let f = Fld::new(h(BLS_R), 1);
    // a = -1, d = -(10240/10241)
    let d = f.neg(&f.div(&f.from_u(10240), &f.from_u(10241)).unwrap());
    MCurve { shape: Shape::TE { a: f.neg(&f.one()), d }, f, r: h(JUBJUB_R), has_cofactor: true }
}
pub fn ed25519() -> MCurve {
    let f = Fld::new(ed_p(), 1);
    // a = -1, d = -121665/121666
    let d = f.neg(&f.div(&f.from_u(121665), &f.from_u(121666)).unwrap());
    MCurve { shape: Shape::TE { a: f.neg(&f.one()), d }, f, r: h(ED_L), has_cofactor: true }
}

// ---------------------------------------------------------------------------------------------
// Byte formats
// ---------------------------------------------------------------------------------------------

#[derive(Clone, Copy, Debug, PartialEq, Eq)]
pub enum Fmt {
    /// ZCash BLS12-381 compressed: big-endian x (c1 || c0), flags in the top 3 bits of byte 0
    BlsC,
    /// ZCash BLS12-381 uncompressed: x || y
    BlsU,
    /// halo2curves compressed: little-endian x (c0 || c1), bit 7 of the last byte = y odd,
    /// bit 6 = identity
    BnC,
    /// halo2curves uncompressed: x || y little-endian, all-zero = identity
    BnU,
    /// in-memory Montgomery limbs (x, y) or (x, y, z) of the derive-macro curves
    BnRaw { proj: bool },
    /// SEC1 compressed, 33 bytes, all-zero = identity (fixed-width convention of `GroupEncoding`)
    Sec1C,
    /// little-endian y with the sign of x in bit 255 (RFC 8032 / ZIP 216)
    EdY,
}

#[derive(Clone, Debug, PartialEq, Eq)]
pub enum Dec {
    /// canonical encoding of an on-curve point (subgroup membership not decided here)
    Ok(MP),
    NonCanonical(&'static str),
    OffCurve,
}

fn lex_largest(f: &Fld, y: &FE) -> bool {
    let half = (f.p() - 1u32) >> 1;
    if f.deg == 2 && !y[1].is_zero() {
        y[1] > half
    } else {
        y[0] > half
    }
}

impl Fmt {
    pub fn coord_len(self, cv: &MCurve) -> usize {
        let l = match self {
            Fmt::BlsC | Fmt::BlsU => 48,
            _ => 32,
        };
        l * cv.f.deg
    }
    pub fn len(self, cv: &MCurve) -> usize {
        let c = self.coord_len(cv);
        match self {
            Fmt::BlsC | Fmt::BnC | Fmt::EdY => c,
            Fmt::BlsU | Fmt::BnU => 2 * c,
            Fmt::BnRaw { proj } => c * if proj { 3 } else { 2 },
            Fmt::Sec1C => 33,
        }
    }
    /// index of the byte that carries flag bits (None: the format has none)
    pub fn flag_byte(self, cv: &MCurve) -> Option<usize> {
        match self {
            Fmt::BlsC | Fmt::BlsU | Fmt::Sec1C => Some(0),
            Fmt::BnC => Some(self.len(cv) - 1),
            Fmt::EdY => Some(31),
            Fmt::BnU | Fmt::BnRaw { .. } => None,
        }
    }

    fn fe_be(_cv: &MCurve, x: &FE) -> Vec<u8> {
        // big-endian, most significant component first
        let mut v = vec![];
        for c in x.iter().rev() {
            v.extend(big::to_be(c, 48));
        }
        v
    }
    fn fe_le(x: &FE) -> Vec<u8> {
        let mut v = vec![];
        for c in x.iter() {
            v.extend(big::to_le(c, 32));
        }
        v
    }
    fn parse_be(cv: &MCurve, b: &[u8]) -> FE {
        let d = cv.f.deg;
        (0..d).map(|i| big::from_be(&b[(d - 1 - i) * 48..(d - i) * 48])).collect()
    }
    fn parse_le(cv: &MCurve, b: &[u8]) -> FE {
        (0..cv.f.deg).map(|i| big::from_le(&b[i * 32..(i + 1) * 32])).collect()
    }
    fn canonical(cv: &MCurve, x: &FE) -> bool {
        x.iter().all(|c| c < cv.f.p())
    }

    /// The unique canonical encoding (None where the format is not unique).
    pub fn encode(self, cv: &MCurve, p: &MP) -> Option<Vec<u8>> {
        let n = self.len(cv);
        Some(match self {
            Fmt::BlsC => match p {
                MP::Inf => {
                    let mut v = vec![0u8; n];
                    v[0] = 0xc0;
                    v
                }
                MP::At(x, y) => {
                    let mut v = Self::fe_be(cv, x);
                    v[0] |= 0x80;
                    if lex_largest(&cv.f, y) {
                        v[0] |= 0x20;
                    }
                    v
                }
            },
            Fmt::BlsU => match p {
                MP::Inf => {
                    let mut v = vec![0u8; n];
                    v[0] = 0x40;
                    v
                }
                MP::At(x, y) => {
                    let mut v = Self::fe_be(cv, x);
                    v.extend(Self::fe_be(cv, y));
                    v
                }
            },
            Fmt::BnC => match p {
                MP::Inf => {
                    let mut v = vec![0u8; n];
                    v[n - 1] = 0x40;
                    v
                }
                MP::At(x, y) => {
                    let mut v = Self::fe_le(x);
                    if y[0].bit(0) {
                        v[n - 1] |= 0x80;
                    }
                    v
                }
            },
            Fmt::BnU => match p {
                MP::Inf => vec![0u8; n],
                MP::At(x, y) => {
                    let mut v = Self::fe_le(x);
                    v.extend(Self::fe_le(y));
                    v
                }
            },
            Fmt::BnRaw { .. } => return None,
            Fmt::Sec1C => match p {
                MP::Inf => vec![0u8; 33],
                MP::At(x, y) => {
                    let mut v = vec![if y[0].bit(0) { 3u8 } else { 2u8 }];
                    v.extend(big::to_be(&x[0], 32));
                    v
                }
            },
            Fmt::EdY => match p {
                MP::Inf => return None,
                MP::At(x, y) => {
                    let mut v = big::to_le(&y[0], 32);
                    if x[0].bit(0) {
                        v[31] |= 0x80;
                    }
                    v
                }
            },
        })
    }

    /// Specification-level decoding of `b` (length must be `self.len(cv)`).
    pub fn decode(self, cv: &MCurve, b: &[u8]) -> Dec {
        assert_eq!(b.len(), self.len(cv));
        let f = &cv.f;
        let on = |p: MP| if cv.on_curve(&p) { Dec::Ok(p) } else { Dec::OffCurve };
        match self {
            Fmt::BlsC | Fmt::BlsU => {
                let compressed = self == Fmt::BlsC;
                let (c, i, s) = (b[0] & 0x80 != 0, b[0] & 0x40 != 0, b[0] & 0x20 != 0);
                if c != compressed {
                    return Dec::NonCanonical("compression flag does not match the format");
                }
                let mut body = b.to_vec();
                body[0] &= 0x1f;
                if i {
                    return if !s && body.iter().all(|x| *x == 0) {
                        Dec::Ok(MP::Inf)
                    } else {
                        Dec::NonCanonical("infinity flag with sort flag or non-zero body")
                    };
                }
                let cl = self.coord_len(cv);
                let x = Self::parse_be(cv, &body[..cl]);
                if !Self::canonical(cv, &x) {
                    return Dec::NonCanonical("x >= p");
                }
                if compressed {
                    match cv.lift(&x) {
                        None => Dec::OffCurve,
                        Some((y0, y1)) => {
                            if y0 == y1 {
                                return if s { Dec::NonCanonical("sort flag on y = 0") } else { Dec::Ok(MP::At(x, y0)) };
                            }
                            let y = if lex_largest(f, &y0) == s { y0 } else { y1 };
                            Dec::Ok(MP::At(x, y))
                        }
                    }
                } else {
                    if s {
                        return Dec::NonCanonical("sort flag on uncompressed");
                    }
                    let y = Self::parse_be(cv, &body[cl..]);
                    if !Self::canonical(cv, &y) {
                        return Dec::NonCanonical("y >= p");
                    }
                    on(MP::At(x, y))
                }
            }
            Fmt::BnC => {
                let n = b.len();
                let (sign, ident) = (b[n - 1] & 0x80 != 0, b[n - 1] & 0x40 != 0);
                let mut body = b.to_vec();
                body[n - 1] &= 0x3f;
                let x = Self::parse_le(cv, &body);
                if !Self::canonical(cv, &x) {
                    return Dec::NonCanonical("x >= p");
                }
                if ident {
                    return if f.is_zero(&x) && !sign {
                        Dec::Ok(MP::Inf)
                    } else {
                        Dec::NonCanonical("identity flag with sign flag or non-zero body")
                    };
                }
                match cv.lift(&x) {
                    None => Dec::OffCurve,
                    Some((y0, y1)) => {
                        if y0[0].bit(0) == y1[0].bit(0) {
                            // the sign convention cannot tell y from -y (y.c0 = 0)
                            return if sign { Dec::NonCanonical("sign flag where y.c0 = 0") } else { Dec::Ok(MP::At(x, y0)) };
                        }
                        let y = if y0[0].bit(0) == sign { y0 } else { y1 };
                        Dec::Ok(MP::At(x, y))
                    }
                }
            }
            Fmt::BnU => {
                let cl = self.coord_len(cv);
                let x = Self::parse_le(cv, &b[..cl]);
                let y = Self::parse_le(cv, &b[cl..]);
                if !Self::canonical(cv, &x) || !Self::canonical(cv, &y) {
                    return Dec::NonCanonical("coordinate >= p");
                }
                if f.is_zero(&x) && f.is_zero(&y) {
                    return Dec::Ok(MP::Inf);
                }
                on(MP::At(x, y))
            }
            Fmt::BnRaw { proj } => {
                let cl = self.coord_len(cv);
                let rinv = f.fp.inv(&(big::pow2(256) % f.p())).unwrap();
                let mut cs = vec![];
                for k in 0..(if proj { 3 } else { 2 }) {
                    let raw = Self::parse_le(cv, &b[k * cl..(k + 1) * cl]);
                    if !Self::canonical(cv, &raw) {
                        return Dec::NonCanonical("Montgomery limbs >= p");
                    }
                    cs.push(raw.iter().map(|c| f.fp.mul(c, &rinv)).collect::<FE>());
                }
                if proj {
                    if f.is_zero(&cs[2]) {
                        return Dec::Ok(MP::Inf);
                    }
                    let zi = f.inv(&cs[2]).unwrap();
                    on(MP::At(f.mul(&cs[0], &zi), f.mul(&cs[1], &zi)))
                } else {
                    if f.is_zero(&cs[0]) && f.is_zero(&cs[1]) {
                        return Dec::Ok(MP::Inf);
                    }
                    on(MP::At(cs[0].clone(), cs[1].clone()))
                }
            }
            Fmt::Sec1C => {
                if b.iter().all(|x| *x == 0) {
                    return Dec::Ok(MP::Inf);
                }
                if b[0] != 2 && b[0] != 3 {
                    return Dec::NonCanonical("tag is not 02/03");
                }
                let x = vec![big::from_be(&b[1..])];
                if !Self::canonical(cv, &x) {
                    return Dec::NonCanonical("x >= p");
                }
                match cv.lift(&x) {
                    None => Dec::OffCurve,
                    Some((y0, y1)) => {
                        let y = if y0[0].bit(0) == (b[0] == 3) { y0 } else { y1 };
                        Dec::Ok(MP::At(x, y))
                    }
                }
            }
            Fmt::EdY => {
                let sign = b[31] & 0x80 != 0;
                let mut body = b.to_vec();
                body[31] &= 0x7f;
                let y = vec![big::from_le(&body)];
                if !Self::canonical(cv, &y) {
                    return Dec::NonCanonical("y >= p");
                }
                match cv.lift(&y) {
                    None => Dec::OffCurve,
                    Some((x0, x1)) => {
                        if f.is_zero(&x0) {
                            return if sign { Dec::NonCanonical("sign bit set with x = 0") } else { Dec::Ok(MP::At(x0, y)) };
                        }
                        let x = if x0[0].bit(0) == sign { x0 } else { x1 };
                        Dec::Ok(MP::At(x, y))
                    }
                }
            }
        }
    }
}
