//! Straight-line IR programs built from the environment, with their reference classification.

use midnight_zkir::{Instruction, IrType, IrValue, Operation};
use num_traits::Zero;

use crate::env::*;

/// What the documentation says about a program (not about its witness values).
#[derive(Clone, Copy, Debug, PartialEq, Eq)]
pub enum Expect {
    /// an instruction violates the documented arity: the constructors must return `Err`
    BadArity,
    /// documented-valid program and well-typed witness: evaluation either succeeds or fails a
    /// value condition (assertion, range, underflow, encoding)
    Valid,
    /// operation applied to types the documentation does not list
    IllTyped,
    /// unknown / duplicate names, malformed constants, ill-typed or missing witnesses
    IllFormed,
}

#[derive(Clone, Debug)]
pub struct Prog {
    pub key: String,
    /// name of the operation under test
    pub op: &'static str,
    pub operation: Operation,
    /// canonical input class (types and parameter class) used in finding keys
    pub class: String,
    pub instrs: Vec<Instruction>,
    /// number of trailing `Publish` instructions (stripped for the off-circuit-only evaluation)
    pub tail_publish: usize,
    pub witness: Vec<(&'static str, IrValue)>,
    pub expect: Expect,
    pub variant: &'static str,
    pub depth: u8,
    /// evaluate the off-circuit side only (parameters for which a circuit cannot be built in
    /// reasonable memory)
    pub off_only: bool,
}

pub fn ins(op: Operation, inputs: &[&str], outputs: &[&str]) -> Instruction {
    Instruction {
        operation: op,
        inputs: inputs.iter().map(|s| s.to_string()).collect(),
        outputs: outputs.iter().map(|s| s.to_string()).collect(),
    }
}

/// `Load` instructions for the given variables: one instruction per declared type, in order of
/// first appearance.
pub fn loads(vars: &[&Ent]) -> (Vec<Instruction>, Vec<(&'static str, IrValue)>) {
    let mut groups: Vec<(IrType, Vec<&'static str>)> = vec![];
    let mut wit = vec![];
    for e in vars {
        let Ent::Var { name, ty, val } = e else { continue };
        if wit.iter().any(|(n, _): &(&'static str, IrValue)| n == name) {
            continue;
        }
        wit.push((*name, val.clone()));
        match groups.iter_mut().find(|g| g.0 == *ty) {
            Some(g) => g.1.push(name),
            None => groups.push((*ty, vec![name])),
        }
    }
    let instrs = groups
        .into_iter()
        .map(|(t, names)| ins(Operation::Load(t), &[], &names))
        .collect();
    (instrs, wit)
}

pub fn arity_ok(op: &Operation, nin: usize, nout: usize) -> bool {
    use Operation::*;
    match op {
        Load(_) => nin == 0 && nout >= 1,
        Publish => nin >= 1 && nout == 0,
        AssertEqual | AssertNotEqual => nin == 2 && nout == 0,
        IsEqual | Add | Sub | Mul | ModExp(_) => nin == 2 && nout == 1,
        Neg | IntoBytes(_) | FromBytes(_) | Sha256 | Sha512 => nin == 1 && nout == 1,
        InnerProduct => nin >= 2 && nin % 2 == 0 && nout == 1,
        AffineCoordinates => nin == 1 && nout == 2,
        Poseidon => nin >= 1 && nout == 1,
    }
}

fn is_zero_big(e: &Ent) -> bool {
    match e {
        Ent::Var { val: IrValue::BigUint(b), .. } => b.is_zero(),
        Ent::Const { val: Some(IrValue::BigUint(b)), .. } => b.is_zero(),
        _ => false,
    }
}

/// Canonical class of (operation, operand types, parameter class).
pub fn class_of(op: &Operation, tys: &[Option<IrType>], args: &[&Ent]) -> String {
    let tn = |t: &Option<IrType>| match t {
        Some(IrType::Bytes(0)) => "Bytes(0)",
        Some(t) => ty_class(t),
        None => "not-a-name",
    };
    let known: Vec<IrType> = tys.iter().flatten().copied().collect();
    let all_known = known.len() == tys.len();
    let base = || tys.iter().map(tn).collect::<Vec<_>>().join(",");
    match op {
        Operation::IntoBytes(n) if tys.len() == 1 => match tys[0] {
            Some(IrType::BigUint(w)) => {
                // limbs of 96 bits = 12 bytes each
                let limb_bytes = (w.max(1).div_ceil(96) * 12) as usize;
                format!("BigUint:{}", if *n > limb_bytes { "n>limb-bytes" } else if *n == 0 { "n=0" } else { "n<=limb-bytes" })
            }
            Some(IrType::Native) => format!("Native:{}", if *n > 32 { "n>32" } else if *n == 0 { "n=0" } else { "n<=32" }),
            Some(IrType::JubjubPoint) => format!("JubjubPoint:{}", if *n == 32 { "n=32" } else { "n!=32" }),
            _ => base(),
        },
        Operation::ModExp(n) if tys.len() == 2 && all_known && doc_supported(op, &known) => {
            if is_zero_big(args[1]) {
                "modulus=0".to_string()
            } else {
                format!("BigUint,BigUint:n={}", if *n <= 1 { n.to_string() } else { ">1".into() })
            }
        }
        Operation::FromBytes(t) if tys.len() == 1 => {
            let l = match tys[0] {
                Some(IrType::Bytes(l)) => match t {
                    IrType::BigUint(n) => format!("Bytes:{}", if (*n as usize) < 8 * l { "8len>n" } else { "8len<=n" }),
                    IrType::JubjubPoint => format!("Bytes:{}", if l == 32 { "len=32" } else { "len!=32" }),
                    IrType::JubjubScalar => format!("Bytes:{}", if l >= 32 { "len>=32" } else if l == 0 { "len=0" } else { "len<32" }),
                    IrType::Native => format!("Bytes:{}", if l >= 32 { "len>=32" } else { "len<32" }),
                    _ => "Bytes".to_string(),
                },
                _ => base(),
            };
            format!("{}<-{}", ty_class(t), l)
        }
        Operation::IsEqual | Operation::AssertEqual | Operation::AssertNotEqual
            if tys.len() == 2 && all_known && !doc_supported(op, &known) =>
        {
            match (known[0], known[1]) {
                (IrType::Bytes(a), IrType::Bytes(b)) if a != b => "Bytes(m),Bytes(n):m!=n".to_string(),
                (a, b) if ty_class(&a) == ty_class(&b) => base(),
                _ => "mixed-types".to_string(),
            }
        }
        _ => base(),
    }
}

#[derive(Clone, Copy, Debug, PartialEq, Eq)]
pub enum Tweak {
    None,
    InPlus,
    InMinus,
    OutPlus,
    OutMinus,
    DupOutput,
    DupOutputPair,
    MissingInput,
    ShadowWitness,
    MissingWitness,
    WrongTypeWitness,
    OversizeWitness,
    NoPublish,
    PublishTwice,
}

impl Tweak {
    pub fn name(self) -> &'static str {
        match self {
            Tweak::None => "base",
            Tweak::InPlus => "inputs+1",
            Tweak::InMinus => "inputs-1",
            Tweak::OutPlus => "outputs+1",
            Tweak::OutMinus => "outputs-1",
            Tweak::DupOutput => "output-duplicates-a-loaded-name",
            Tweak::DupOutputPair => "two-outputs-same-name",
            Tweak::MissingInput => "missing-input-name",
            Tweak::ShadowWitness => "output-shadows-an-unloaded-witness",
            Tweak::MissingWitness => "witness-missing",
            Tweak::WrongTypeWitness => "witness-of-wrong-type",
            Tweak::OversizeWitness => "witness-too-large-for-declared-type",
            Tweak::NoPublish => "no-publish",
            Tweak::PublishTwice => "publish-twice-and-a-constant",
        }
    }
}

pub const TWEAKS: [Tweak; 13] = [
    Tweak::InPlus,
    Tweak::InMinus,
    Tweak::OutPlus,
    Tweak::OutMinus,
    Tweak::DupOutput,
    Tweak::DupOutputPair,
    Tweak::MissingInput,
    Tweak::ShadowWitness,
    Tweak::MissingWitness,
    Tweak::WrongTypeWitness,
    Tweak::OversizeWitness,
    Tweak::NoPublish,
    Tweak::PublishTwice,
];

/// `prefix` (already evaluated instructions and their witness; depth 2) + loads of the variable
/// operands + the instruction under test + `Publish` of its outputs.
/// `pre_tys`: names defined by the prefix with their (in-circuit) types.
pub fn build(
    op: Operation,
    args: &[&Ent],
    tweak: Tweak,
    prefix: Option<(&Prog, &[(String, IrType)])>,
) -> Option<Prog> {
    let mut instrs: Vec<Instruction> = vec![];
    let mut witness: Vec<(&'static str, IrValue)> = vec![];
    let mut pre_names: Vec<(String, IrType)> = vec![];
    let mut pre_key = String::new();
    if let Some((p, outs)) = prefix {
        let n = p.instrs.len() - p.tail_publish;
        instrs.extend_from_slice(&p.instrs[..n]);
        witness = p.witness.clone();
        pre_names = outs.to_vec();
        pre_key = format!("{}>>", p.key);
    }
    // operands: names defined by the prefix are passed as `Const` entities whose text is the name
    let is_pre = |e: &Ent| pre_names.iter().find(|(n, _)| n == e.name()).map(|x| x.1);
    let new_vars: Vec<&Ent> = args
        .iter()
        .copied()
        .filter(|e| e.is_var() && !witness.iter().any(|(n, _)| *n == e.name()))
        .collect();
    let (ld, wit) = loads(&new_vars);
    instrs.extend(ld);
    witness.extend(wit);
    let tys: Vec<Option<IrType>> = args.iter().map(|e| is_pre(e).or_else(|| e.ty())).collect();
    let nout = n_outputs(&op);
    let out_names: Vec<String> = (0..nout).map(|i| if prefix.is_some() { format!("q{i}") } else { format!("o{i}") }).collect();
    let mut main = Instruction {
        operation: op,
        inputs: args.iter().map(|e| e.name().to_string()).collect(),
        outputs: out_names.clone(),
    };
    let first_loaded = witness.first().map(|w| w.0.to_string());
    let mut expect = if tys.iter().any(|t| t.is_none()) {
        Expect::IllFormed
    } else {
        let k: Vec<IrType> = tys.iter().flatten().copied().collect();
        if doc_supported(&op, &k) {
            Expect::Valid
        } else {
            Expect::IllTyped
        }
    };
    let mut publish: Vec<Vec<String>> = if !out_names.is_empty() {
        vec![out_names.clone()]
    } else if matches!(op, Operation::Publish) {
        vec![]
    } else {
        vec![vec![args[0].name().to_string()]]
    };
    match tweak {
        Tweak::None => {}
        Tweak::InPlus => main.inputs.push(args[0].name().to_string()),
        Tweak::InMinus => {
            main.inputs.pop();
        }
        Tweak::OutPlus => main.outputs.push("ox".into()),
        Tweak::OutMinus => {
            main.outputs.pop()?;
            if let Some(p) = publish.first_mut() {
                if !out_names.is_empty() {
                    p.pop();
                    if p.is_empty() {
                        publish.clear();
                    }
                }
            }
        }
        Tweak::DupOutput => {
            if main.outputs.is_empty() {
                return None;
            }
            main.outputs[0] = first_loaded.clone()?;
            publish = vec![vec![first_loaded.clone()?]];
            expect = Expect::IllFormed;
        }
        Tweak::DupOutputPair => {
            if main.outputs.len() < 2 {
                return None;
            }
            main.outputs[1] = main.outputs[0].clone();
            publish = vec![vec![main.outputs[0].clone()]];
            expect = Expect::IllFormed;
        }
        Tweak::MissingInput => {
            main.inputs[0] = "zz_missing".into();
            if out_names.is_empty() && !matches!(op, Operation::Publish) {
                publish = vec![vec![args[args.len() - 1].name().to_string()]];
            }
            expect = Expect::IllFormed;
        }
        Tweak::ShadowWitness => {
            if main.outputs.is_empty() {
                return None;
            }
            witness.push((intern(&main.outputs[0]), IrValue::Bool(true)));
        }
        Tweak::MissingWitness => {
            if witness.is_empty() {
                return None;
            }
            witness.remove(0);
            expect = Expect::IllFormed;
        }
        Tweak::WrongTypeWitness => {
            let w = witness.first_mut()?;
            w.1 = match w.1 {
                IrValue::Bool(_) => IrValue::Native(F::from(1)),
                IrValue::Bytes(ref b) => IrValue::Bytes([b.clone(), vec![0u8]].concat()), // wrong length
                _ => IrValue::Bool(true),
            };
            expect = Expect::IllFormed;
        }
        Tweak::OversizeWitness => {
            // only meaningful for BigUint: value of declared width + 1 bits
            let decl = instrs.iter().find_map(|i| match i.operation {
                Operation::Load(IrType::BigUint(w)) if i.outputs.iter().any(|o| Some(o) == first_loaded.as_ref()) => Some(w),
                _ => None,
            })?;
            witness.first_mut()?.1 = IrValue::BigUint(num_bigint::BigUint::from(1u8) << decl);
            expect = Expect::IllFormed;
        }
        Tweak::NoPublish => {
            if publish.is_empty() {
                return None;
            }
            publish.clear();
        }
        Tweak::PublishTwice => {
            if publish.is_empty() {
                return None;
            }
            let p0 = publish[0].clone();
            publish.push([p0, vec!["Native:-0x01".to_string()]].concat());
        }
    }
    if !arity_ok(&main.operation, main.inputs.len(), main.outputs.len()) {
        expect = Expect::BadArity;
    } else if matches!(tweak, Tweak::InPlus | Tweak::InMinus | Tweak::OutPlus | Tweak::OutMinus) {
        // still a legal arity (variadic operations): the reference class must be recomputed
        let mut a2: Vec<&Ent> = args.to_vec();
        match tweak {
            Tweak::InPlus => a2.push(args[0]),
            Tweak::InMinus => {
                a2.pop();
            }
            _ => return None, // Load with one more / fewer outputs is covered by the Load group
        }
        let t2: Vec<Option<IrType>> = a2.iter().map(|e| is_pre(e).or_else(|| e.ty())).collect();
        if t2.iter().any(|t| t.is_none()) {
            expect = Expect::IllFormed;
        } else {
            let k: Vec<IrType> = t2.iter().flatten().copied().collect();
            expect = if doc_supported(&op, &k) { Expect::Valid } else { Expect::IllTyped };
        }
    }
    let tail_publish = publish.len() + matches!(op, Operation::Publish) as usize;
    instrs.push(main);
    for p in publish {
        instrs.push(Instruction {
            operation: Operation::Publish,
            inputs: p,
            outputs: vec![],
        });
    }
    let class = class_of(&op, &tys, args);
    let key = format!(
        "{pre_key}{:?}({})/{}",
        op,
        args.iter().map(|e| if e.name().is_empty() { "<empty>" } else { e.name() }).collect::<Vec<_>>().join(","),
        tweak.name()
    );
    Some(Prog {
        key,
        op: op_name(&op),
        operation: op,
        class,
        instrs,
        tail_publish,
        witness,
        expect,
        variant: tweak.name(),
        depth: if prefix.is_some() { 2 } else { 1 },
        off_only: false,
    })
}

/// A hand-written program (Load / Publish groups, special cases).
pub fn custom(
    key: &str,
    op: Operation,
    class: &str,
    instrs: Vec<Instruction>,
    tail_publish: usize,
    witness: Vec<(&'static str, IrValue)>,
    expect: Expect,
    variant: &'static str,
) -> Prog {
    Prog {
        key: key.to_string(),
        op: op_name(&op),
        operation: op,
        class: class.to_string(),
        instrs,
        tail_publish,
        witness,
        expect,
        variant,
        depth: 0,
        off_only: false,
    }
}

/// Shape of a program: the instruction list with witness names canonicalised. The compiled
/// circuit (with unknown witness), its size and the serialised forms depend only on the shape.
pub fn shape(p: &Prog) -> String {
    let mut names: Vec<String> = vec![];
    for i in &p.instrs {
        if let Operation::Load(_) = i.operation {
            for o in &i.outputs {
                if !names.contains(o) {
                    names.push(o.clone());
                }
            }
        }
    }
    let ren = |s: &String| match names.iter().position(|n| n == s) {
        Some(i) => format!("${i}"),
        None => s.clone(),
    };
    p.instrs
        .iter()
        .map(|i| {
            format!(
                "{:?}[{}]->[{}]",
                i.operation,
                i.inputs.iter().map(ren).collect::<Vec<_>>().join(","),
                i.outputs.iter().map(ren).collect::<Vec<_>>().join(",")
            )
        })
        .collect::<Vec<_>>()
        .join(";")
}
